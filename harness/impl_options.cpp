#include "common.hpp"
#include <unistd.h>

// ---------------------------------------------------------------------------------------
// opt <id> <workdir> <argc> <arg>* <nx> <xarg>*   (arguments %XX-escaped, "%" alone = empty string)
//   chdir(workdir); ProgramOptions::parse(argv) ; status run|stop|fail ; every bound variable
//   (through its getter where one exists); save("saved.cfg"); a second, fresh ProgramOptions
//   parses `--config saved.cfg`; its status and variables (prefix r).  With nx > 0 a third, fresh
//   ProgramOptions parses `<xarg>* --config saved.cfg` (the saved file re-read with extra
//   command-line options): status and variables with prefix x.
// Config files (and default.cfg) are put into workdir by the caller.

static std::string unesc(const std::string& s)
{
    std::string r;
    for (size_t i = 0; i < s.size(); i++) {
        if (s[i] == '%' && i + 2 < s.size()) {
            r += (char)strtol(s.substr(i + 1, 2).c_str(), nullptr, 16);
            i += 2;
        } else if (s[i] == '%') {
            // lone % : empty marker
        } else r += s[i];
    }
    return r;
}

static std::string esc(const std::string& s)
{
    if (s.empty()) return "%";
    std::string r;
    char b[8];
    for (unsigned char c : s) {
        if (isalnum(c) || c == '_' || c == '.' || c == '/' || c == '-') r += (char)c;
        else { snprintf(b, sizeof b, "%%%02X", c); r += b; }
    }
    return r;
}

static void pstr(const char* pre, const char* name, const std::string& v) { printf("%svar %s s %s\n", pre, name, esc(v).c_str()); }
static void pint(const char* pre, const char* name, long long v) { printf("%svar %s i %lld\n", pre, name, v); }
static void pflt(const char* pre, const char* name, double v) { printf("%svar %s f %a\n", pre, name, v); }

static void dump(const char* p, ProgramOptions& o)
{
    pint(p, "_cldevice", o.getCLDevice());
    pstr(p, "_impedancefile", o.getImpedanceFile());
    pstr(p, "_outfile", o.getOutFile());
    pint(p, "_savephasespace", o.getSavePhaseSpace());
    pint(p, "_showphasespace", o._showphasespace);      // no getter in a build without OpenGL
    pstr(p, "_startdistfile", o.getStartDistFile());
    pstr(p, "_trackingfile", o.getParticleTracking());
    pint(p, "_startdiststep", o.getStartDistStep());
    pstr(p, "_configfile", o._configfile);
    pint(p, "_glversion", o._glversion);                // no getter in a build without OpenGL
    pint(p, "_verbose", o.getVerbosity());
    pint(p, "_forcerun", o.getForceRun());
    pint(p, "meshsize", o.getGridSize());
    pint(p, "outsteps", o.getOutSteps());
    pflt(p, "padding", o.getPadding());
    pint(p, "roundpadding", o.getRoundPadding());
    pflt(p, "pq_size", o.getPhaseSpaceSize());
    pflt(p, "meshshiftx", o.getPSShiftX());
    pflt(p, "meshshifty", o.getPSShiftY());
    pint(p, "steps_per_Ts", o.getStepsPerTsync());
    pflt(p, "steps_per_Trev", o.getStepsPerTrev());
    pint(p, "renormalize", o.getRenormalizeCharge());
    pflt(p, "rotations", o.getNRotations());
    pint(p, "fptype", o.getFPType());
    pint(p, "fptrack", o.getFPTrack());
    pint(p, "deriv_type", o.getDerivationType());
    pint(p, "interpol_type", o.getInterpolationPoints());
    pint(p, "interpol_clamp", o.getInterpolationClamped());
    pflt(p, "alpha0", o.getAlpha0());
    pflt(p, "alpha1", o.getAlpha1());
    pflt(p, "alpha2", o.getAlpha2());
    pflt(p, "rf_amplitude_spread", o.getRFAmplitudeSpread());
    pflt(p, "rf_phase_spread", o.getRFPhaseSpread());
    pflt(p, "rf_phase_mod_amplitude", o.getRFPhaseModAmplitude());
    pflt(p, "rf_phase_mod_frequency", o.getRFPhaseModFrequency());
    pflt(p, "E_0", o.getBeamEnergy());
    pflt(p, "r_bend", o.getBendingRadius());
    pflt(p, "f_c", o.getCutoffFrequency());
    pflt(p, "s_E", o.getEnergySpread());
    pint(p, "_hi", o.getHaissinskiIterations());
    pflt(p, "H", o.getHarmonicNumber());
    pflt(p, "f0", o.getRevolutionFrequency());
    pflt(p, "V_RF", o.getRFVoltage());
    pflt(p, "zoom", o.getStartDistZoom());
    pflt(p, "f_s", o.getSyncFreq());
    pflt(p, "t_d", o.getDampingTime());
    pflt(p, "g", o.getVacuumChamberGap());
    pint(p, "use_csr", o.getUseCSR());
    pint(p, "linearRF", o.getLinearRF());
    pflt(p, "collimator", o.getCollimatorRadius());
    pflt(p, "s_c", o.getWallConductivity());
    pflt(p, "xi_wall", o.getWallSusceptibility());
    printf("%svar I_b v", p);
    for (auto c : o.getBunchCurrents()) pf(c);
    printf("\n");
}

// returns 0 run, 1 stop, 2 fail
static int do_parse(ProgramOptions& o, std::vector<std::string>& args, std::string& what)
{
    std::vector<char*> av;
    for (auto& a : args) av.push_back(const_cast<char*>(a.c_str()));
    av.push_back(nullptr);
    std::ostringstream sink;
    std::streambuf* old = std::cout.rdbuf(sink.rdbuf());
    int st;
    try {
        st = o.parse((int)args.size(), av.data()) ? 0 : 1;
        what = sink.str();
    } catch (std::exception& e) {
        st = 2;
        what = e.what();
    }
    std::cout.rdbuf(old);
    return st;
}

static void do_opt()
{
    std::string id = next();
    std::string wd = unesc(next());
    int ac = nextl();
    std::vector<std::string> args;
    for (int i = 0; i < ac; i++) args.push_back(unesc(next()));
    int nx = nextl();
    std::vector<std::string> xargs;
    for (int i = 0; i < nx; i++) xargs.push_back(unesc(next()));
    if (chdir(wd.c_str()) != 0) { fprintf(stderr, "chdir %s failed\n", wd.c_str()); exit(3); }
    Display::silent_mode = true;
    printf("case %s\n", id.c_str());
    static const char* names[] = {"run", "stop", "fail"};
    {
        ProgramOptions o;
        std::string what;
        int st = do_parse(o, args, what);
        printf("status %s\n", names[st]);
        printf("message %s\n", esc(what.substr(0, 200)).c_str());
        if (st == 0) {
            dump("", o);
            o.save("saved.cfg");
            ProgramOptions r;
            std::vector<std::string> a2 = {args[0], "--config", "saved.cfg"};
            int st2 = do_parse(r, a2, what);
            printf("rstatus %s\n", names[st2]);
            printf("rmessage %s\n", esc(what.substr(0, 200)).c_str());
            if (st2 == 0) dump("r", r);
            if (nx > 0) {
                ProgramOptions x;
                std::vector<std::string> a3 = {args[0]};
                for (auto& a : xargs) a3.push_back(a);
                a3.push_back("--config");
                a3.push_back("saved.cfg");
                int st3 = do_parse(x, a3, what);
                printf("xstatus %s\n", names[st3]);
                printf("xmessage %s\n", esc(what.substr(0, 200)).c_str());
                if (st3 == 0) dump("x", x);
            }
        }
    }
    printf("end\n");
}

int main(int argc, char** argv)
{
    return run_main(argc, argv, {{"opt", do_opt}});
}
