#include "common.hpp"

// ---------------------------------------------------------------------------------------
// Several full transport steps at API level on an nb-bunch grid, wired as src/main.cpp wires them:
//   grid_t1 --wm--> grid_t2 --rfm--> grid_t1 --drm--> grid_t3 --fpm--> grid_t1 ; grid_t1->updateXProjection()
//   wm  : Identity (no impedance) | WakePotentialMap on an ElectricField (update() at the head of every step, as main()
//         does) | a plain KickMap(Axis::y) whose offset vector is injected before every step (what a bunch "on its own,
//         moved by the wake computed for it" means: C08)
//   rfm : RFKickMap (linear RF)   drm : DriftMap   fpm : FokkerPlanckMap | Identity (no damping)
//
// run <id> <n> <nb> <it> <steps> <half> <angle> <dt> <v> <e1> <wmode> [wake tokens] ; data (nb*n*n)
//   dt = 0: Identity in the Fokker-Planck slot (v, e1 ignored); dt = 3|4: derivation type, v: FPType, e1
//   wmode = none
//         | inject  followed by steps*(nb*n) offsets
//         | field <N> <spacing_bins> <buckets (nb)> <scal> <zre (N)> <zim (N)>
//           ElectricField(grid_t1, Impedance(z, fmax), buckets, spacing_bins, f_rev, revolutionpart, Ib, E0, sE, dt)
//           with E0 = sE = 1, dt = 1/c, Ib = scal*delta(1)  ->  wake scaling = scal/N up to rounding
// prints per step k: `wp k` (the nb*n values wakePotential() returned, field mode), `woff k` (the kick map's offset vector,
// field and inject mode), `g k` (grid_t1 after the step); in field mode also `wtab k` (the kick map's table) for k = 0;
// finally `rfoff`, `droff` (offset vectors of the RF kick and the drift) and `fptab` (table of the Fokker-Planck map).
static void print_vec(const char* tag, unsigned k, const meshaxis_t* v, size_t len)
{
    printf("%s %u", tag, k);
    for (size_t i = 0; i < len; i++) pf(v[i]);
    printf("\n");
}

static void do_run()
{
    std::string id = next();
    unsigned n = nextl(), nb = nextl(), it = nextl(), steps = nextl();
    float half = nextf(), angle = nextf();
    unsigned dt = nextl(), v = nextl();
    float e1 = nextf();
    std::string wmode = next();
    const size_t tot = (size_t)nb * n * n;
    const auto itype = static_cast<SourceMap::InterpolationType>(it);

    auto g1 = mkps(n, nb, -half, half, -half, half);
    auto g2 = mkps(n, nb, -half, half, -half, half);
    auto g3 = mkps(n, nb, -half, half, -half, half);

    std::vector<std::vector<meshaxis_t>> inj;
    std::unique_ptr<SourceMap> wm;
    KickMap* km = nullptr;
    WakePotentialMap* wpm = nullptr;
    std::shared_ptr<Impedance> imp;
    std::unique_ptr<ElectricField> field;
    if (wmode == "none") {
        wm.reset(new Identity(g1, g2, nullptr));
    } else if (wmode == "inject") {
        inj.resize(steps);
        for (auto& o : inj) { o.resize((size_t)nb * n); for (auto& x : o) x = nextf(); }
        km = new KickMap(g1, g2, itype, false, KickMap::Axis::y, nullptr);
        wm.reset(km);
    } else if (wmode == "field") {
        size_t N = nextl();
        unsigned spacing = nextl();
        std::vector<uint32_t> buckets(nb);
        for (auto& b : buckets) b = nextl();
        double scal = nextd();
        std::vector<impedance_t> z(N);
        std::vector<float> zre(N), zim(N);
        for (auto& x : zre) x = nextf();
        for (auto& x : zim) x = nextf();
        for (size_t i = 0; i < N; i++) z[i] = impedance_t(zre[i], zim[i]);
        imp = std::make_shared<Impedance>(z, 1e12f);
        const double Ib = scal * (double)g1->getDelta(1);
        field.reset(new ElectricField(g1, imp, buckets, spacing, nullptr, 1.0, (meshaxis_t)1.0,
                                      Ib, 1.0, 1.0, 1.0 / physcons::c));
        wpm = new WakePotentialMap(g1, g2, field.get(), itype, false, nullptr);
        wm.reset(wpm);
    } else {
        fprintf(stderr, "unknown wake mode %s\n", wmode.c_str());
        exit(3);
    }
    for (size_t i = 0; i < tot; i++) { g1->getData()[i] = nextf(); g2->getData()[i] = 0; g3->getData()[i] = 0; }

    RFKickMap rfm(g2, g1, angle, 5e8, itype, false, nullptr);
    const std::vector<meshaxis_t> slip{angle, 0, 0};
    DriftMap drm(g1, g3, slip, 1e9, itype, false, nullptr);
    std::unique_ptr<SourceMap> fpm;
    FokkerPlanckMap* fp = nullptr;
    if (dt != 0) {
        fp = new FokkerPlanckMap(g3, g1, n, n, static_cast<FokkerPlanckMap::FPType>(v), FokkerPlanckMap::FPTracking::none,
                                 e1, static_cast<FokkerPlanckMap::DerivationType>(dt), nullptr);
        fpm.reset(fp);
    } else {
        fpm.reset(new Identity(g3, g1, nullptr));
    }

    printf("case %s\n", id.c_str());
    printf("axes"); pf(g1->getDelta(0)); pf(g1->getDelta(1)); pf(g1->getAxis(0)->zerobin()); pf(g1->getAxis(1)->zerobin()); printf("\n");
    if (field) { printf("scaling"); pf(field->getWakeScaling()); printf("\n"); }
    print_vec("rfoff", 0, rfm._offset.data(), rfm._offset.size());
    print_vec("droff", 0, drm._offset.data(), drm._offset.size());
    printf("fptab");
    if (fp) for (size_t k = 0; k < (size_t)n * dt; k++) { printf(" %u", fp->_hinfo[k].index); pf(fp->_hinfo[k].weight); }
    printf("\n");

    // "Starting the simulation": the projection of the current grid
    g1->updateXProjection();
    for (unsigned k = 0; k < steps; k++) {
        if (wpm) {
            wpm->update();
            print_vec("wp", k, field->_wakepotential.data(), (size_t)nb * n);
            print_vec("woff", k, wpm->_offset.data(), wpm->_offset.size());
            if (k == 0) {
                printf("wtab %u", k);
                for (size_t q = 0; q < (size_t)n * nb * it; q++) { printf(" %u", wpm->_hinfo[q].index); pf(wpm->_hinfo[q].weight); }
                printf("\n");
            }
        }
        if (km) {
            std::vector<meshaxis_t> o(inj[k]);
            km->swapOffset(o);
            print_vec("woff", k, km->_offset.data(), km->_offset.size());
        }
        wm->apply();
        rfm.apply();
        drm.apply();
        fpm->apply();
        g1->updateXProjection();
        print_vec("g", k, g1->getData(), tot);
    }
    printf("end\n");
}

int main(int argc, char** argv)
{
    return run_main(argc, argv, {{"run", do_run}});
}
