#pragma once
// Correspondence harness, implementation side (DESIGN 2.3): drives the repo's own translation
// units through their API on the cases of a text file and prints results as hex floats.
// Private members are read (never written, except where a case kind says so) through the
// access-specifier trick below, applied after the standard headers.
#include <algorithm>
#include <array>
#include <cmath>
#include <complex>
#include <cstdio>
#include <cstdlib>
#include <cstring>
#include <fstream>
#include <iostream>
#include <map>
#include <memory>
#include <queue>
#include <random>
#include <sstream>
#include <string>
#include <vector>
#include <boost/multi_array.hpp>
#include <boost/program_options.hpp>
#include <boost/filesystem.hpp>
#include <fftw3.h>
#include <H5Cpp.h>

#define INOVESA_ALLOW_PS_RESET 1
#define private public
#define protected public
#include "defines.hpp"
#include "PS/PhaseSpace.hpp"
#include "PS/ElectricField.hpp"
#include "PS/PhaseSpaceFactory.hpp"
#include "SM/SourceMap.hpp"
#include "SM/KickMap.hpp"
#include "SM/DriftMap.hpp"
#include "SM/RFKickMap.hpp"
#include "SM/DynamicRFKickMap.hpp"
#include "SM/FokkerPlanckMap.hpp"
#include "SM/Identity.hpp"
#include "SM/RotationMap.hpp"
#include "SM/WakePotentialMap.hpp"
#include "Z/Impedance.hpp"
#include "Z/ImpedanceFactory.hpp"
#include "Z/ConstImpedance.hpp"
#include "Z/CollimatorImpedance.hpp"
#include "Z/FreeSpaceCSR.hpp"
#include "Z/ParallelPlatesCSR.hpp"
#include "Z/ResistiveWall.hpp"
#include "IO/ProgramOptions.hpp"
#include "IO/HDF5File.hpp"
#include "HelperFunctions.hpp"
#undef private
#undef protected

using namespace vfps;

static std::vector<std::string> toks;
static size_t tp = 0;
static bool more() { return tp < toks.size(); }
static std::string next() { if (!more()) { fprintf(stderr, "unexpected end of input\n"); exit(3);} return toks[tp++]; }
static long nextl() { return strtol(next().c_str(), nullptr, 10); }
static float nextf() { return strtof(next().c_str(), nullptr); }
static double nextd() { return strtod(next().c_str(), nullptr); }
static void pf(float v) { printf(" %a", (double)v); }
static void pd(double v) { printf(" %a", v); }

static std::shared_ptr<PhaseSpace> mkps(unsigned n, unsigned nb,
                                        float qmin = -6, float qmax = 6,
                                        float pmin = -6, float pmax = 6,
                                        const std::vector<float>* fill = nullptr)
{
    PhaseSpace::resetSize(n, nb);
    std::vector<integral_t> filling;
    if (fill) filling = *fill; else filling.assign(nb, 1.0f / nb);
    return std::make_shared<PhaseSpace>(qmin, qmax, 1.0, pmin, pmax, 1.0, nullptr, 1.0, 1.0, filling, 1.0);
}


// token-stream main loop shared by all harness programs
#include <functional>
static int run_main(int argc, char** argv, const std::map<std::string, std::function<void()>>& tbl)
{
    std::ios::sync_with_stdio(true);
    std::istream* is = &std::cin;
    std::ifstream f;
    if (argc > 1) { f.open(argv[1]); is = &f; }
    std::string t;
    while (*is >> t) toks.push_back(t);
    while (more()) {
        std::string k = next();
        auto it = tbl.find(k);
        if (it == tbl.end()) { fprintf(stderr, "unknown case kind %s\n", k.c_str()); return 3; }
        it->second();
        fflush(stdout);
    }
    return 0;
}
