#include "common.hpp"
// C17 harness: sizes and extreme indices read from the repo's own objects (std flavour,
// compared with the extracted model) and the same objects driven to their extremes under
// ASan+UBSan (asan flavour; every sanitizer report is a failing input).
// A case whose model verdict is "out of bounds / undefined" is only ever *executed* in the
// asan flavour, one process per case (flag run=1).

static void phex(unsigned long long v) { printf(" %llx", v); }

// upt <id> <count> v(hex)...
static void do_upt()
{
    std::string id = next();
    size_t cnt = nextl();
    printf("case %s\nr", id.c_str());
    for (size_t i = 0; i < cnt; i++) {
        uint64_t v = strtoull(next().c_str(), nullptr, 16);
        phex(vfps::upper_power_of_two(v));
    }
    printf("\nend\n");
}

// pad <id> <n> <nb> <nmax> <spacing> <run> buckets(nb)...
// prints nmax spacing, per bunch the start offset of its block (the expression of
// padBunchProfiles on the object's own members); with run=1 also executes wakePotential()
// on an all-ones profile and prints first/last non-zero cell of the padded buffer per run.
static void do_pad()
{
    std::string id = next();
    unsigned n = nextl(), nb = nextl();
    size_t nmax = nextl();
    unsigned spacing = strtoul(next().c_str(), nullptr, 10);
    int run = nextl();
    std::vector<uint32_t> buckets(nb);
    for (auto& b : buckets) b = strtoul(next().c_str(), nullptr, 10);
    auto ps = mkps(n, nb);
    auto imp = std::make_shared<Impedance>(nmax, 1e9);
    ElectricField ef(ps, imp, buckets, spacing, nullptr, 1e6, 1e-3f, 1e-3, 1e9, 1e-3, 1e-9);
    printf("case %s\nsizes %zu %u\nstart", id.c_str(), (size_t)ef._nmax, (unsigned)ef._spacing_bins);
    for (unsigned b = 0; b < nb; b++) {
        size_t off = ef._bucket[b] * ef._spacing_bins;   // uint32 product, as in the code
        printf(" %zu", off);
    }
    printf("\n");
    if (run) {
        for (unsigned b = 0; b < nb; b++)
            for (unsigned x = 0; x < n; x++) ps->_projection[0][b][x] = 1.0f + b;
        std::fill_n(ef._bp_padded, ef._nmax, 0.0f);
        ef.padBunchProfiles();
        long first = -1, last = -1;
        for (size_t i = 0; i < ef._nmax; i++)
            if (ef._bp_padded[i] != 0) { if (first < 0) first = i; last = i; }
        printf("written %ld %ld\n", first, last);
        ef.wakePotential();
        printf("wake ok\n");
    }
    printf("end\n");
}

// fp <id> <n> <dt> <pmin> <pmax> <fptype> <run>
// prints the zero bin of the energy axis as the object holds it; with run=1 constructs the
// map, prints the index part of its table and applies it once.
static void do_fp()
{
    std::string id = next();
    unsigned n = nextl(), dt = nextl();
    float pmin = nextf(), pmax = nextf();
    unsigned fptype = nextl();
    int run = nextl();
    auto in = mkps(n, 1, -6, 6, pmin, pmax);
    auto out = mkps(n, 1, -6, 6, pmin, pmax);
    printf("case %s\nzerobin", id.c_str());
    pf(in->getAxis(1)->zerobin());
    printf("\n");
    if (run) {
        FokkerPlanckMap fpm(in, out, n, n, static_cast<FokkerPlanckMap::FPType>(fptype),
                            FokkerPlanckMap::FPTracking::none, 0.01f,
                            static_cast<FokkerPlanckMap::DerivationType>(dt), nullptr);
        printf("table");
        for (size_t k = 0; k < (size_t)n * dt; k++) printf(" %u", fpm._hinfo[k].index);
        printf("\n");
        fpm.apply();
        printf("apply ok\n");
    }
    printf("end\n");
}

// f2u <id> <count> f...  : static_cast<meshindex_t>(float), the conversion used by
// updateSM / the FP constructor / appendTracks (executed: only defined inputs in the std flavour)
static void do_f2u()
{
    std::string id = next();
    size_t cnt = nextl();
    printf("case %s\nr", id.c_str());
    for (size_t i = 0; i < cnt; i++) {
        volatile float f = nextf();
        meshindex_t u = f;
        printf(" %u", u);
    }
    printf("\nend\n");
}

// kick <id> <dir> <n> <nb> <it> offs(n*nb)... : table indices after updateSM, then apply
static void do_kick()
{
    std::string id = next();
    std::string dir = next();
    unsigned n = nextl(), nb = nextl(), it = nextl();
    std::vector<meshaxis_t> offs(n * nb);
    for (auto& o : offs) o = nextf();
    auto in = mkps(n, nb);
    auto out = mkps(n, nb);
    for (size_t i = 0; i < (size_t)nb * n * n; i++) in->getData()[i] = 1.0f;
    KickMap km(in, out, static_cast<SourceMap::InterpolationType>(it), false,
               dir == "x" ? KickMap::Axis::x : KickMap::Axis::y, nullptr);
    km.swapOffset(offs);
    printf("case %s\ntable", id.c_str());
    for (size_t k = 0; k < (size_t)n * nb * it; k++) printf(" %u", km._hinfo[k].index);
    printf("\n");
    km.apply();
    printf("apply ok\nend\n");
}

// imp <id> <lhs> <rhs> : (zero impedance of lhs frequencies) += (table of rhs ones);
// prints the sum's real parts - cells beyond rhs must stay 0
static void do_imp()
{
    std::string id = next();
    size_t lhs = nextl(), rhs = nextl();
    Impedance a(lhs, 1e9);
    std::vector<impedance_t> z(rhs, impedance_t(1, 0));
    Impedance b(z, 1e9);
    a += b;
    printf("case %s\nsum", id.c_str());
    for (size_t i = 0; i < lhs; i++) pf(a._data[i].real());
    printf("\nend\n");
}

// impfile <id> <nfreqs> <path> : the factory's path for a file impedance
static void do_impfile()
{
    std::string id = next();
    size_t nfreqs = nextl();
    std::string path = next();
    auto z = makeImpedance(nfreqs, nullptr, 1e9, 1.0, 1e6, 0, false, 0, 0, 0, path);
    printf("case %s\nn %zu\nsum", id.c_str(), z ? z->nFreqs() : (size_t)0);
    if (z) for (size_t i = 0; i < z->nFreqs(); i++) pf((*z)[i].real());
    printf("\nend\n");
}

// track <id> <n> <count> x... : the axis lookup of HDF5File::appendTracks, _ps->q(pos.x)
static void do_track()
{
    std::string id = next();
    unsigned n = nextl();
    size_t cnt = nextl();
    auto ps = mkps(n, 1);
    printf("case %s\nq", id.c_str());
    for (size_t i = 0; i < cnt; i++) {
        volatile float x = nextf();
        pf(ps->q(x));
    }
    printf("\naxis");
    for (unsigned i = 0; i < n; i++) pf(ps->getAxis(0)->at(i));
    printf("\nend\n");
}

int main(int argc, char** argv)
{
    return run_main(argc, argv, {{"upt", do_upt}, {"pad", do_pad}, {"fp", do_fp}, {"f2u", do_f2u},
                                 {"kick", do_kick}, {"imp", do_imp}, {"impfile", do_impfile},
                                 {"track", do_track}});
}
