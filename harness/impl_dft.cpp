#include "common.hpp"

// Correspondence harness for the DFT family (C06 wake potential, C07 CSR power): drives the
// repo's ElectricField through its public API (constructors, PhaseSpace::setProjection,
// wakePotential, padBunchProfiles, updateCSR and the getters).  Private members are only
// read (_formfactorrenorm, _wakelosses top cell).
//
// common header of both case kinds:
//   <id> <N> <n> <s> <nb> ; buckets (nb) ; qmin qmax qscale pmin pmax pscale ;
//   Ib E0 sigma_delta dt f_rev revolutionpart ; zre (N) ; zim (N) ; profiles (nb*n)
struct Setup {
    std::string id;
    unsigned N, n, s, nb;
    std::vector<uint32_t> buckets;
    double qscale, pscale, Ib, E0, sd, dt, frev, revpart;
    float qmin, qmax, pmin, pmax;
    std::shared_ptr<PhaseSpace> ps;
    std::shared_ptr<Impedance> z;
    std::shared_ptr<ElectricField> f;
};

static void set_profiles(Setup& S, const std::vector<float>& prof)
{
    for (unsigned b = 0; b < S.nb; b++) {
        boost::multi_array<projection_t, 1> a(boost::extents[S.n]);
        for (unsigned x = 0; x < S.n; x++) a[x] = prof[b * S.n + x];
        S.ps->setProjection(0, b, a);
    }
}

static Setup read_setup(std::vector<float>& prof)
{
    Setup S;
    S.id = next();
    S.N = nextl(); S.n = nextl(); S.s = nextl(); S.nb = nextl();
    for (unsigned b = 0; b < S.nb; b++) S.buckets.push_back(nextl());
    S.qmin = nextf(); S.qmax = nextf(); S.qscale = nextd();
    S.pmin = nextf(); S.pmax = nextf(); S.pscale = nextd();
    S.Ib = nextd(); S.E0 = nextd(); S.sd = nextd(); S.dt = nextd(); S.frev = nextd(); S.revpart = nextd();
    std::vector<impedance_t> z(S.N);
    std::vector<float> zre(S.N), zim(S.N);
    for (auto& v : zre) v = nextf();
    for (auto& v : zim) v = nextf();
    for (unsigned i = 0; i < S.N; i++) z[i] = impedance_t(zre[i], zim[i]);
    prof.resize((size_t)S.nb * S.n);
    for (auto& v : prof) v = nextf();
    PhaseSpace::resetSize(S.n, S.nb);
    std::vector<integral_t> filling(S.nb, 1.0f / S.nb);
    S.ps = std::make_shared<PhaseSpace>(S.qmin, S.qmax, S.qscale, S.pmin, S.pmax, S.pscale,
                                        nullptr, 1.0, 1.0, filling, 1.0);
    S.z = std::make_shared<Impedance>(z, 1e12f);
    S.f = std::make_shared<ElectricField>(S.ps, S.z, S.buckets, S.s, nullptr, S.frev,
                                          (meshaxis_t)S.revpart, S.Ib, S.E0, S.sd, S.dt);
    set_profiles(S, prof);
    return S;
}

static void print_inputs(const Setup& S)
{
    printf("case %s\n", S.id.c_str());
    printf("nmax %zu\n", S.f->getNMax());
    printf("phys"); pd((double)S.ps->getDelta(0)); pd((double)S.ps->getDelta(1));
    pd((double)S.ps->getScale(0, "Meter")); pd(physcons::c); printf("\n");
    printf("scaling"); pf(S.f->getWakeScaling()); printf("\n");
}

// wake: one fresh object, wakePotential() once
static void do_wake()
{
    std::vector<float> prof;
    Setup S = read_setup(prof);
    print_inputs(S);
    const meshaxis_t* w = S.f->wakePotential();
    printf("padded");
    for (unsigned i = 0; i < S.N; i++) pf(S.f->getPaddedBunchProfiles()[i]);
    printf("\nwakepad");
    for (unsigned i = 0; i < S.N; i++) pf(S.f->getPaddedWakePotential()[i]);
    printf("\nwake");
    for (size_t i = 0; i < (size_t)S.nb * S.n; i++) pf(w[i]);
    printf("\nwake2");     // the same through the other getter
    for (unsigned b = 0; b < S.nb; b++) for (unsigned x = 0; x < S.n; x++) pf(S.f->getWakePotentials()[b][x]);
    printf("\ntop"); pf(S.f->_wakelosses[S.N / 2].real()); pf(S.f->_wakelosses[S.N / 2].imag());
    printf("\nend\n");
}

// wakeseq: <setup> <nmore>  nmore x ( W|C|P profiles(nb*n) ): ONE object, wakePotential() for the set-up's profiles and then
// once more for every further set of profiles; after EVERY call the same lines as `wake` are printed (line k of a
// tag belongs to call k).  C06's statement holds for every call on an object, not only for the first one.
static void print_wake_call(Setup& S)
{
    const meshaxis_t* w = S.f->wakePotential();
    printf("padded");
    for (unsigned i = 0; i < S.N; i++) pf(S.f->getPaddedBunchProfiles()[i]);
    printf("\nwakepad");
    for (unsigned i = 0; i < S.N; i++) pf(S.f->getPaddedWakePotential()[i]);
    printf("\nwake");
    for (size_t i = 0; i < (size_t)S.nb * S.n; i++) pf(w[i]);
    printf("\nwake2");
    for (unsigned b = 0; b < S.nb; b++) for (unsigned x = 0; x < S.n; x++) pf(S.f->getWakePotentials()[b][x]);
    printf("\ntop"); pf(S.f->_wakelosses[S.N / 2].real()); pf(S.f->_wakelosses[S.N / 2].imag());
    printf("\n");
}

// One step of a call history on the object (strengthening st3weak, seeds C06-I/J, C07-I): a string of operations,
// executed in order.  Lower case runs BEFORE the profiles of the step are put into the phase space (i.e. on the
// profiles of the step before), upper case after:
//   W/-  nothing            P/p  padBunchProfiles()            C/c  updateCSR(0)
//   Z    *impedance += (zre, zim)   (the N+N values follow the profiles of the step, one set per Z, in order):
//        the field holds the impedance through a shared pointer, the object behind it may change between calls
static size_t count_z(const std::string& ops)
{
    size_t k = 0;
    for (char o : ops) if (o == 'Z' || o == 'z') k++;
    return k;
}

static std::vector<std::vector<impedance_t>> read_zs(const Setup& S, const std::string& ops)
{
    std::vector<std::vector<impedance_t>> zs(count_z(ops), std::vector<impedance_t>(S.N));
    for (auto& z : zs) {
        std::vector<float> re(S.N), im(S.N);
        for (auto& v : re) v = nextf();
        for (auto& v : im) v = nextf();
        for (unsigned i = 0; i < S.N; i++) z[i] = impedance_t(re[i], im[i]);
    }
    return zs;
}

static void run_ops(Setup& S, const std::string& ops, bool upper, const std::vector<std::vector<impedance_t>>& zs)
{
    size_t iz = 0;
    for (char o : ops) {
        const bool up = (o >= 'A' && o <= 'Z');
        if (o == 'Z' || o == 'z') {
            if (upper) { Impedance dz(zs[iz], 1e12f); *S.z += dz; }
            iz++;
            continue;
        }
        if (up != upper) continue;
        switch (o) {
        case 'P': case 'p': S.f->padBunchProfiles(); break;
        case 'C': case 'c': S.f->updateCSR(0); break;
        default: break;
        }
    }
}

static void do_wakeseq()
{
    std::vector<float> prof;
    Setup S = read_setup(prof);
    long nmore = nextl();
    std::string ops0 = next();          // what is called on the fresh object before its first wakePotential()
    auto zs0 = read_zs(S, ops0);
    print_inputs(S);
    run_ops(S, ops0, true, zs0);
    print_wake_call(S);
    for (long k = 0; k < nmore; k++) {
        std::string ops = next();
        std::vector<float> q((size_t)S.nb * S.n);
        for (auto& v : q) v = nextf();
        auto zs = read_zs(S, ops);
        run_ops(S, ops, false, zs);
        set_profiles(S, q);
        run_ops(S, ops, true, zs);
        print_wake_call(S);
    }
    printf("end\n");
}

// csr: <setup> <cutoff_frequency> <nwarm> nwarm x profiles; one fresh object, updateCSR(cutoff) once
static void do_csr()
{
    std::vector<float> prof;
    Setup S = read_setup(prof);
    float cutoff = nextf();
    // <nwarm> nwarm x profile(n): earlier wakePotential() calls with OTHER profiles on the object that later gives the
    // wake for the Parseval oracle (a wake that is only right on a fresh object is not the wake the beam sees)
    long nwarm = nextl();
    // <same>: 0 - the wake for the Parseval oracle comes from a second object of the same set-up (never used for updateCSR);
    //         1 - it comes from the SAME object, asked right after updateCSR() (order csr -> wake on one field: the two
    //             share _bp_padded/_formfactor; strengthening st3weak, seed C07-I).  The earlier wakePotential() calls
    //             with other profiles then happen on that object BEFORE updateCSR().
    long same = nextl();
    std::vector<std::vector<float>> warm(nwarm, std::vector<float>((size_t)S.nb * S.n));
    for (auto& q : warm) for (auto& v : q) v = nextf();
    print_inputs(S);
    if (same) {
        for (auto& q : warm) { set_profiles(S, q); S.f->wakePotential(); }
        set_profiles(S, prof);
    }
    S.f->updateCSR(cutoff);
    printf("renorm"); pf(S.f->_formfactorrenorm); printf("\n");
    printf("df"); pf(S.f->getFreqRuler()->delta()); pf(S.f->getFreqRuler()->scale("Hertz")); printf("\n");
    printf("freq");
    for (unsigned i = 0; i < S.N; i++) pf(S.f->getFreqRuler()->at(i));
    printf("\nspectrum");
    for (size_t i = 0; i < (size_t)S.nb * S.N; i++) pf(S.f->getCSRSpectrum()[i]);
    printf("\npower");
    for (unsigned b = 0; b < S.nb; b++) pf(S.f->getCSRPower()[b]);
    // the wake of the same object afterwards is NOT taken here (stale padded buffer, C18);
    // a fresh object gives the wake for the Parseval oracle
    std::vector<float> prof2 = prof;
    if (!same) {
        S.f.reset();
        S.f = std::make_shared<ElectricField>(S.ps, S.z, S.buckets, S.s, nullptr, S.frev,
                                              (meshaxis_t)S.revpart, S.Ib, S.E0, S.sd, S.dt);
        for (auto& q : warm) { set_profiles(S, q); S.f->wakePotential(); }
        set_profiles(S, prof2);
    }
    const meshaxis_t* w = S.f->wakePotential();
    printf("\nwakepad");
    for (unsigned i = 0; i < S.N; i++) pf(S.f->getPaddedWakePotential()[i]);
    printf("\npadded");
    for (unsigned i = 0; i < S.N; i++) pf(S.f->getPaddedBunchProfiles()[i]);
    // what wakePotential() RETURNS for the bunch (read back at bucket*spacing, times getWakeScaling()): the
    // "wake potential over the bunch" of the property text
    printf("\nwake");
    for (size_t i = 0; i < (size_t)S.nb * S.n; i++) pf(w[i]);
    printf("\nwscale"); pf(S.f->getWakeScaling());
    printf("\nend\n");
}


// csrmb (second wave): updateCSR on ONE object with several bunches, after an optional history of other calls.
//   <setup> <cutoff> <npre>  npre x ( W|P|C  profiles(nb*n) )
// prints the nb spectrum rows and nb power entries of the object, then - with PhaseSpace reset to ONE bunch and
// fresh single-bunch objects of the same transform length and impedance - for every bunch b the spectrum/power of
// that bunch alone (single_spectrum<b>, single_power<b>: must be bit-identical to row b) and its wake
// (padded<b>, wakepad<b>: Parseval per bunch).
static void do_csrmb()
{
    std::vector<float> prof;
    Setup S = read_setup(prof);
    float cutoff = nextf();
    long npre = nextl();
    print_inputs(S);
    for (long k = 0; k < npre; k++) {
        char kind = next()[0];
        std::vector<float> q((size_t)S.nb * S.n);
        for (auto& v : q) v = nextf();
        set_profiles(S, q);
        switch (kind) {
        case 'W': S.f->wakePotential(); break;
        case 'P': S.f->padBunchProfiles(); break;
        case 'c': S.f->updateCSR(cutoff); break;          // the cut-off of the final call
        case 'Z': *S.z += *S.z; break;                     // the shared impedance object doubled in place (exact in binary32)
        default:  S.f->updateCSR(0); break;
        }
    }
    set_profiles(S, prof);
    S.f->updateCSR(cutoff);
    printf("renorm"); pf(S.f->_formfactorrenorm); printf("\n");
    printf("df"); pf(S.f->getFreqRuler()->delta()); pf(S.f->getFreqRuler()->scale("Hertz")); printf("\n");
    printf("freq");
    for (unsigned i = 0; i < S.N; i++) pf(S.f->getFreqRuler()->at(i));
    printf("\nspectrum");
    for (size_t i = 0; i < (size_t)S.nb * S.N; i++) pf(S.f->getCSRSpectrum()[i]);
    printf("\npower");
    for (unsigned b = 0; b < S.nb; b++) pf(S.f->getCSRPower()[b]);
    printf("\n");
    // single-bunch references
    unsigned nb = S.nb;
    S.f.reset(); S.ps.reset();
    PhaseSpace::resetSize(S.n, 1);
    std::vector<integral_t> filling(1, 1.0f);
    std::vector<uint32_t> b0(1, 0);
    std::vector<uint32_t> bks = S.buckets;
    for (unsigned b = 0; b < nb; b++) {
        auto ps = std::make_shared<PhaseSpace>(S.qmin, S.qmax, S.qscale, S.pmin, S.pmax, S.pscale,
                                               nullptr, 1.0, 1.0, filling, 1.0);
        boost::multi_array<projection_t, 1> a(boost::extents[S.n]);
        for (unsigned x = 0; x < S.n; x++) a[x] = prof[b * S.n + x];
        ps->setProjection(0, 0, a);
        auto f = std::make_shared<ElectricField>(ps, S.z, b0, S.n, nullptr, S.frev,
                                                 (meshaxis_t)S.revpart, S.Ib, S.E0, S.sd, S.dt);
        f->updateCSR(cutoff);
        printf("single_spectrum%u", b);
        for (unsigned i = 0; i < S.N; i++) pf(f->getCSRSpectrum()[i]);
        printf("\nsingle_power%u", b); pf(f->getCSRPower()[0]);
        // the wake of the bunch alone IN ITS OWN BUCKET (same bucket number and spacing as in the train): the
        // wake loss of the property is taken over what wakePotential() returns for the bunch
        std::vector<uint32_t> bb(1, bks[b]);
        auto g = std::make_shared<ElectricField>(ps, S.z, bb, S.s, nullptr, S.frev,
                                                 (meshaxis_t)S.revpart, S.Ib, S.E0, S.sd, S.dt);
        const meshaxis_t* w = g->wakePotential();
        printf("\nwakepad%u", b);
        for (unsigned i = 0; i < S.N; i++) pf(g->getPaddedWakePotential()[i]);
        printf("\npadded%u", b);
        for (unsigned i = 0; i < S.N; i++) pf(g->getPaddedBunchProfiles()[i]);
        printf("\nwake%u", b);
        for (unsigned x = 0; x < S.n; x++) pf(w[x]);
        printf("\nwscale%u", b); pf(g->getWakeScaling());
        printf("\n");
    }
    printf("end\n");
}

// pow2 <id> <count> v...   -> upper_power_of_two(v)
static void do_pow2()
{
    std::string id = next();
    size_t cnt = nextl();
    printf("case %s\nout", id.c_str());
    for (size_t i = 0; i < cnt; i++) {
        uint64_t v = strtoull(next().c_str(), nullptr, 10);
        printf(" %llu", (unsigned long long)upper_power_of_two(v));
    }
    printf("\nend\n");
}

int main(int argc, char** argv)
{
    Display::silent_mode = true;   // 'Created some wisdom' messages go to stdout otherwise
    return run_main(argc, argv, {{"wake", do_wake}, {"wakeseq", do_wakeseq}, {"csr", do_csr}, {"csrmb", do_csrmb}, {"pow2", do_pow2}});
}
