/*
 * LD_PRELOAD shim for C14 (strengthening driven by seed C14-H): deterministic interrupt points INSIDE library calls.
 *
 * The VERIF_POINT hook enumerates the statement boundaries of main(); a Ctrl+C that arrives while the process is inside
 * the HDF5 or FFTW library is a different situation (the caller may have changed the signal disposition around the
 * call).  This shim wraps the library entry points through which Inovesa extends and writes datasets and runs and plans
 * its transforms, numbers the calls of one process in execution order (one counter for all wrapped functions) and
 *   - VERIF_LIBSIG_LOG=<file>   appends "<index> <function> <points>" per call; <points> = number of hook points the
 *                               process has passed so far (lines of $INOVESA_VERIF_TRACE), -1 if there is no trace;
 *   - VERIF_LIBSIG_AT=<index>   raises SIGINT inside the call with that index: before the real function is entered, or,
 *                               with VERIF_LIBSIG_WHEN=after, when it has returned (still inside the wrapper);
 *   - VERIF_LIBSIG_REPEAT=1     ... and inside every later call as well;
 *   - VERIF_LIBSIG_RAISED=<file> receives "<index> <function> <points>" for every signal raised.
 * raise() is synchronous: the signal is delivered (or discarded, or kills the process - whatever its disposition is at
 * that moment) before raise() returns.  Plain C, no dependency on the repository.
 */
#define _GNU_SOURCE
#include <dlfcn.h>
#include <fcntl.h>
#include <signal.h>
#include <stdio.h>
#include <stdlib.h>
#include <string.h>
#include <unistd.h>
#include <hdf5.h>
#include <fftw3.h>

static long counter = 0;
static long sig_at = -1;
static int repeat = 0;
static int when_after = 0;
static int initialized = 0;
static const char* logname = NULL;
static const char* raisedname = NULL;
static const char* tracename = NULL;

static void init(void)
{
    if (initialized) return;
    initialized = 1;
    const char* s = getenv("VERIF_LIBSIG_AT");
    if (s != NULL) sig_at = atol(s);
    repeat = (getenv("VERIF_LIBSIG_REPEAT") != NULL);
    s = getenv("VERIF_LIBSIG_WHEN");
    when_after = (s != NULL && strcmp(s, "after") == 0);
    logname = getenv("VERIF_LIBSIG_LOG");
    raisedname = getenv("VERIF_LIBSIG_RAISED");
    tracename = getenv("INOVESA_VERIF_TRACE");
}

static long points_passed(void)
{
    if (tracename == NULL) return -1;
    int fd = open(tracename, O_RDONLY);
    if (fd < 0) return 0;
    char buf[4096];
    long n = 0;
    ssize_t k;
    while ((k = read(fd, buf, sizeof buf)) > 0)
        for (ssize_t i = 0; i < k; i++) if (buf[i] == '\n') n++;
    close(fd);
    return n;
}

static void note(const char* file, long idx, const char* fn)
{
    if (file == NULL) return;
    FILE* f = fopen(file, "a");
    if (f == NULL) return;
    fprintf(f, "%ld %s %ld\n", idx, fn, points_passed());
    fclose(f);
}

static int due(long idx)
{
    return sig_at >= 0 && (idx == sig_at || (repeat && idx > sig_at));
}

/* returns the index of this call; raises before the real call unless VERIF_LIBSIG_WHEN=after */
static long enter(const char* fn)
{
    init();
    long idx = counter++;
    note(logname, idx, fn);
    if (!when_after && due(idx)) { note(raisedname, idx, fn); raise(SIGINT); }
    return idx;
}

static void leave(long idx, const char* fn)
{
    if (when_after && due(idx)) { note(raisedname, idx, fn); raise(SIGINT); }
}

#define REAL(type, name) static type real = NULL; if (real == NULL) real = (type) dlsym(RTLD_NEXT, name); \
    if (real == NULL) { fprintf(stderr, "sigshim: %s not found\n", name); abort(); }

herr_t H5Dwrite(hid_t dset, hid_t mem_type, hid_t mem_space, hid_t file_space, hid_t plist, const void* buf)
{
    typedef herr_t (*fn_t)(hid_t, hid_t, hid_t, hid_t, hid_t, const void*);
    REAL(fn_t, "H5Dwrite")
    long idx = enter("H5Dwrite");
    herr_t r = real(dset, mem_type, mem_space, file_space, plist, buf);
    leave(idx, "H5Dwrite");
    return r;
}

herr_t H5Dset_extent(hid_t dset, const hsize_t size[])
{
    typedef herr_t (*fn_t)(hid_t, const hsize_t*);
    REAL(fn_t, "H5Dset_extent")
    long idx = enter("H5Dset_extent");
    herr_t r = real(dset, size);
    leave(idx, "H5Dset_extent");
    return r;
}

herr_t H5Dextend(hid_t dset, const hsize_t size[])
{
    typedef herr_t (*fn_t)(hid_t, const hsize_t*);
    REAL(fn_t, "H5Dextend")
    long idx = enter("H5Dextend");
    herr_t r = real(dset, size);
    leave(idx, "H5Dextend");
    return r;
}

void fftwf_execute(const fftwf_plan p)
{
    typedef void (*fn_t)(const fftwf_plan);
    REAL(fn_t, "fftwf_execute")
    long idx = enter("fftwf_execute");
    real(p);
    leave(idx, "fftwf_execute");
}

void fftw_execute(const fftw_plan p)
{
    typedef void (*fn_t)(const fftw_plan);
    REAL(fn_t, "fftw_execute")
    long idx = enter("fftw_execute");
    real(p);
    leave(idx, "fftw_execute");
}

fftwf_plan fftwf_plan_dft_1d(int n, fftwf_complex* in, fftwf_complex* out, int sign, unsigned flags)
{
    typedef fftwf_plan (*fn_t)(int, fftwf_complex*, fftwf_complex*, int, unsigned);
    REAL(fn_t, "fftwf_plan_dft_1d")
    long idx = enter("fftwf_plan_dft_1d");
    fftwf_plan r = real(n, in, out, sign, flags);
    leave(idx, "fftwf_plan_dft_1d");
    return r;
}

fftwf_plan fftwf_plan_dft_r2c_1d(int n, float* in, fftwf_complex* out, unsigned flags)
{
    typedef fftwf_plan (*fn_t)(int, float*, fftwf_complex*, unsigned);
    REAL(fn_t, "fftwf_plan_dft_r2c_1d")
    long idx = enter("fftwf_plan_dft_r2c_1d");
    fftwf_plan r = real(n, in, out, flags);
    leave(idx, "fftwf_plan_dft_r2c_1d");
    return r;
}

fftwf_plan fftwf_plan_dft_c2r_1d(int n, fftwf_complex* in, float* out, unsigned flags)
{
    typedef fftwf_plan (*fn_t)(int, fftwf_complex*, float*, unsigned);
    REAL(fn_t, "fftwf_plan_dft_c2r_1d")
    long idx = enter("fftwf_plan_dft_c2r_1d");
    fftwf_plan r = real(n, in, out, flags);
    leave(idx, "fftwf_plan_dft_c2r_1d");
    return r;
}
