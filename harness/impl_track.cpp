#include "common.hpp"
#include <type_traits>

// The generators of the maps are (re)seeded here.  The statement must keep compiling when the member's qualifiers
// change in the repository (`const`, `mutable`, ...): the qualifier is cast away, so that such a change is judged by
// what it does to the particles / the modulation and not by a compile error of the harness.
template <class T> static typename std::remove_const<T>::type& unconst(T& x)
{
    return const_cast<typename std::remove_const<T>::type&>(x);
}
// Correspondence harness for particle tracking (C15): every map is driven through the
// SourceMap interface (virtual applyTo via SourceMap::applyToAll) exactly as main.cpp does.

static void print_pos(const char* tag, const std::vector<PhaseSpace::Position>& ps)
{
    printf("%s", tag);
    for (auto& p : ps) { pf(p.x); pf(p.y); }
    printf("\n");
}

// the lookup HDF5File::appendTracks performs: _ps->q(pos.x), _ps->p(pos.y) with the float ->
// meshindex_t conversion of the argument; evaluated only where the conversion and the array
// access are defined, "u" otherwise
static void print_lookup(const std::shared_ptr<PhaseSpace>& ps, unsigned n,
                         const std::vector<PhaseSpace::Position>& v)
{
    printf("idx");
    for (auto& p : v) {
        for (int a = 0; a < 2; a++) {
            float c = a == 0 ? p.x : p.y;
            if (!(c > -1.0f) || !(c < (float)n)) { printf(" u u"); continue; }
            meshindex_t i = static_cast<meshindex_t>(c);
            printf(" %u", i);
            pf(a == 0 ? ps->q(i) : ps->p(i));
        }
    }
    printf("\n");
}

// track <id> <n> <qmin> <qmax> <pmin> <pmax> <np> <nops> ; np*(x y) ; ops
//   kick <x|y> <it> offs(n) | drift <it> <slip0> <slip1> | rf <it> <angle> | ident
//   fp <fptype> <fptrack> <dt> <e1> <seed> [data n*n when fptrack==2]
// prints per op one "pos" line (all particles after SourceMap::applyToAll); for kick-type ops
// an "offs" line (the map's _offset), for fp ops "tab" (idx w ...), "fpinfo" (zerobin delta
// pmin of the energy axis, zerobin of the position axis), for the stochastic model "noise" (the values its generator is about to return)
static void do_track()
{
    std::string id = next();
    unsigned n = nextl();
    float qmin = nextf(), qmax = nextf(), pmin = nextf(), pmax = nextf();
    unsigned np = nextl(), nops = nextl();
    std::vector<PhaseSpace::Position> ps(np);
    for (auto& p : ps) { p.x = nextf(); p.y = nextf(); }
    auto in = mkps(n, 1, qmin, qmax, pmin, pmax);
    auto out = mkps(n, 1, qmin, qmax, pmin, pmax);
    printf("case %s\n", id.c_str());
    // once a coordinate has left [0,n-1] (or is not finite) the next applyTo would convert a negative
    // float to an unsigned index / read outside the tables: the remaining maps of the case are parsed
    // but not executed, and a "stop" line says after which map
    bool dead = false;
    for (unsigned k = 0; k < nops; k++) {
        std::string kind = next();
        std::unique_ptr<SourceMap> sm;
        if (kind == "kick") {
            std::string dir = next();
            unsigned it = nextl();
            std::vector<meshaxis_t> offs(n);
            for (auto& o : offs) o = nextf();
            if (dead) continue;
            auto* km = new KickMap(in, out, static_cast<SourceMap::InterpolationType>(it), false,
                                   dir == "x" ? KickMap::Axis::x : KickMap::Axis::y, nullptr);
            km->swapOffset(offs);
            sm.reset(km);
            printf("offs");
            for (unsigned i = 0; i < n; i++) pf(km->_offset[i]);
            printf("\n");
        } else if (kind == "drift") {
            unsigned it = nextl();
            std::vector<meshaxis_t> slip(2);
            slip[0] = nextf(); slip[1] = nextf();
            if (dead) continue;
            auto* km = new DriftMap(in, out, slip, 1.0f, static_cast<SourceMap::InterpolationType>(it), false, nullptr);
            sm.reset(km);
            printf("offs");
            for (unsigned i = 0; i < n; i++) pf(km->_offset[i]);
            printf("\n");
        } else if (kind == "rf") {
            unsigned it = nextl();
            float angle = nextf();
            if (dead) continue;
            auto* km = new RFKickMap(in, out, angle, 1.0f, static_cast<SourceMap::InterpolationType>(it), false, nullptr);
            sm.reset(km);
            printf("offs");
            for (unsigned i = 0; i < n; i++) pf(km->_offset[i]);
            printf("\n");
        } else if (kind == "ident") {
            if (dead) continue;
            sm.reset(new Identity(in, out, nullptr));
        } else if (kind == "fp") {
            unsigned fptype = nextl(), fptrack = nextl(), dt = nextl();
            float e1 = nextf();
            unsigned long seed = nextl();
            if (fptrack == 2) {
                for (size_t i = 0; i < (size_t)n * n; i++) { float v = nextf(); if (!dead) in->getData()[i] = v; }
            }
            if (dead) continue;
            auto* fpm = new FokkerPlanckMap(in, out, n, n, static_cast<FokkerPlanckMap::FPType>(fptype),
                                            static_cast<FokkerPlanckMap::FPTracking>(fptrack), e1,
                                            static_cast<FokkerPlanckMap::DerivationType>(dt), nullptr);
            sm.reset(fpm);
            printf("tab");
            for (size_t i = 0; i < (size_t)n * dt; i++) { printf(" %u", fpm->_hinfo[i].index); pf(fpm->_hinfo[i].weight); }
            printf("\nfpinfo");
            pf(in->getAxis(1)->zerobin()); pf(in->getDelta(1)); pf(in->getAxis(1)->min()); pf(in->getAxis(0)->zerobin());
            printf("\n");
            if (fptrack == 3) {
                unconst(fpm->_prng).seed(seed);
                unconst(fpm->_normdist).reset();
                // the values the map's own generator will hand out next: drawn from copies
                auto g = fpm->_prng;
                auto d = fpm->_normdist;
                printf("noise");
                for (unsigned i = 0; i < np; i++) pf(d(g));
                printf("\n");
            }
        } else {
            fprintf(stderr, "unknown op %s\n", kind.c_str());
            exit(3);
        }
        sm->applyToAll(ps);
        print_pos("pos", ps);
        for (auto& p : ps)
            if (!(p.x >= 0.0f && p.x <= (float)(n - 1) && p.y >= 0.0f && p.y <= (float)(n - 1))) dead = true;
        if (dead) printf("stop %u\n", k);
    }
    print_lookup(in, n, ps);
    printf("end\n");
}

// blob <id> <x|y> <n> <it> <X> <Y> offs(n)
// a unit hat-blob centred on the particle goes through apply(), the particle through applyTo():
// prints the particle after the step, the total charge and the first moments of the output grid
static void do_blob()
{
    std::string id = next();
    std::string dir = next();
    unsigned n = nextl(), it = nextl();
    float X = nextf(), Y = nextf();
    std::vector<meshaxis_t> offs(n);
    for (auto& o : offs) o = nextf();
    auto in = mkps(n, 1);
    auto out = mkps(n, 1);
    for (size_t i = 0; i < (size_t)n * n; i++) { in->getData()[i] = 0; out->getData()[i] = 0; }
    float xi, yi;
    float xf = std::modf(X, &xi), yf = std::modf(Y, &yi);
    unsigned ix = (unsigned)xi, iy = (unsigned)yi;
    float wx[2] = {1.0f - xf, xf}, wy[2] = {1.0f - yf, yf};
    for (int a = 0; a < 2; a++)
        for (int b = 0; b < 2; b++)
            if (ix + a < n && iy + b < n) in->getData()[(ix + a) * n + iy + b] = wx[a] * wy[b];
    std::unique_ptr<SourceMap> sm;
    auto* km = new KickMap(in, out, static_cast<SourceMap::InterpolationType>(it), false,
                           dir == "x" ? KickMap::Axis::x : KickMap::Axis::y, nullptr);
    km->swapOffset(offs);
    sm.reset(km);
    sm->apply();
    PhaseSpace::Position p{X, Y};
    sm->applyTo(p);
    double s = 0, sx = 0, sy = 0;
    for (unsigned x = 0; x < n; x++)
        for (unsigned y = 0; y < n; y++) {
            double v = out->getData()[x * n + y];
            s += v; sx += v * x; sy += v * y;
        }
    printf("case %s\npart", id.c_str());
    pf(p.x); pf(p.y);
    printf("\nmom");
    pd(s); pd(sx); pd(sy);
    printf("\nout");
    for (size_t i = 0; i < (size_t)n * n; i++) pf(out->getData()[i]);
    printf("\nend\n");
}

// ens <id> <n> <pmin> <pmax> <np> <e1> <steps> <every> <seed>
// np particles drawn from the equilibrium (unit Gaussian in p around the zero-energy bin) are
// moved by the stochastic tracking model for <steps> steps through applyToAll; prints mean,
// variance, min and max of the y coordinate initially and after every <every> steps
static void do_ens()
{
    std::string id = next();
    unsigned n = nextl();
    float pmin = nextf(), pmax = nextf();
    unsigned np = nextl();
    float e1 = nextf();
    unsigned steps = nextl(), every = nextl();
    unsigned long seed = nextl();
    auto in = mkps(n, 1, -6, 6, pmin, pmax);
    auto out = mkps(n, 1, -6, 6, pmin, pmax);
    FokkerPlanckMap fpm(in, out, n, n, FokkerPlanckMap::FPType::full, FokkerPlanckMap::FPTracking::stochastic,
                        e1, FokkerPlanckMap::DerivationType::cubic, nullptr);
    unconst(fpm._prng).seed(seed);
    unconst(fpm._normdist).reset();
    std::mt19937 g(seed * 7919u + 13u);
    const double delta = in->getDelta(1);
    const double yc = -(double)pmin / delta;
    std::normal_distribution<double> nd(0.0, 1.0);
    std::vector<PhaseSpace::Position> ps(np);
    // loaded as main.cpp loads a tracking file: PhaseSpace::x(q), y(p) (which clamp to the grid)
    for (auto& p : ps) { p.x = in->x(0.0f); p.y = in->y((float)nd(g)); }
    SourceMap* sm = &fpm;
    printf("case %s\ninfo", id.c_str());
    pd(yc); pd(delta); pf(in->getAxis(1)->zerobin());
    printf("\n");
    for (unsigned k = 0; k <= steps; k++) {
        if (k % every == 0 || k == steps) {
            double m = 0, v = 0, mn = 1e300, mx = -1e300;
            for (auto& p : ps) { m += p.y; mn = std::min(mn, (double)p.y); mx = std::max(mx, (double)p.y); }
            m /= np;
            for (auto& p : ps) v += (p.y - m) * (p.y - m);
            v /= (np - 1);
            printf("stat %u", k);
            pd(m); pd(v); pd(mn); pd(mx);
            printf("\n");
        }
        if (k < steps) sm->applyToAll(ps);
    }
    printf("end\n");
}

// dyntrack <id> <n> <it> <qmin> <qmax> <angle> <revpart> <fRF> <phasespread> <amplspread> <modampl> <modtimeinc>
//          <steps> <seed> <slip0> <renew> <np> np*(x y)
// The time-dependent RF map and a drift exactly as main() drives them: per step
//   rfm->apply(); rfm->applyToAll(ps); drm->apply(); drm->applyToAll(ps);
// on a grid holding a unit hat-blob centred on particle 0 (rf: g1 -> g2, drift: g2 -> g1); every <renew> steps the
// grid is emptied and a fresh blob is put on particle 0 (interpolation widens the support by up to two cells per map,
// and the first-moment identity needs the support inside the grid).
// The modulation queue is recomputed by the map's own __calcModulation after reseeding its PRNG
// (what the constructor does, with a known seed instead of std::random_device).
// prints: rf (tan(_angle) _syncphase _bl2phase xcenter delta0), offs0 (the map's _offset after construction),
// queue (phase ampl ...), then per step: offs (rf _offset after apply), pre (particles before rf applyToAll),
// rfpos (after it), rfmom (charge and first moments of g2), pos (after the drift), mom (of g1)
static void moments(const std::shared_ptr<PhaseSpace>& g, unsigned n, const char* tag)
{
    double s = 0, sx = 0, sy = 0;
    for (unsigned x = 0; x < n; x++)
        for (unsigned y = 0; y < n; y++) {
            double v = g->getData()[x * n + y];
            s += v; sx += v * x; sy += v * y;
        }
    printf("%s", tag); pd(s); pd(sx); pd(sy); printf("\n");
}

static void do_dyntrack()
{
    std::string id = next();
    unsigned n = nextl(), it = nextl();
    float qmin = nextf(), qmax = nextf();
    float angle = nextf();
    double revpart = nextd(), fRF = nextd();
    float phasespread = nextf(), amplspread = nextf(), modampl = nextf();
    double modtimeinc = nextd();
    unsigned steps = nextl();
    unsigned long seed = nextl();
    float slip0 = nextf();
    unsigned renew = nextl();
    unsigned np = nextl();
    std::vector<PhaseSpace::Position> ps(np);
    for (auto& p : ps) { p.x = nextf(); p.y = nextf(); }
    auto g1 = mkps(n, 1, qmin, qmax, qmin, qmax);
    auto g2 = mkps(n, 1, qmin, qmax, qmin, qmax);
    auto deposit = [&]() {
        for (size_t i = 0; i < (size_t)n * n; i++) { g1->getData()[i] = 0; g2->getData()[i] = 0; }
        float xi, yi;
        float xf = std::modf(ps[0].x, &xi), yf = std::modf(ps[0].y, &yi);
        unsigned ix = (unsigned)xi, iy = (unsigned)yi;
        float wx[2] = {1.0f - xf, xf}, wy[2] = {1.0f - yf, yf};
        for (int a = 0; a < 2; a++)
            for (int b = 0; b < 2; b++)
                if (ix + a < n && iy + b < n) g1->getData()[(ix + a) * n + iy + b] = wx[a] * wy[b];
    };
    deposit();
    auto itp = static_cast<SourceMap::InterpolationType>(it);
    // the linear dynamic constructor, called as main() calls it
    std::shared_ptr<DynamicRFKickMap> drfm(new DynamicRFKickMap(g1, g2, n, n, angle, revpart, fRF,
                                                              phasespread, amplspread, modampl, modtimeinc, steps,
                                                              itp, false, nullptr));
    unconst(drfm->_prng).seed(seed);
    unconst(drfm->_dist).reset();
    drfm->_next_modulation = drfm->__calcModulation(steps);
    std::shared_ptr<SourceMap> rfm = drfm;
    std::vector<meshaxis_t> slip(2);
    slip[0] = slip0; slip[1] = 0;
    std::shared_ptr<SourceMap> drm(new DriftMap(g2, g1, slip, 1.0f, itp, false, nullptr));
    printf("case %s\nrf", id.c_str());
    pf(std::tan(drfm->_angle)); pf(drfm->_syncphase); pd(drfm->_bl2phase);
    pf(g1->getAxis(0)->zerobin()); pf(g1->getAxis(0)->delta());
    printf("\noffs0");
    for (unsigned i = 0; i < n; i++) pf(drfm->_offset[i]);
    printf("\nqueue");
    { auto q = drfm->_next_modulation; while (!q.empty()) { pf(q.front()[0]); pf(q.front()[1]); q.pop(); } }
    printf("\n");
    for (unsigned k = 0; k < steps; k++) {
        if (renew > 0 && k > 0 && k % renew == 0) deposit();
        print_pos("pre", ps);
        rfm->apply();
        printf("offs");
        for (unsigned i = 0; i < n; i++) pf(drfm->_offset[i]);
        printf("\n");
        rfm->applyToAll(ps);
        print_pos("rfpos", ps);
        moments(g2, n, "rfmom");
        drm->apply();
        drm->applyToAll(ps);
        print_pos("pos", ps);
        moments(g1, n, "mom");
    }
    printf("end\n");
}

// rfblob <id> <n> <it> <qmin> <qmax> <pmin> <pmax> <linear> <dynamic> <angle> <revpart> <VRF> <V0> <fRF>
//        <phasespread> <amplspread> <modampl> <modtimeinc> <steps> <seed> <renew> <np> np*(x y)
// Every RF map main() can build (RFKickMap / DynamicRFKickMap, each with the linear and the sinusoidal constructor,
// called as main() calls them) driven as main() drives it: per step `rfm->apply(); rfm->applyToAll(ps);` (both through
// the SourceMap interface) on a grid holding a unit hat-blob centred on particle 0; the kicked grid is the next step's
// source (the RF kick moves charge along the energy axis only), every <renew> steps a fresh blob is put on particle 0.
// The modulation queue of the dynamic map is recomputed by the map's own __calcModulation after reseeding its PRNG.
// prints: rf (_linear _syncphase _bl2phase), queue (phase ampl ... ; empty for a static map), per step: pre (particles
// before applyToAll), offs (the map's _offset after apply(): the table the grid has just been kicked with), rfpos
// (particles after applyToAll), rfmom (charge and first moments of the kicked grid)
static void do_rfblob()
{
    std::string id = next();
    unsigned n = nextl(), it = nextl();
    float qmin = nextf(), qmax = nextf(), pmin = nextf(), pmax = nextf();
    unsigned linear = nextl(), dynamic = nextl();
    float angle = nextf();
    double revpart = nextd(), VRF = nextd(), V0 = nextd(), fRF = nextd();
    float phasespread = nextf(), amplspread = nextf(), modampl = nextf();
    double modtimeinc = nextd();
    unsigned steps = nextl();
    unsigned long seed = nextl();
    unsigned renew = nextl();
    unsigned np = nextl();
    std::vector<PhaseSpace::Position> ps(np);
    for (auto& p : ps) { p.x = nextf(); p.y = nextf(); }
    auto g1 = mkps(n, 1, qmin, qmax, pmin, pmax);
    auto g2 = mkps(n, 1, qmin, qmax, pmin, pmax);
    auto deposit = [&]() {
        for (size_t i = 0; i < (size_t)n * n; i++) { g1->getData()[i] = 0; g2->getData()[i] = 0; }
        float xi, yi;
        float xf = std::modf(ps[0].x, &xi), yf = std::modf(ps[0].y, &yi);
        unsigned ix = (unsigned)xi, iy = (unsigned)yi;
        float wx[2] = {1.0f - xf, xf}, wy[2] = {1.0f - yf, yf};
        for (int a = 0; a < 2; a++)
            for (int b = 0; b < 2; b++)
                if (ix + a < n && iy + b < n) g1->getData()[(ix + a) * n + iy + b] = wx[a] * wy[b];
    };
    deposit();
    auto itp = static_cast<SourceMap::InterpolationType>(it);
    std::shared_ptr<RFKickMap> rf;
    std::shared_ptr<DynamicRFKickMap> drf;
    if (!dynamic && linear) rf.reset(new RFKickMap(g1, g2, angle, fRF, itp, false, nullptr));
    else if (!dynamic) rf.reset(new RFKickMap(g1, g2, revpart, VRF, fRF, V0, itp, false, nullptr));
    else if (linear) drf.reset(new DynamicRFKickMap(g1, g2, n, n, angle, revpart, fRF, phasespread, amplspread, modampl,
                                                    modtimeinc, steps, itp, false, nullptr));
    else drf.reset(new DynamicRFKickMap(g1, g2, n, n, revpart, VRF, fRF, V0, phasespread, amplspread, modampl,
                                        modtimeinc, steps, itp, false, nullptr));
    if (drf) {
        unconst(drf->_prng).seed(seed);
        unconst(drf->_dist).reset();
        drf->_next_modulation = drf->__calcModulation(steps);
        rf = drf;
    }
    std::shared_ptr<SourceMap> rfm = rf;
    printf("case %s\nrf %u", id.c_str(), (unsigned)rf->_linear);
    pf(rf->_syncphase); pd(rf->_bl2phase);
    printf("\nqueue");
    if (drf) { auto q = drf->_next_modulation; while (!q.empty()) { pf(q.front()[0]); pf(q.front()[1]); q.pop(); } }
    printf("\n");
    for (unsigned k = 0; k < steps; k++) {
        if (renew > 0 && k > 0 && k % renew == 0) deposit();
        print_pos("pre", ps);
        rfm->apply();
        printf("offs");
        for (unsigned i = 0; i < n; i++) pf(rf->_offset[i]);
        printf("\n");
        rfm->applyToAll(ps);
        print_pos("rfpos", ps);
        moments(g2, n, "rfmom");
        std::copy_n(g2->getData(), (size_t)n * n, g1->getData());
    }
    printf("end\n");
}

// load <id> <n> <qmin> <qmax> <pmin> <pmax> <np> np*(q p)
// what main() does with a line of the tracking file: {grid->x(q), grid->y(p)}
static void do_load()
{
    std::string id = next();
    unsigned n = nextl();
    float qmin = nextf(), qmax = nextf(), pmin = nextf(), pmax = nextf();
    unsigned np = nextl();
    auto g = mkps(n, 1, qmin, qmax, pmin, pmax);
    printf("case %s\naxes", id.c_str());
    pf(g->getAxis(0)->min()); pf(g->getAxis(0)->delta()); pf(g->getAxis(1)->min()); pf(g->getAxis(1)->delta());
    printf("\npos");
    for (unsigned i = 0; i < np; i++) {
        meshaxis_t q = nextf(), p = nextf();
        PhaseSpace::Position pos{g->x(q), g->y(p)};
        pf(pos.x); pf(pos.y);
    }
    printf("\nend\n");
}

int main(int argc, char** argv)
{
    return run_main(argc, argv, {{"track", do_track}, {"blob", do_blob}, {"ens", do_ens}, {"dyntrack", do_dyntrack},
                                 {"load", do_load}, {"rfblob", do_rfblob}});
}
