#include "common.hpp"

// ident <id> <n> <nb> ; in (nb*n*n) ; out0 (nb*n*n: what the target grid holds before)
// Identity(in,out).apply(); prints out (nb*n*n)
static void do_ident()
{
    std::string id = next();
    unsigned n = nextl(), nb = nextl();
    auto in = mkps(n, nb);
    auto out = mkps(n, nb);
    size_t tot = (size_t)nb * n * n;
    for (size_t i = 0; i < tot; i++) in->getData()[i] = nextf();
    for (size_t i = 0; i < tot; i++) out->getData()[i] = nextf();
    Identity idm(in, out, nullptr);
    idm.apply();
    printf("case %s\nout", id.c_str());
    for (size_t i = 0; i < tot; i++) pf(out->getData()[i]);
    printf("\nin");
    for (size_t i = 0; i < tot; i++) pf(in->getData()[i]);
    printf("\nend\n");
}

int main(int argc, char** argv)
{
    return run_main(argc, argv, {{"ident", do_ident}});
}
