#include "common.hpp"
// Implementation side of the long-history queue check of C19 (strengthening driven by seed C19-G): ONE DynamicRFKickMap,
// constructed for `steps` steps by the same constructor calls as src/main.cpp, applied `applies` times with
// getPastModulation() at the given apply counts and once at the end.  Private members are only read.
//
// longq <id> <args as in impl_dynrf: lin|sin n nb it qmax pmax qscale pscale angle V_RF V0 revpart f_RF phasespread
//            amplspread modampl modtimeincrement steps> <applies> <nflush> j_1 .. j_nflush
// prints: members (syncphase, _modampl, _modtimedelta), qlen0 (queue length after construction),
//         one `flush j qlen chunk` line per flush (apply count, queue length, records returned), `rec` = all records
//         (phase amplitude ...) in the order they were returned.

struct RFArgs {
    bool linear;
    unsigned n, nb, it;
    float qmax, pmax;
    double qscale, pscale;
    float angle;
    double V_RF, V0;
    double revolutionpart, f_RF;
    float phasespread, amplspread, modampl;
    double modtimeincrement;
    unsigned steps;
};

static RFArgs read_args()
{
    RFArgs a;
    std::string m = next();
    a.linear = (m == "lin");
    a.n = nextl(); a.nb = nextl(); a.it = nextl();
    a.qmax = nextf(); a.pmax = nextf(); a.qscale = nextd(); a.pscale = nextd();
    a.angle = nextf(); a.V_RF = nextd(); a.V0 = nextd();
    a.revolutionpart = nextd(); a.f_RF = nextd();
    a.phasespread = nextf(); a.amplspread = nextf(); a.modampl = nextf();
    a.modtimeincrement = nextd();
    a.steps = nextl();
    return a;
}

static std::shared_ptr<PhaseSpace> mk(const RFArgs& a)
{
    PhaseSpace::resetSize(a.n, a.nb);
    std::vector<integral_t> filling(a.nb, 1.0f / a.nb);
    return std::make_shared<PhaseSpace>(-a.qmax, a.qmax, a.qscale, -a.pmax, a.pmax, a.pscale,
                                        nullptr, 1.0, 1.0, filling, 1.0);
}

static std::unique_ptr<DynamicRFKickMap> mkdyn(const RFArgs& a, std::shared_ptr<PhaseSpace> in,
                                               std::shared_ptr<PhaseSpace> out)
{
    auto it = static_cast<SourceMap::InterpolationType>(a.it);
    // exactly the two calls of src/main.cpp (dynamic branch)
    if (a.linear)
        return std::unique_ptr<DynamicRFKickMap>(new DynamicRFKickMap(in, out, a.n, a.n
                , a.angle, a.revolutionpart, a.f_RF
                , a.phasespread, a.amplspread, a.modampl, a.modtimeincrement, a.steps
                , it, false, nullptr));
    return std::unique_ptr<DynamicRFKickMap>(new DynamicRFKickMap(in, out, a.n, a.n
            , a.revolutionpart, a.V_RF, a.f_RF, a.V0
            , a.phasespread, a.amplspread, a.modampl, a.modtimeincrement, a.steps
            , it, false, nullptr));
}

static void do_longq()
{
    std::string id = next();
    RFArgs a = read_args();
    unsigned long applies = nextl();
    unsigned long nfl = nextl();
    std::vector<unsigned long> fl(nfl);
    for (auto& j : fl) j = nextl();
    auto in = mk(a), out = mk(a);
    auto d = mkdyn(a, in, out);
    printf("case %s\n", id.c_str());
    printf("members"); pf(d->_syncphase); pf(d->_modampl); pf(d->_modtimedelta); printf("\n");
    printf("qlen0 %zu\n", d->_next_modulation.size());
    std::vector<std::array<meshaxis_t,2>> recs;
    size_t fi = 0;
    for (unsigned long j = 0; j < applies; j++) {
        while (fi < fl.size() && fl[fi] == j) {
            auto p = d->getPastModulation();
            printf("flush %lu %zu %zu\n", j, d->_next_modulation.size(), p.size());
            recs.insert(recs.end(), p.begin(), p.end());
            fi++;
        }
        d->apply();
    }
    auto p = d->getPastModulation();
    printf("flush %lu %zu %zu\n", applies, d->_next_modulation.size(), p.size());
    recs.insert(recs.end(), p.begin(), p.end());
    printf("rec");
    for (auto& m : recs) { pf(m[0]); pf(m[1]); }
    printf("\nend\n");
}

int main(int argc, char** argv)
{
    return run_main(argc, argv, {{"longq", do_longq}});
}
