#include "common.hpp"

// ---------------------------------------------------------------------------------------
// moments <id> <n> <nb> qmin qmax pmin pmax fs[nb]  q2min q2max p2min p2max fs2[nb]  <nops> ops..
//         data[nb*n*n] data2[nb*n*n]
// ops: 0 updateXProjection 1 updateYProjection 2 integrate 3 normalize 4 average(0) 5 average(1)
//      6 variance(0) 7 variance(1)
// prints the geometry and the observable state of: s (object after the history), c (copy of s),
// cv (c after variance(0), variance(1)), t (second object after t = s), tv (t after variance).
static void dump(const char* nm, PhaseSpace& ps)
{
    const unsigned n = PhaseSpace::nx, nb = PhaseSpace::nb;
    printf("%s.data", nm);
    for (size_t i = 0; i < (size_t)nb * n * n; i++) pf(ps.getData()[i]);
    for (unsigned a = 0; a < 2; a++) {
        printf("\n%s.p%c", nm, a ? 'y' : 'x');
        for (unsigned b = 0; b < nb; b++) for (unsigned i = 0; i < n; i++) pf(ps.getProjection(a, b)[i]);
    }
    printf("\n%s.fill", nm);
    for (auto v : ps.getBunchPopulation()) pf(v);
    printf("\n%s.int", nm); pf(ps.getIntegral());
    for (unsigned a = 0; a < 2; a++) for (unsigned m = 0; m < 2; m++) {
        printf("\n%s.m%u%u", nm, a, m);
        for (unsigned b = 0; b < nb; b++) pf(ps.getMoment(a, m)[b]);
    }
    printf("\n%s.rms0", nm);
    for (unsigned b = 0; b < nb; b++) pf(ps.getBunchLength()[b]);
    printf("\n%s.rms1", nm);
    for (unsigned b = 0; b < nb; b++) pf(ps.getEnergySpread()[b]);
    // the same quantities through the RAW-MEMORY view the results-file writer uses (HDF5File::append hands
    // <accessor>.origin() to the file layer, which takes nb - or nb*n - CONTIGUOUS values from there):
    // strengthening st3weak, seeds C09-J / C10-H (an accessor that returns a strided view)
    for (unsigned a = 0; a < 2; a++) for (unsigned m = 0; m < 2; m++) {
        auto mv = ps.getMoment(a, m);
        printf("\n%s.w%u%u", nm, a, m);
        for (unsigned b = 0; b < nb; b++) pf(mv.origin()[b]);
    }
    {
        auto r0 = ps.getBunchLength();
        printf("\n%s.wr0", nm);
        for (unsigned b = 0; b < nb; b++) pf(r0.origin()[b]);
        auto r1 = ps.getEnergySpread();
        printf("\n%s.wr1", nm);
        for (unsigned b = 0; b < nb; b++) pf(r1.origin()[b]);
    }
    for (unsigned a = 0; a < 2; a++) {
        auto pv = ps.getProjection(a);
        printf("\n%s.wp%c", nm, a ? 'y' : 'x');
        for (size_t i = 0; i < (size_t)nb * n; i++) pf(pv.origin()[i]);
    }
    printf("\n");
}

static void do_moments()
{
    std::string id = next();
    unsigned n = nextl(), nb = nextl();
    float e[2][4];
    std::vector<integral_t> fs[2];
    for (int k = 0; k < 2; k++) {
        for (int j = 0; j < 4; j++) e[k][j] = nextf();
        for (unsigned b = 0; b < nb; b++) fs[k].push_back(nextf());
    }
    unsigned nops = nextl();
    std::vector<int> ops(nops);
    for (auto& o : ops) o = nextl();
    std::vector<meshdata_t> data((size_t)nb * n * n), data2((size_t)nb * n * n);
    for (auto& v : data) v = nextf();
    for (auto& v : data2) v = nextf();

    PhaseSpace::resetSize(n, nb);
    PhaseSpace ps(e[0][0], e[0][1], 1.0, e[0][2], e[0][3], 1.0, nullptr, 1.0, 1.0, fs[0], 1.0, data.data());
    for (int o : ops) {
        switch (o) {
        case 0: ps.updateXProjection(); break;
        case 1: ps.updateYProjection(); break;
        case 2: ps.integrate(); break;
        case 3: ps.normalize(); break;
        case 4: ps.average(0); break;
        case 5: ps.average(1); break;
        case 6: ps.variance(0); break;
        case 7: ps.variance(1); break;
        case 8: ps.integrateAndNormalize(); break;
        default: break;
        }
    }
    printf("case %s\n", id.c_str());
    printf("geo.d"); pf(ps.getDelta(0)); pf(ps.getDelta(1));
    printf("\ngeo.ws"); for (unsigned i = 0; i < n; i++) pf(ps._ws[i]);
    printf("\ngeo.q"); for (unsigned i = 0; i < n; i++) pf(ps.q(i));
    printf("\ngeo.p"); for (unsigned i = 0; i < n; i++) pf(ps.p(i));
    printf("\n");
    dump("s", ps);
    {
        PhaseSpace c(ps);
        dump("c", c);
        c.variance(0); c.variance(1);
        dump("cv", c);
    }
    {
        PhaseSpace t(e[1][0], e[1][1], 1.0, e[1][2], e[1][3], 1.0, nullptr, 1.0, 1.0, fs[1], 1.0, data2.data());
        printf("geo.d2"); pf(t.getDelta(0)); pf(t.getDelta(1)); printf("\n");
        t = ps;
        dump("t", t);
        t.variance(0); t.variance(1);
        dump("tv", t);
    }
    printf("end\n");
}

int main(int argc, char** argv)
{
    return run_main(argc, argv, {{"moments", do_moments}});
}
