// C17, text start distribution: makePSFromTXT (src/PS/PhaseSpaceFactory.cpp) on a generated particle file.
//   txt <id> <n> <qmax> <pmax> <k> x1 y1 ... xk yk <dir>
// writes the particles to <dir>/<id>.txt (one "x y" line each, %.9g round-trips a float), calls
// makePSFromTXT(fname, n, -qmax, qmax, -pmax, pmax, ...) exactly as main() does for a *.txt start
// distribution, and prints the cells of bunch 0 that differ from the particle-free reference grid: `cell x y`.
#include "common.hpp"

static void do_txt()
{
    std::string id = next();
    long n = nextl();
    float qmax = nextf(), pmax = nextf();
    long k = nextl();
    std::vector<std::pair<float,float>> ps;
    for (long j = 0; j < k; j++) { float x = nextf(); float y = nextf(); ps.emplace_back(x, y); }
    std::string dir = next();
    std::string fname = dir + "/" + id + ".txt";
    {
        FILE* f = fopen(fname.c_str(), "w");
        if (!f) { fprintf(stderr, "cannot write %s\n", fname.c_str()); exit(3); }
        for (auto& p : ps) fprintf(f, "%.9g %.9g\n", (double)p.first, (double)p.second);
        fclose(f);
    }
    printf("case %s\n", id.c_str());
    PhaseSpace::resetSize();
    auto grid = makePSFromTXT(fname, n, -qmax, qmax, -pmax, pmax, nullptr, 1.0, 1.0, 1.0, 1.0);
    // makePSFromTXT adds the particles on top of the default Gaussian the PhaseSpace constructor creates and then
    // normalises with the integral cached by that constructor: the same object without particles is the reference
    std::vector<integral_t> filling = { 1.0 };
    PhaseSpace ref(-qmax, qmax, 1.0, -pmax, pmax, 1.0, nullptr, 1.0, 1.0, filling);
    ref.normalize();
    const float* d = grid->getData();
    const float* r = ref.getData();
    for (long x = 0; x < n; x++)
        for (long y = 0; y < n; y++)
            if (d[x * n + y] != r[x * n + y]) printf("cell %lx %lx\n", x, y);
    printf("end\n");
    remove(fname.c_str());
}

int main(int argc, char** argv)
{
    return run_main(argc, argv, {{"txt", do_txt}});
}
