#include "common.hpp"
// ---------------------------------------------------------------------------------------
// Family hist (C18): operation histories on one ElectricField object versus a freshly
// constructed object given the same last profile (same process, same FFTW wisdom), the
// written-cell footprint of every operation (probe object, two poison patterns), and the
// monitor of hypothesis (B): _wakelosses[floor(N/2)] and the cells above it after every call.
//
// hist <id> <n> <nb> <N> <sp> b_0..b_{nb-1}  z: N x (re im)   L   L x ( W|P|C <cutoff> p[nb*n] )
//
// per operation k:
//   op <k> <kind> same <0|1> [<buffer> <index> <got> <expected>]
//   bp <N floats>                    padded profile of the history object after the call
//   fp <bp-mask> <ff-mask> <wl-mask> <wp-mask> <wake-mask> <csr-mask> <csri-mask>   (probe object)
//   B <re> <im> <wl-zero> <ff-zero>  _wakelosses[N/2] of the history object after the call; are all
//                                    cells >= N/2 of _wakelosses / > N/2 of _formfactor still zero?

typedef std::shared_ptr<ElectricField> efp;

struct Cfg {
    unsigned n, nb; size_t N, sp;
    std::vector<uint32_t> buckets;
    std::shared_ptr<Impedance> z;
    std::shared_ptr<PhaseSpace> ps;
};

static efp mkfield(const Cfg& c)
{
    return std::make_shared<ElectricField>(c.ps, c.z, c.buckets, c.sp, nullptr,
                                           1e6, 0.125, 1e-3, 1e9, 1e-3, 1e-3);
}

static void setprofile(const Cfg& c, const std::vector<float>& p)
{
    for (unsigned b = 0; b < c.nb; b++)
        for (unsigned x = 0; x < c.n; x++)
            c.ps->_projection[0][b][x] = p[b * c.n + x];
}

static void doop(ElectricField& f, char kind, float cut)
{
    switch (kind) {
    case 'W': f.wakePotential(); break;
    case 'P': f.padBunchProfiles(); break;
    case 'C': f.updateCSR(cut); break;
    default: fprintf(stderr, "bad op %c\n", kind); exit(3);
    }
}

struct View { const char* name; const void* p; size_t cells; size_t cellbytes; };

static std::vector<View> buffers(const Cfg& c, ElectricField& f)
{
    return {
        {"bp", f._bp_padded, c.N, sizeof(float)},
        {"ff", f._formfactor, c.N, 2 * sizeof(float)},
        {"wl", f._wakelosses, c.N, 2 * sizeof(float)},
        {"wp", f._wakepotential_padded, c.N, sizeof(float)},
        {"wake", f._wakepotential.data(), (size_t)c.nb * c.n, sizeof(float)},
        {"csr", f._csrspectrum.data(), (size_t)c.nb * c.N, sizeof(float)},
        {"csri", f._csrintensity.data(), (size_t)c.nb, sizeof(float)},
    };
}

// what the property observes after an operation of the given kind
static std::vector<View> observed(const Cfg& c, ElectricField& f, char kind)
{
    auto b = buffers(c, f);
    switch (kind) {
    case 'W': return {b[4], b[3], b[0]};
    case 'P': return {b[0]};
    default:  return {b[5], b[6]};
    }
}

// every buffer gets its own poison value (a transform of a poisoned buffer must not reproduce
// the poison of its output buffer, e.g. c2r of a Nyquist-only input is +-that value)
static float poisonval(size_t buffer, float v) { return v * (float)(buffer + 1) + 0.125f * (float)buffer; }
static void poison(const Cfg& c, ElectricField& f, float v)
{
    auto bs = buffers(c, f);
    for (size_t b = 0; b < bs.size(); b++) {
        float* p = (float*)bs[b].p;
        for (size_t i = 0; i < bs[b].cells * bs[b].cellbytes / sizeof(float); i++) p[i] = poisonval(b, v);
    }
}

static void do_hist()
{
    std::string id = next();
    Cfg c;
    c.n = nextl(); c.nb = nextl(); c.N = nextl(); c.sp = nextl();
    for (unsigned b = 0; b < c.nb; b++) c.buckets.push_back(nextl());
    std::vector<impedance_t> z(c.N);
    for (auto& v : z) { float re = nextf(); float im = nextf(); v = impedance_t(re, im); }
    c.z = std::make_shared<Impedance>(z, 1e9f);
    c.ps = mkps(c.n, c.nb);
    long L = nextl();
    { efp warm = mkfield(c); }            // makes sure the wisdom files of this N exist
    efp f = mkfield(c);                   // the object with the history
    efp g = mkfield(c);                   // footprint probe
    printf("case %s\n", id.c_str());
    for (long k = 0; k < L; k++) {
        char kind = next()[0];
        float cut = nextf();
        std::vector<float> p(c.nb * c.n);
        for (auto& v : p) v = nextf();
        setprofile(c, p);
        doop(*f, kind, cut);
        efp fr = mkfield(c);
        doop(*fr, kind, cut);
        auto oh = observed(c, *f, kind), of = observed(c, *fr, kind);
        bool same = true;
        printf("op %ld %c same", k, kind);
        for (size_t i = 0; i < oh.size() && same; i++) {
            const float* a = (const float*)oh[i].p; const float* e = (const float*)of[i].p;
            for (size_t j = 0; j < oh[i].cells; j++)
                if (memcmp(a + j, e + j, sizeof(float)) != 0) {
                    same = false;
                    printf(" 0 %s %zu", oh[i].name, j); pf(a[j]); pf(e[j]);
                    break;
                }
        }
        if (same) printf(" 1");
        printf("\nbp");
        for (size_t i = 0; i < c.N; i++) pf(f->_bp_padded[i]);
        // monitor (B) on the history object
        {
            size_t h = c.N / 2;
            printf("\nB"); pf(f->_wakelosses[h].real()); pf(f->_wakelosses[h].imag());
            // value comparison: -0 counts as zero
            bool zero = true;
            const float* w = (const float*)f->_wakelosses;
            for (size_t i = 2 * h; i < 2 * c.N; i++) zero = zero && w[i] == 0.0f;
            const float* q = (const float*)f->_formfactor;
            bool ffzero = true;
            for (size_t i = 2 * (h + 1); i < 2 * c.N; i++) ffzero = ffzero && q[i] == 0.0f;
            printf(" %d %d", zero ? 1 : 0, ffzero ? 1 : 0);
        }
        // footprint on the probe object
        {
            auto bs = buffers(c, *g);
            std::vector<std::string> mask;
            for (auto& w : bs) mask.emplace_back(w.cells, '0');
            const float pat[2] = {3.25f, -7.5f};
            for (int t = 0; t < 2; t++) {
                poison(c, *g, pat[t]);
                doop(*g, kind, cut);
                for (size_t i = 0; i < bs.size(); i++) {
                    const float* q = (const float*)bs[i].p;
                    size_t per = bs[i].cellbytes / sizeof(float);
                    for (size_t j = 0; j < bs[i].cells; j++)
                        for (size_t u = 0; u < per; u++)
                        {
                            float pv = poisonval(i, pat[t]);
                            if (memcmp(q + j * per + u, &pv, sizeof(float)) != 0) mask[i][j] = '1';
                        }
                }
            }
            printf("\nfp");
            for (auto& m : mask) printf(" %s", m.c_str());
        }
        printf("\n");
    }
    printf("end\n");
}


// ---------------------------------------------------------------------------------------
// hist2 (second wave): TWO field objects in one process on the same PhaseSpace (as main() has its
// radiation field and its wake field), interleaved histories of calls and getters.
//
// hist2 <id> <n> <nb> b_0..b_{nb-1}
//       <N1> <sp1> <full1>  z1: N1 x (re im)      object 1 (full = 0: constructor without the wake transform,
//       <N2> <sp2> <full2>  z2: N2 x (re im)      object 2  as main() builds its radiation field)
//       L   L x ( <obj 1|2> W|P|C <cutoff> p[nb*n]  |  <obj 1|2> G <getter 0..4> )
// getters: 0 getWakePotentials  1 getPaddedWakePotential  2 getPaddedBunchProfiles  3 getCSRSpectrum  4 getCSRPower
//
// per operation k:
//   op <k> <obj> <kind> same <0|1> [<buffer> <index> <got> <expected>]   call: observed buffers vs the same call on a
//                                    freshly constructed object of the same kind;  getter: the cells it returns vs the
//                                    cells the last call on this object left / a fresh object has (no call yet)
//   other <0|1>                      all buffers of the OTHER object bit-identical before and after
//   self <0|1>                       getter only: all buffers of THIS object bit-identical before and after
//   ptr <0|1>                        getter only: it returns the address of the buffer the model names
//   bp <N floats>                    padded profile of the object operated on

struct Obj {
    Cfg c; bool full; efp f;
};

static efp mkfield2(const Cfg& c, bool full)
{
    if (full) return mkfield(c);
    // the constructor main() uses for rdtn_field: no _initWakeLossFFT()
    return std::make_shared<ElectricField>(c.ps, c.z, c.buckets, c.sp, nullptr, 1e6, 0.125);
}

static std::vector<View> buffers2(const Obj& o)
{
    auto b = buffers(o.c, *o.f);
    if (!o.full) { b[2].cells = 0; b[3].cells = 0; }      // _wakelosses, _wakepotential_padded do not exist
    return b;
}

static std::vector<std::vector<unsigned char>> snapshot(const Obj& o)
{
    std::vector<std::vector<unsigned char>> r;
    for (auto& v : buffers2(o)) {
        const unsigned char* p = (const unsigned char*)v.p;
        r.emplace_back(p, p + v.cells * v.cellbytes);
    }
    return r;
}

static void do_hist2()
{
    std::string id = next();
    unsigned n = nextl(), nb = nextl();
    std::vector<uint32_t> bks;
    for (unsigned b = 0; b < nb; b++) bks.push_back(nextl());
    auto ps = mkps(n, nb);
    Obj o[2];
    for (int w = 0; w < 2; w++) {
        o[w].c.n = n; o[w].c.nb = nb; o[w].c.buckets = bks; o[w].c.ps = ps;
        o[w].c.N = nextl(); o[w].c.sp = nextl(); o[w].full = nextl() != 0;
        std::vector<impedance_t> z(o[w].c.N);
        for (auto& v : z) { float re = nextf(); float im = nextf(); v = impedance_t(re, im); }
        o[w].c.z = std::make_shared<Impedance>(z, 1e9f);
    }
    long L = nextl();
    for (int w = 0; w < 2; w++) { efp warm = mkfield2(o[w].c, o[w].full); }   // wisdom of both lengths exists
    for (int w = 0; w < 2; w++) o[w].f = mkfield2(o[w].c, o[w].full);
    // what the last call on each object observed (for the getters): kind of the last call, 0 = none yet
    char last[2] = {0, 0};
    float lastcut[2] = {0, 0};
    std::vector<float> lastp[2];
    printf("case %s\n", id.c_str());
    for (long k = 0; k < L; k++) {
        int w = nextl() - 1;
        char kind = next()[0];
        Obj& me = o[w]; Obj& ot = o[1 - w];
        auto before_other = snapshot(ot);
        bool same = true;
        printf("op %ld %d %c same", k, w + 1, kind);
        if (kind == 'G') {
            int g = nextl();
            auto before_self = snapshot(me);
            const void* got = nullptr; size_t cells = 0; int bidx = 0;
            switch (g) {
            case 0: got = me.f->getWakePotentials().data(); bidx = 4; break;
            case 1: got = me.f->getPaddedWakePotential(); bidx = 3; break;
            case 2: got = me.f->getPaddedBunchProfiles(); bidx = 0; break;
            case 3: got = me.f->getCSRSpectrum(); bidx = 5; break;
            default: got = me.f->getCSRPower(); bidx = 6; break;
            }
            auto bs = buffers(me.c, *me.f);
            cells = (me.full || (bidx != 2 && bidx != 3)) ? bs[bidx].cells : 0;
            bool ptr = got == bs[bidx].p;
            // reference: a fresh object of the same kind given the last call made on this object (none: untouched)
            efp fr = mkfield2(me.c, me.full);
            if (last[w]) { setprofile(me.c, lastp[w]); doop(*fr, last[w], lastcut[w]); }
            auto fb = buffers(me.c, *fr);
            // a getter's value is determined by the last call only if that call writes the buffer (reads_of)
            bool determined = !last[w] || (last[w] == 'W' && (bidx == 4 || bidx == 3 || bidx == 0)) ||
                              (last[w] == 'P' && bidx == 0) || (last[w] == 'C' && (bidx == 5 || bidx == 6));
            if (determined && got != nullptr) {
                const float* a = (const float*)got; const float* e = (const float*)fb[bidx].p;
                for (size_t j = 0; j < cells && same; j++)
                    if (memcmp(a + j, e + j, sizeof(float)) != 0) {
                        same = false;
                        printf(" 0 %s %zu", bs[bidx].name, j); pf(a[j]); pf(e[j]);
                    }
            }
            if (same) printf(" 1");
            printf("\nself %d\nptr %d", snapshot(me) == before_self ? 1 : 0, ptr ? 1 : 0);
        } else {
            float cut = nextf();
            std::vector<float> p((size_t)nb * n);
            for (auto& v : p) v = nextf();
            setprofile(me.c, p);
            doop(*me.f, kind, cut);
            efp fr = mkfield2(me.c, me.full);
            doop(*fr, kind, cut);
            auto oh = observed(me.c, *me.f, kind), of = observed(me.c, *fr, kind);
            for (size_t i = 0; i < oh.size() && same; i++) {
                if (!me.full && (oh[i].p == nullptr)) continue;
                const float* a = (const float*)oh[i].p; const float* e = (const float*)of[i].p;
                for (size_t j = 0; j < oh[i].cells; j++)
                    if (memcmp(a + j, e + j, sizeof(float)) != 0) {
                        same = false;
                        printf(" 0 %s %zu", oh[i].name, j); pf(a[j]); pf(e[j]);
                        break;
                    }
            }
            if (same) printf(" 1");
            last[w] = kind; lastcut[w] = cut; lastp[w] = p;
        }
        printf("\nother %d", snapshot(ot) == before_other ? 1 : 0);
        printf("\nbp");
        for (size_t i = 0; i < me.c.N; i++) pf(me.f->_bp_padded[i]);
        printf("\n");
    }
    printf("end\n");
}

int main(int argc, char** argv)
{
    return run_main(argc, argv, {{"hist", do_hist}, {"hist2", do_hist2}});
}
