#include "common.hpp"

// ---------------------------------------------------------------------------------------
// fp <id> <dt> <v> <n> <nb> <steps> <pmin> <pmax> <e1> ; data (nb*n*n)
// Builds a FokkerPlanckMap on an n x n grid (energy axis [pmin,pmax]), prints the axis facts it
// used (delta, zerobin, p(j)), its stencil table _hinfo (n*dt entries) and the grid after
// <steps> applications (output copied back to the input between applications).
static void do_fp()
{
    std::string id = next();
    unsigned dt = nextl(), v = nextl(), n = nextl(), nb = nextl(), steps = nextl();
    float pmin = nextf(), pmax = nextf(), e1 = nextf();
    auto in = mkps(n, nb, -6, 6, pmin, pmax);
    auto out = mkps(n, nb, -6, 6, pmin, pmax);
    const size_t tot = (size_t)nb * n * n;
    for (size_t i = 0; i < tot; i++) in->getData()[i] = nextf();
    for (size_t i = 0; i < tot; i++) out->getData()[i] = 0;
    FokkerPlanckMap fpm(in, out, n, n, static_cast<FokkerPlanckMap::FPType>(v),
                        FokkerPlanckMap::FPTracking::none, e1,
                        static_cast<FokkerPlanckMap::DerivationType>(dt), nullptr);
    printf("case %s\naxis", id.c_str());
    pf(in->getDelta(1)); pf(in->getAxis(1)->zerobin());
    for (unsigned j = 0; j < n; j++) pf(in->p(j));
    printf("\ntable");
    for (size_t k = 0; k < (size_t)n * dt; k++) { printf(" %u", fpm._hinfo[k].index); pf(fpm._hinfo[k].weight); }
    for (unsigned s = 0; s < steps; s++) {
        fpm.apply();
        if (s + 1 < steps) std::memcpy(in->getData(), out->getData(), tot * sizeof(meshdata_t));
    }
    printf("\nout");
    for (size_t i = 0; i < tot; i++) pf(steps ? out->getData()[i] : in->getData()[i]);
    printf("\nend\n");
}

int main(int argc, char** argv)
{
    return run_main(argc, argv, {{"fp", do_fp}});
}
