#include "common.hpp"

// ---------------------------------------------------------------------------------------
// fp <id> <dt> <v> <n> <nb> <steps> <pmin> <pmax> <e1> ; data (nb*n*n)
// Builds a FokkerPlanckMap on an n x n grid (energy axis [pmin,pmax]), prints the axis facts it
// used (delta, zerobin, p(j)), its stencil table _hinfo (n*dt entries) and the grid after
// <steps> applications (output copied back to the input between applications).
static void do_fp()
{
    std::string id = next();
    unsigned dt = nextl(), v = nextl(), n = nextl(), nb = nextl(), steps = nextl();
    float pmin = nextf(), pmax = nextf(), e1 = nextf();
    auto in = mkps(n, nb, -6, 6, pmin, pmax);
    auto out = mkps(n, nb, -6, 6, pmin, pmax);
    const size_t tot = (size_t)nb * n * n;
    for (size_t i = 0; i < tot; i++) in->getData()[i] = nextf();
    for (size_t i = 0; i < tot; i++) out->getData()[i] = 0;
    FokkerPlanckMap fpm(in, out, n, n, static_cast<FokkerPlanckMap::FPType>(v),
                        FokkerPlanckMap::FPTracking::none, e1,
                        static_cast<FokkerPlanckMap::DerivationType>(dt), nullptr);
    printf("case %s\naxis", id.c_str());
    pf(in->getDelta(1)); pf(in->getAxis(1)->zerobin());
    for (unsigned j = 0; j < n; j++) pf(in->p(j));
    printf("\ntable");
    for (size_t k = 0; k < (size_t)n * dt; k++) { printf(" %u", fpm._hinfo[k].index); pf(fpm._hinfo[k].weight); }
    for (unsigned s = 0; s < steps; s++) {
        fpm.apply();
        if (s + 1 < steps) std::memcpy(in->getData(), out->getData(), tot * sizeof(meshdata_t));
    }
    printf("\nout");
    for (size_t i = 0; i < tot; i++) pf(steps ? out->getData()[i] : in->getData()[i]);
    // The step has no input but data_in and the stencil table (C04_fp_apply_column_local): whatever else the input grid holds -
    // cached bunch / energy profile, integral, filling, moments, all of which main() refreshes for grid_t1 only, never for the
    // grid the Fokker-Planck map reads - must not matter.  Apply once more with those caches zeroed and count the cells that differ.
    if (steps) {
        std::vector<meshdata_t> ref(out->getData(), out->getData() + tot);
        std::fill(in->_projection.data(), in->_projection.data() + in->_projection.num_elements(), 0);
        std::fill(in->_moment.data(), in->_moment.data() + in->_moment.num_elements(), 0);
        std::fill(in->_rms.data(), in->_rms.data() + in->_rms.num_elements(), 0);
        std::fill(in->_filling.begin(), in->_filling.end(), 0);
        in->_integral = 0;
        for (size_t i = 0; i < tot; i++) out->getData()[i] = -12345.0f;      // a cell the second application leaves unwritten shows up
        fpm.apply();
        size_t nd = 0, first = 0;
        for (size_t i = 0; i < tot; i++)
            if (std::memcmp(&ref[i], &out->getData()[i], sizeof(meshdata_t)) != 0) { if (!nd) first = i; nd++; }
        printf("\ncachedep %zu %zu", nd, first);
    }
    printf("\nend\n");
}

// evo <id> <dt> <v> <n> <it> <steps> <every> <half> <angle> <e1> <w> ; data (n*n)
// One bunch on [-half,half]^2; iterates RFKickMap (linear) -> DriftMap -> FokkerPlanckMap as main() does
// (Identity grid1 -> grid2, RF grid2 -> grid1, drift grid1 -> grid3, FP grid3 -> grid1; see do_evo) and prints, every <every> steps, the raw moments about the zero bins
// in cells, accumulated in double: M0 Mu Mv Muu Muv Mvv, and the absolute mass of the cells that one step can move
// across the border (within w cells of it after the largest kick of their row or column).  Also prints tan(angle) as the RF map computes it.
static void moments(const char* tag, unsigned k, std::shared_ptr<PhaseSpace> g, unsigned n, unsigned w, double t)
{
    const double xc = g->getAxis(0)->zerobin(), yc = g->getAxis(1)->zerobin();
    double m0 = 0, mu = 0, mv = 0, muu = 0, muv = 0, mvv = 0, edge = 0;
    for (unsigned x = 0; x < n; x++) for (unsigned y = 0; y < n; y++) {
        const double f = g->getData()[x * n + y], u = x - xc, v = y - yc;
        // cells that one step can move across the border: within w cells of it after the largest shift of their row / column
        if (std::fabs(v) + t * std::fabs(u) + w > n / 2.0 || std::fabs(u) + t * std::fabs(v) + w > n / 2.0) edge += std::fabs(f);
        m0 += f; mu += u * f; mv += v * f; muu += u * u * f; muv += u * v * f; mvv += v * v * f;
    }
    printf("%s %u", tag, k); pd(m0); pd(mu); pd(mv); pd(muu); pd(muv); pd(mvv); pd(edge); printf("\n");
}

static void do_evo()
{
    std::string id = next();
    unsigned dt = nextl(), v = nextl(), n = nextl(), it = nextl(), steps = nextl(), every = nextl();
    float half = nextf(), angle = nextf(), e1 = nextf();
    unsigned w = nextl();   // width of the border ring whose absolute mass is reported (sum |f|)
    // wired as main() wires an impedance-free run: grid_t1 is built and filled first, grid_t2 and grid_t3 are COPIES of it
    // (copy constructor: data + the projections / integral of that data, computed once), the wake stand-in is an Identity
    // grid_t1 -> grid_t2, RF kick grid_t2 -> grid_t1, drift grid_t1 -> grid_t3, Fokker-Planck grid_t3 -> grid_t1, and after
    // every step only grid_t1's bunch profile is refreshed (main.cpp: grid_t1->updateXProjection()).  Whatever a map reads
    // from its input grid besides the data (cached profile, integral, moments) is therefore as stale here as in the program.
    auto g1 = mkps(n, 1, -half, half, -half, half);
    const size_t tot = (size_t)n * n;
    for (size_t i = 0; i < tot; i++) g1->getData()[i] = nextf();
    g1->updateXProjection(); g1->updateYProjection(); g1->integrate();      // what the constructor does for its own start data
    auto g2 = std::make_shared<PhaseSpace>(*g1);
    auto g3 = std::make_shared<PhaseSpace>(*g1);
    Identity wm(g1, g2, nullptr);
    RFKickMap rfm(g2, g1, angle, 5e8, static_cast<SourceMap::InterpolationType>(it), false, nullptr);
    std::vector<meshaxis_t> slip{angle, 0, 0};
    DriftMap drm(g1, g3, slip, 1e9, static_cast<SourceMap::InterpolationType>(it), false, nullptr);
    std::unique_ptr<SourceMap> fpm;
    if (e1 > 0)
        fpm.reset(new FokkerPlanckMap(g3, g1, n, n, static_cast<FokkerPlanckMap::FPType>(v),
                                      FokkerPlanckMap::FPTracking::none, e1,
                                      static_cast<FokkerPlanckMap::DerivationType>(dt), nullptr));
    else
        fpm.reset(new Identity(g3, g1, nullptr));
    printf("case %s\nsetup", id.c_str());
    pf(std::tan(angle)); pf(g1->getDelta(0)); pf(g1->getDelta(1)); pf(g1->getAxis(0)->zerobin()); pf(g1->getAxis(1)->zerobin());
    pf(rfm._offset[0]); pf(rfm._offset[n - 1]); pf(drm._offset[0]); pf(drm._offset[n - 1]);
    printf("\n");
    moments("m", 0, g1, n, w, std::tan(angle));
    for (unsigned k = 1; k <= steps; k++) {
        wm.apply(); rfm.apply(); drm.apply(); fpm->apply();
        g1->updateXProjection();
        if (k % every == 0 || k == steps) moments("m", k, g1, n, w, std::tan(angle));
    }
    float mn = 0; for (size_t i = 0; i < tot; i++) mn = std::min(mn, g1->getData()[i]);
    printf("minval"); pf(mn); printf("\nend\n");
}

int main(int argc, char** argv)
{
    return run_main(argc, argv, {{"fp", do_fp}, {"evo", do_evo}});
}
