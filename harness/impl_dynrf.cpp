#include "common.hpp"
#include <type_traits>

// The generators of the maps are (re)seeded here.  The statement must keep compiling when the member's qualifiers
// change in the repository (`const`, `mutable`, ...): the qualifier is cast away, so that such a change is judged by
// what it does to the particles / the modulation and not by a compile error of the harness.
template <class T> static typename std::remove_const<T>::type& unconst(T& x)
{
    return const_cast<typename std::remove_const<T>::type&>(x);
}
// Implementation side of the dynrf family (C19): DynamicRFKickMap against RFKickMap, the
// modulation queue under apply/flush schedules, __calcModulation with a known PRNG seed, and
// RFKickMap::_calcKick.  Private members are only read, with two exceptions that the case kinds
// state: `calcmod` and `sched` (seed != 0) reseed `_prng` and call the private __calcModulation, and `sched`
// calls RFKickMap::_calcKick(phase, ampl) on a separate *static* reference object.

struct RFArgs {
    bool linear;
    unsigned n, nb, it;
    float qmax, pmax;
    double qscale, pscale;
    // linear
    float angle;
    // sinusoidal
    double V_RF, V0;
    // both
    double revolutionpart, f_RF;
    // dynamic only
    float phasespread, amplspread, modampl;
    double modtimeincrement;
    unsigned steps;
};

static RFArgs read_args()
{
    RFArgs a;
    std::string m = next();
    a.linear = (m == "lin");
    a.n = nextl(); a.nb = nextl(); a.it = nextl();
    a.qmax = nextf(); a.pmax = nextf(); a.qscale = nextd(); a.pscale = nextd();
    a.angle = nextf(); a.V_RF = nextd(); a.V0 = nextd();
    a.revolutionpart = nextd(); a.f_RF = nextd();
    a.phasespread = nextf(); a.amplspread = nextf(); a.modampl = nextf();
    a.modtimeincrement = nextd();
    a.steps = nextl();
    return a;
}

static std::shared_ptr<PhaseSpace> mk(const RFArgs& a)
{
    PhaseSpace::resetSize(a.n, a.nb);
    std::vector<integral_t> filling(a.nb, 1.0f / a.nb);
    return std::make_shared<PhaseSpace>(-a.qmax, a.qmax, a.qscale, -a.pmax, a.pmax, a.pscale,
                                        nullptr, 1.0, 1.0, filling, 1.0);
}

static std::unique_ptr<RFKickMap> mkstatic(const RFArgs& a, std::shared_ptr<PhaseSpace> in,
                                           std::shared_ptr<PhaseSpace> out)
{
    auto it = static_cast<SourceMap::InterpolationType>(a.it);
    // exactly the two calls of src/main.cpp (static branch)
    if (a.linear)
        return std::unique_ptr<RFKickMap>(new RFKickMap(in, out, a.angle, a.f_RF, it, false, nullptr));
    return std::unique_ptr<RFKickMap>(new RFKickMap(in, out, a.revolutionpart, a.V_RF, a.f_RF, a.V0,
                                                    it, false, nullptr));
}

static std::unique_ptr<DynamicRFKickMap> mkdyn(const RFArgs& a, std::shared_ptr<PhaseSpace> in,
                                               std::shared_ptr<PhaseSpace> out)
{
    auto it = static_cast<SourceMap::InterpolationType>(a.it);
    // exactly the two calls of src/main.cpp (dynamic branch)
    if (a.linear)
        return std::unique_ptr<DynamicRFKickMap>(new DynamicRFKickMap(in, out, a.n, a.n
                , a.angle, a.revolutionpart, a.f_RF
                , a.phasespread, a.amplspread, a.modampl, a.modtimeincrement, a.steps
                , it, false, nullptr));
    return std::unique_ptr<DynamicRFKickMap>(new DynamicRFKickMap(in, out, a.n, a.n
            , a.revolutionpart, a.V_RF, a.f_RF, a.V0
            , a.phasespread, a.amplspread, a.modampl, a.modtimeincrement, a.steps
            , it, false, nullptr));
}

static void pfields(const char* tag, const RFKickMap& m)
{
    printf("%s %d", tag, m._linear ? 1 : 0);
    pf(m._angle); pf(m._revolutionpart); pf(m._V_RF); pf(m._f_RF); pf(m._V0); pf(m._syncphase); pf(m._bl2phase);
    printf("\n");
}

static std::vector<std::array<meshaxis_t,2>> qcopy(const DynamicRFKickMap& d)
{
    auto q = d._next_modulation;      // copy
    std::vector<std::array<meshaxis_t,2>> v;
    while (!q.empty()) { v.push_back(q.front()); q.pop(); }
    return v;
}

static void pvec(const char* tag, const std::vector<meshaxis_t>& v)
{
    printf("%s", tag);
    for (auto x : v) pf(x);
    printf("\n");
}

// dynstat <id> <args> <k> data(nb*n*n)
// the static and the dynamic map built from the same arguments, each applied k times in a row
// to its own copy of the same data (out -> in between steps).
// prints: sfields/dfields (RFKickMap members), soffs (static offsets), doffs (per step), queue,
//         sout / dout (final grids), past (getPastModulation at the end)
static void do_dynstat()
{
    std::string id = next();
    RFArgs a = read_args();
    unsigned k = nextl();
    size_t sz = (size_t)a.nb * a.n * a.n;
    std::vector<float> data(sz);
    for (auto& v : data) v = nextf();
    auto sin_ = mk(a), sout = mk(a), din = mk(a), dout = mk(a);
    std::copy(data.begin(), data.end(), sin_->getData());
    std::copy(data.begin(), data.end(), din->getData());
    auto s = mkstatic(a, sin_, sout);
    auto d = mkdyn(a, din, dout);
    printf("case %s\n", id.c_str());
    pfields("sfields", *s);
    pfields("dfields", *d);
    printf("dyn"); pf(d->_phasenoise); pf(d->_amplnoise); pf(d->_modampl); pf(d->_modtimedelta); printf("\n");
    printf("queue");
    for (auto& m : qcopy(*d)) { pf(m[0]); pf(m[1]); }
    printf("\n");
    pvec("soffs", s->_offset);
    for (unsigned j = 0; j < k; j++) {
        s->apply();
        d->apply();
        pvec("doffs", d->_offset);
        pvec("soffs_step", s->_offset);
        if (j + 1 < k) {
            std::copy(sout->getData(), sout->getData() + sz, sin_->getData());
            std::copy(dout->getData(), dout->getData() + sz, din->getData());
        }
    }
    printf("sout"); for (size_t i = 0; i < sz; i++) pf(sout->getData()[i]); printf("\n");
    printf("dout"); for (size_t i = 0; i < sz; i++) pf(dout->getData()[i]); printf("\n");
    printf("past");
    for (auto& m : d->getPastModulation()) { pf(m[0]); pf(m[1]); }
    printf("\nend\n");
}

// sched <id> <args> <seed> <ops: string over A,F> data(nb*n*n)
// seed != 0: the queue is recomputed by the map's own __calcModulation after reseeding its PRNG
// (what the constructor does, with a known seed instead of std::random_device)
// prints: queue (initial), then per op: `A` + offsets after the apply + `R` offsets a static
// reference object computes from RFKickMap::_calcKick(m) for every m of the initial queue is
// printed once as `ref <j> ...`;  `F` + the chunk returned by getPastModulation.
// at the end: pending (a last getPastModulation), left (what remains queued)
static void do_sched()
{
    std::string id = next();
    RFArgs a = read_args();
    unsigned long seed = strtoul(next().c_str(), nullptr, 10);
    std::string ops = next();
    size_t sz = (size_t)a.nb * a.n * a.n;
    std::vector<float> data(sz);
    for (auto& v : data) v = nextf();
    auto din = mk(a), dout = mk(a), rin = mk(a), rout = mk(a);
    std::copy(data.begin(), data.end(), din->getData());
    auto d = mkdyn(a, din, dout);
    if (seed) {
        unconst(d->_prng).seed(seed);
        unconst(d->_dist).reset();
        d->_next_modulation = d->__calcModulation(a.steps);
    }
    auto ref = mkstatic(a, rin, rout);
    printf("case %s\n", id.c_str());
    auto q0 = qcopy(*d);
    printf("queue");
    for (auto& m : q0) { pf(m[0]); pf(m[1]); }
    printf("\n");
    for (size_t j = 0; j < q0.size(); j++) {
        ref->RFKickMap::_calcKick(q0[j][0], q0[j][1]);
        printf("ref"); for (auto x : ref->_offset) pf(x); printf("\n");
    }
    // (family st3drv) the static kick at the record's phase with relative amplitude 1 and 0: the kick is affine in the
    // relative amplitude, so the amplitude an apply really used can be recovered from its offsets (lib/props/C19.py)
    for (size_t j = 0; j < q0.size(); j++) {
        ref->RFKickMap::_calcKick(q0[j][0], 1);
        printf("ref1"); for (auto x : ref->_offset) pf(x); printf("\n");
        ref->RFKickMap::_calcKick(q0[j][0], 0);
        printf("ref0"); for (auto x : ref->_offset) pf(x); printf("\n");
    }
    size_t napply = 0;
    for (char c : ops) {
        if (c == 'A') {
            if (napply >= q0.size()) { printf("skip\n"); continue; }   // never drive the code into UB
            d->apply();
            napply++;
            pvec("A", d->_offset);
        } else {
            printf("F");
            for (auto& m : d->getPastModulation()) { pf(m[0]); pf(m[1]); }
            printf("\n");
        }
    }
    printf("pending");
    for (auto& m : d->getPastModulation()) { pf(m[0]); pf(m[1]); }
    printf("\n");
    printf("left");
    for (auto& m : qcopy(*d)) { pf(m[0]); pf(m[1]); }
    printf("\nend\n");
}

// calcmod <id> <args> <seed>
// reseeds the map's PRNG and calls the private __calcModulation(steps); the harness draws the
// same normal variates from its own generator and evaluates the sine of the modulation argument
// with the same libm, so that the model can redo the per-entry arithmetic exactly.
static void do_calcmod()
{
    std::string id = next();
    RFArgs a = read_args();
    unsigned long seed = strtoul(next().c_str(), nullptr, 10);
    auto din = mk(a), dout = mk(a);
    auto d = mkdyn(a, din, dout);
    unconst(d->_prng).seed(seed);
    unconst(d->_dist).reset();
    auto q = d->__calcModulation(a.steps);
    std::mt19937 g(seed);
    std::normal_distribution<meshaxis_t> nd(0, 1);
    printf("case %s\n", id.c_str());
    printf("cfg"); pf(d->_syncphase); pf(d->_phasenoise); pf(d->_amplnoise); pf(d->_modampl); pf(d->_modtimedelta); printf("\n");
    printf("mod");
    { auto c = q; while (!c.empty()) { pf(c.front()[0]); pf(c.front()[1]); c.pop(); } }
    printf("\nnoise");
    for (unsigned i = 0; i < 2 * a.steps; i++) pf(nd(g));
    printf("\nsin");
    for (unsigned i = 0; i < a.steps; i++) { meshaxis_t arg = d->_modtimedelta * (i); pf(std::sin(arg)); }
    printf("\nend\n");
}

// calckick <id> <args> <phase> <ampl>
// RFKickMap::_calcKick(phase, ampl) on a static object; prints what the model needs to redo the
// arithmetic exactly: tan(angle), xcenter, bl2phase, delta0, delta1, scale1, axis0, sin values
static void do_calckick()
{
    std::string id = next();
    RFArgs a = read_args();
    float phase = nextf(), ampl = nextf();
    auto in = mk(a), out = mk(a);
    auto s = mkstatic(a, in, out);
    s->RFKickMap::_calcKick(phase, ampl);
    printf("case %s\n", id.c_str());
    pfields("fields", *s);
    printf("geom"); pf(std::tan(s->_angle)); pf((meshaxis_t)in->getAxis(0)->zerobin()); pf(s->_axis[0]->delta());
    pf(s->_axis[1]->delta()); pf(s->_axis[1]->scale("ElectronVolt")); printf(" %u %zu\n", (unsigned)s->_xsize, s->_offset.size());
    printf("axis0"); for (unsigned x = 0; x < a.n; x++) pf(s->_axis[0]->at(x)); printf("\n");
    printf("sin"); for (unsigned x = 0; x < a.n; x++) pf(std::sin(s->_axis[0]->at(x) * s->_bl2phase + phase)); printf("\n");
    pvec("offs", s->_offset);
    printf("end\n");
}

int main(int argc, char** argv)
{
    return run_main(argc, argv, {{"dynstat", do_dynstat}, {"sched", do_sched},
                                 {"calcmod", do_calcmod}, {"calckick", do_calckick}});
}
