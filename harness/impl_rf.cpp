#include "common.hpp"
#include <boost/math/constants/constants.hpp>
// Correspondence harness for the rf family (C03, RF/drift part of C08): RFKickMap (both
// constructors), DriftMap and Ruler of the repo's working tree, driven through their API.
//
// common header of both case kinds:
//   <id> <n> <nb> <it> <qmin> <qmax> <qscale> <pmin> <pmax> <pscale>
//   lin <angle> <fRF>  |  sin <revpart> <VRF> <fRF> <V0>
//   <nslip> slip_0 .. slip_{nslip-1} <E0>
// rfoffs : header <docalc> [phase ampl] -> axis facts, the two offset vectors (all nb blocks),
//                                         the sine samples the sinusoidal constructor used
// rfiter : header <K> <dump> data...   -> raw moments S0 Sx Sy (double sums) and exposed mass of every bunch
//                                         before the first and after each of K steps
//                                         (RF kick then drift); final grid if dump=1

struct Setup {
    std::string id;
    unsigned n, nb, it;
    float qmin, qmax, pmin, pmax;
    double qscale, pscale;
    bool linear;
    float angle = 0, fRF = 0, revpart = 0, VRF = 0, V0 = 0, E0 = 1;
    std::vector<meshaxis_t> slip;
};

static Setup read_setup()
{
    Setup s;
    s.id = next();
    s.n = nextl(); s.nb = nextl(); s.it = nextl();
    s.qmin = nextf(); s.qmax = nextf(); s.qscale = nextd();
    s.pmin = nextf(); s.pmax = nextf(); s.pscale = nextd();
    std::string kind = next();
    s.linear = (kind == "lin");
    if (s.linear) { s.angle = nextf(); s.fRF = nextf(); }
    else { s.revpart = nextf(); s.VRF = nextf(); s.fRF = nextf(); s.V0 = nextf(); }
    unsigned ns = nextl();
    for (unsigned i = 0; i < ns; i++) s.slip.push_back(nextf());
    s.E0 = nextf();
    return s;
}

static std::shared_ptr<PhaseSpace> grid(const Setup& s)
{
    PhaseSpace::resetSize(s.n, s.nb);
    std::vector<integral_t> filling(s.nb, 1.0f / s.nb);
    return std::make_shared<PhaseSpace>(s.qmin, s.qmax, s.qscale, s.pmin, s.pmax, s.pscale,
                                        nullptr, 1.0, 1.0, filling, 1.0);
}

static std::unique_ptr<RFKickMap> mkrf(const Setup& s, std::shared_ptr<PhaseSpace> in,
                                       std::shared_ptr<PhaseSpace> out)
{
    auto it = static_cast<SourceMap::InterpolationType>(s.it);
    if (s.linear) return std::make_unique<RFKickMap>(in, out, s.angle, s.fRF, it, false, nullptr);
    return std::make_unique<RFKickMap>(in, out, s.revpart, s.VRF, s.fRF, s.V0, it, false, nullptr);
}

// 1 iff the table apply() interpolates with is the one updateSM() builds from the CURRENT _offset
// (i.e. the map's own code called updateSM() after it last wrote _offset)
static int table_is_fresh(KickMap& km, size_t entries)
{
    std::vector<uint32_t> idx(entries);
    std::vector<float> wt(entries);
    for (size_t i = 0; i < entries; i++) { idx[i] = km._hinfo[i].index; wt[i] = km._hinfo[i].weight; }
    km.updateSM();
    for (size_t i = 0; i < entries; i++)
        if (idx[i] != km._hinfo[i].index || std::memcmp(&wt[i], &km._hinfo[i].weight, sizeof(float)) != 0) return 0;
    return 1;
}

static void do_rfoffs()
{
    Setup s = read_setup();
    int docalc = nextl();
    float cphase = 0, campl = 1;
    if (docalc) { cphase = nextf(); campl = nextf(); }
    auto g1 = grid(s), g2 = grid(s);
    auto rf = mkrf(s, g1, g2);
    // the modulated form used by DynamicRFKickMap: _calcKick(phase, ampl)
    if (docalc) rf->_calcKick(cphase, campl);
    const float sphase = docalc ? cphase : rf->_syncphase;
    DriftMap dm(g2, g1, s.slip, s.E0, static_cast<SourceMap::InterpolationType>(s.it), false, nullptr);
    printf("case %s\n", s.id.c_str());
    printf("axis");
    for (int a = 0; a < 2; a++) {
        pf(g1->getAxis(a)->zerobin()); pf(g1->getAxis(a)->delta());
        pf(g1->getAxis(a)->min()); pf(g1->getAxis(a)->max());
    }
    printf("\nscales"); pf(g1->getAxis(0)->scale("Meter")); pf(g1->getAxis(1)->scale("ElectronVolt"));
    printf("\nrfconst");
    pf(std::tan(rf->_angle)); pf(rf->_bl2phase); pf(rf->_syncphase);
    printf("\nconsts"); pd(physcons::c); pd(boost::math::constants::two_pi<double>());
    printf("\nkickdir %d %d", rf->_kickdirection == KickMap::Axis::x ? 1 : 0, dm._kickdirection == KickMap::Axis::x ? 1 : 0);
    printf("\nfresh %d %d", table_is_fresh(*rf, (size_t)s.n * s.nb * s.it), table_is_fresh(dm, (size_t)s.n * s.nb * s.it));
    printf("\nlast %u %u\n", rf->_lastbunch, dm._lastbunch);
    printf("sizes %zu %zu\n", rf->_offset.size(), dm._offset.size());
    printf("q"); for (unsigned x = 0; x < s.n; x++) pf(g1->getAxis(0)->at(x));
    printf("\np"); for (unsigned y = 0; y < s.n; y++) pf(g1->getAxis(1)->at(y));
    printf("\nsinv");
    for (unsigned x = 0; x < s.n; x++) pf(std::sin(g1->getAxis(0)->at(x) * rf->_bl2phase + sphase));
    printf("\nrf"); for (auto o : rf->_offset) pf(o);
    printf("\ndrift"); for (auto o : dm._offset) pf(o);
    printf("\nend\n");
}

// raw moments S0 Sx Sy of every bunch (double sums of the float cells)
static std::vector<std::array<double,3>> moments(const Setup& s, const PhaseSpace& g)
{
    std::vector<std::array<double,3>> res;
    const meshdata_t* d = g.getData();
    for (unsigned b = 0; b < s.nb; b++) {
        double s0 = 0, sx = 0, sy = 0;
        for (unsigned x = 0; x < s.n; x++) {
            double r0 = 0, ry = 0;
            for (unsigned y = 0; y < s.n; y++) {
                double v = d[(size_t)b * s.n * s.n + (size_t)x * s.n + y];
                r0 += v; ry += v * y;
            }
            s0 += r0; sx += r0 * x; sy += ry;
        }
        res.push_back({s0, sx, sy});
    }
    return res;
}

// |data| of bunch b in the cells from which the next kick can reach over the border: distance to
// the border along the kick direction < |offset of the row| + 3 (the stencil spans -1..+2)
static double exposed(const Setup& s, const PhaseSpace& g, const KickMap& km, bool alongy, unsigned b)
{
    const meshdata_t* d = g.getData();
    double e = 0;
    for (unsigned x = 0; x < s.n; x++)
        for (unsigned y = 0; y < s.n; y++) {
            float o = alongy ? km._offset[std::min(b, km._lastbunch) * s.n + x] : km._offset[y];
            unsigned reach = (unsigned)std::ceil(std::fabs(o)) + 3;
            unsigned pos = alongy ? y : x;
            if (pos < reach || pos + reach >= s.n)
                e += std::fabs((double)d[(size_t)b * s.n * s.n + (size_t)x * s.n + y]);
        }
    return e;
}

static void do_rfiter()
{
    Setup s = read_setup();
    unsigned K = nextl();
    int dump = nextl();
    // (family st3kick) wired as main() wires an impedance-free, damping-free run: grid_t1 is built and filled first and its
    // caches (bunch / energy profile, integral) are those of the START distribution; grid_t2 and grid_t3 are COPIES of it
    // (copy constructor: data + caches, computed once); the wake stand-in is an Identity grid_t1 -> grid_t2, the RF kick maps
    // grid_t2 -> grid_t1, the drift grid_t1 -> grid_t3, the Fokker-Planck stand-in is an Identity grid_t3 -> grid_t1, and after
    // every step only grid_t1's bunch profile is refreshed (main.cpp: grid_t1->updateXProjection()).  Whatever a kick reads
    // from its input grid besides the data is therefore as stale here as in the program: the RF kick reads grid_t2, whose
    // profile dates from set-up.  The blobs have compact support, so the start profile has exact-zero columns which the orbit
    // later carries charge into.  (Identity copies bit for bit: the moments are those of the former two-grid chain.)
    auto g1 = grid(s);
    for (size_t i = 0; i < (size_t)s.nb * s.n * s.n; i++) g1->getData()[i] = nextf();
    g1->updateXProjection(); g1->updateYProjection(); g1->integrate();
    auto g2 = std::make_shared<PhaseSpace>(*g1);
    auto g3 = std::make_shared<PhaseSpace>(*g1);
    Identity wm(g1, g2, nullptr);
    auto rf = mkrf(s, g2, g1);
    DriftMap dm(g1, g3, s.slip, s.E0, static_cast<SourceMap::InterpolationType>(s.it), false, nullptr);
    Identity fpm(g3, g1, nullptr);
    printf("case %s\n", s.id.c_str());
    printf("rfconst"); pf(std::tan(rf->_angle)); pf(rf->_bl2phase); pf(rf->_syncphase);
    printf("\naxis");
    for (int a = 0; a < 2; a++) { pf(g1->getAxis(a)->zerobin()); pf(g1->getAxis(a)->delta()); }
    printf("\n");
    // line k: moments of the state after k steps, then the mass exposed to clipping in step k+1
    for (unsigned k = 0; k <= K; k++) {
        auto m = moments(s, *g1);
        std::vector<double> ex(s.nb, 0.0);
        if (k < K) {
            wm.apply();
            for (unsigned b = 0; b < s.nb; b++) ex[b] = exposed(s, *g2, *rf, true, b);
            rf->apply();
            for (unsigned b = 0; b < s.nb; b++) ex[b] += exposed(s, *g1, dm, false, b);
            dm.apply();
            fpm.apply();
            g1->updateXProjection();
        }
        printf("m");
        for (unsigned b = 0; b < s.nb; b++) { pd(m[b][0]); pd(m[b][1]); pd(m[b][2]); pd(ex[b]); }
        printf("\n");
    }
    if (dump) {
        printf("out");
        for (size_t i = 0; i < (size_t)s.nb * s.n * s.n; i++) pf(g1->getData()[i]);
        printf("\n");
    }
    printf("end\n");
}

int main(int argc, char** argv)
{
    return run_main(argc, argv, {{"rfoffs", do_rfoffs}, {"rfiter", do_rfiter}});
}
