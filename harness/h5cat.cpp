// h5cat FILE [--values] [--only PREFIX]...
// Text dump of an HDF5 results file (no h5dump/h5py in this sandbox).  One line per object:
//   group <path>
//   attr <path> <name> <type> <n> v...
//   dataset <path> <type:f32|f64|i32|u32|i64|u64|str|other> rank d0 d1 .. fnv=<hash of raw bytes>
//   chunk <path> rank c0 c1 ..          (storage layout: chunk dimensions; only for chunked datasets)
//   data <path> v...                    (only with --values; floats as C99 hex floats)
// Values are read in the file's native memory type; nothing is converted through decimal text.
#include <hdf5.h>
#include <cstdio>
#include <cstdlib>
#include <cstring>
#include <cstdint>
#include <string>
#include <vector>

static bool want_values = false;
static std::vector<std::string> only;

static const char* tname(hid_t t, hid_t* memt, size_t* sz)
{
    H5T_class_t c = H5Tget_class(t);
    size_t s = H5Tget_size(t);
    *sz = s;
    if (c == H5T_FLOAT) {
        if (s == 4) { *memt = H5T_NATIVE_FLOAT; return "f32"; }
        if (s == 8) { *memt = H5T_NATIVE_DOUBLE; return "f64"; }
    } else if (c == H5T_INTEGER) {
        bool sg = H5Tget_sign(t) != H5T_SGN_NONE;
        if (s == 4) { *memt = sg ? H5T_NATIVE_INT32 : H5T_NATIVE_UINT32; return sg ? "i32" : "u32"; }
        if (s == 8) { *memt = sg ? H5T_NATIVE_INT64 : H5T_NATIVE_UINT64; return sg ? "i64" : "u64"; }
        if (s == 1) { *memt = sg ? H5T_NATIVE_INT8 : H5T_NATIVE_UINT8; return sg ? "i8" : "u8"; }
        if (s == 2) { *memt = sg ? H5T_NATIVE_INT16 : H5T_NATIVE_UINT16; return sg ? "i16" : "u16"; }
    } else if (c == H5T_STRING) {
        *memt = -1; return "str";
    }
    *memt = -1;
    return "other";
}

static void print_vals(const char* tn, const void* buf, size_t n)
{
    for (size_t i = 0; i < n; i++) {
        if (!strcmp(tn, "f32")) printf(" %a", (double)((const float*)buf)[i]);
        else if (!strcmp(tn, "f64")) printf(" %a", ((const double*)buf)[i]);
        else if (!strcmp(tn, "i32")) printf(" %d", ((const int32_t*)buf)[i]);
        else if (!strcmp(tn, "u32")) printf(" %u", ((const uint32_t*)buf)[i]);
        else if (!strcmp(tn, "i64")) printf(" %lld", (long long)((const int64_t*)buf)[i]);
        else if (!strcmp(tn, "u64")) printf(" %llu", (unsigned long long)((const uint64_t*)buf)[i]);
        else if (!strcmp(tn, "i8")) printf(" %d", (int)((const int8_t*)buf)[i]);
        else if (!strcmp(tn, "u8")) printf(" %u", (unsigned)((const uint8_t*)buf)[i]);
        else if (!strcmp(tn, "i16")) printf(" %d", (int)((const int16_t*)buf)[i]);
        else if (!strcmp(tn, "u16")) printf(" %u", (unsigned)((const uint16_t*)buf)[i]);
    }
}

static uint64_t fnv(const void* p, size_t n)
{
    uint64_t h = 1469598103934665603ULL;
    const unsigned char* b = (const unsigned char*)p;
    for (size_t i = 0; i < n; i++) { h ^= b[i]; h *= 1099511628211ULL; }
    return h;
}

static void dump_attrs(hid_t obj, const std::string& path)
{
    int na = H5Aget_num_attrs(obj);
    for (int i = 0; i < na; i++) {
        hid_t a = H5Aopen_by_idx(obj, ".", H5_INDEX_NAME, H5_ITER_INC, (hsize_t)i, H5P_DEFAULT, H5P_DEFAULT);
        char nm[256];
        H5Aget_name(a, sizeof nm, nm);
        hid_t t = H5Aget_type(a);
        hid_t sp = H5Aget_space(a);
        hssize_t n = H5Sget_simple_extent_npoints(sp);
        hid_t memt; size_t sz;
        const char* tn = tname(t, &memt, &sz);
        printf("attr %s %s %s %lld", path.c_str(), nm, tn, (long long)n);
        if (memt >= 0 && n > 0) {
            std::vector<char> buf((size_t)n * sz);
            H5Aread(a, memt, buf.data());
            print_vals(tn, buf.data(), (size_t)n);
        } else if (!strcmp(tn, "str")) {
            if (H5Tis_variable_str(t) > 0) {
                char* s = nullptr;
                hid_t mt = H5Tcopy(H5T_C_S1); H5Tset_size(mt, H5T_VARIABLE);
                H5Aread(a, mt, &s);
                printf(" \"%s\"", s ? s : "");
                H5Tclose(mt);
            } else {
                std::vector<char> buf(sz + 1, 0);
                H5Aread(a, t, buf.data());
                printf(" \"%s\"", buf.data());
            }
        }
        printf("\n");
        H5Sclose(sp); H5Tclose(t); H5Aclose(a);
    }
}

static bool selected(const std::string& path)
{
    if (only.empty()) return true;
    for (auto& p : only) if (path.compare(0, p.size(), p) == 0) return true;
    return false;
}

static void walk(hid_t loc, const std::string& path)
{
    H5G_info_t gi;
    H5Gget_info(loc, &gi);
    for (hsize_t i = 0; i < gi.nlinks; i++) {
        char nm[512];
        H5Lget_name_by_idx(loc, ".", H5_INDEX_NAME, H5_ITER_INC, i, nm, sizeof nm, H5P_DEFAULT);
        std::string p = path + "/" + nm;
        H5O_info_t oi;
#if H5_VERSION_GE(1,12,0)
        H5Oget_info_by_name(loc, nm, &oi, H5O_INFO_BASIC, H5P_DEFAULT);
#else
        H5Oget_info_by_name(loc, nm, &oi, H5P_DEFAULT);
#endif
        if (oi.type == H5O_TYPE_GROUP) {
            hid_t g = H5Gopen2(loc, nm, H5P_DEFAULT);
            printf("group %s\n", p.c_str());
            dump_attrs(g, p);
            walk(g, p);
            H5Gclose(g);
        } else if (oi.type == H5O_TYPE_DATASET) {
            hid_t d = H5Dopen2(loc, nm, H5P_DEFAULT);
            hid_t t = H5Dget_type(d);
            hid_t sp = H5Dget_space(d);
            int rank = H5Sget_simple_extent_ndims(sp);
            std::vector<hsize_t> dims(rank > 0 ? rank : 1, 0);
            if (rank > 0) H5Sget_simple_extent_dims(sp, dims.data(), nullptr);
            size_t n = 1;
            for (int k = 0; k < rank; k++) n *= (size_t)dims[k];
            hid_t memt; size_t sz;
            const char* tn = tname(t, &memt, &sz);
            std::vector<char> buf;
            uint64_t h = 0;
            if (memt >= 0 && n > 0) {
                buf.resize(n * sz);
                H5Dread(d, memt, H5S_ALL, H5S_ALL, H5P_DEFAULT, buf.data());
                h = fnv(buf.data(), buf.size());
            }
            printf("dataset %s %s %d", p.c_str(), tn, rank);
            for (int k = 0; k < rank; k++) printf(" %llu", (unsigned long long)dims[k]);
            printf(" fnv=%016llx\n", (unsigned long long)h);
            {
                // storage layout: a flush that spans several chunks / ends on a chunk boundary is a case of its own
                hid_t pl = H5Dget_create_plist(d);
                if (pl >= 0) {
                    if (rank > 0 && H5Pget_layout(pl) == H5D_CHUNKED) {
                        std::vector<hsize_t> ch(rank, 0);
                        if (H5Pget_chunk(pl, rank, ch.data()) == rank) {
                            printf("chunk %s %d", p.c_str(), rank);
                            for (int k = 0; k < rank; k++) printf(" %llu", (unsigned long long)ch[k]);
                            printf("\n");
                        }
                    }
                    H5Pclose(pl);
                }
            }
            dump_attrs(d, p);
            if (want_values && selected(p) && memt >= 0 && n > 0) {
                printf("data %s", p.c_str());
                print_vals(tn, buf.data(), n);
                printf("\n");
            }
            H5Sclose(sp); H5Tclose(t); H5Dclose(d);
        }
    }
}

int main(int argc, char** argv)
{
    if (argc < 2) { fprintf(stderr, "usage: h5cat FILE [--values] [--only PREFIX]...\n"); return 2; }
    for (int i = 2; i < argc; i++) {
        if (!strcmp(argv[i], "--values")) want_values = true;
        else if (!strcmp(argv[i], "--only") && i + 1 < argc) only.push_back(argv[++i]);
    }
    H5Eset_auto2(H5E_DEFAULT, nullptr, nullptr);
    if (H5Fis_hdf5(argv[1]) <= 0) { printf("error not-hdf5 %s\n", argv[1]); return 1; }
    hid_t f = H5Fopen(argv[1], H5F_ACC_RDONLY, H5P_DEFAULT);
    if (f < 0) { printf("error cannot-open %s\n", argv[1]); return 1; }
    hid_t root = H5Gopen2(f, "/", H5P_DEFAULT);
    dump_attrs(root, "/");
    walk(root, "");
    H5Gclose(root);
    H5Fclose(f);
    return 0;
}
