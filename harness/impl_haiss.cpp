#include "common.hpp"

// ---------------------------------------------------------------------------------------
// One simulation step at API level, wired as src/main.cpp wires it (nb >= 1 bunches in buckets with gaps):
//   grid_t1 --wm--> grid_t2 --rfm--> grid_t1 --drm--> grid_t3 --fpm--> grid_t1
//   wake: ElectricField (physical-units constructor) + WakePotentialMap::update()
//
// (case format: see do_step)
//   ztype: const zr zi | rw s xi radius | tab (nmax pairs re im)
// prints everything the check compares (hex floats).
static std::shared_ptr<Impedance> read_impedance(size_t nmax, double fmax, double f_rev)
{
    std::string zt = next();
    if (zt == "const") {
        float zr = nextf(), zi = nextf();
        return std::make_shared<ConstImpedance>(nmax, fmax, impedance_t(zr, zi));
    }
    if (zt == "rw") {
        double s = nextd(), xi = nextd(), radius = nextd();
        // as makeImpedance: ResistiveWall(nfreqs,frev,fmax,physcons::c/frev,s,xi,radius)
        return std::make_shared<ResistiveWall>(nmax, f_rev, fmax, physcons::c / f_rev, s, xi, radius);
    }
    if (zt == "tab") {
        std::vector<impedance_t> z(nmax);
        for (auto& v : z) { float re = nextf(), im = nextf(); v = impedance_t(re, im); }
        return std::make_shared<Impedance>(z, fmax);
    }
    fprintf(stderr, "unknown impedance type %s\n", zt.c_str());
    exit(3);
}

static void print_grid(const char* tag, std::shared_ptr<PhaseSpace> g, size_t cells)
{
    printf("%s", tag);
    for (size_t i = 0; i < cells; i++) pf(g->getData()[i]);
    printf("\n");
}

// step <id> <n> <nb> <it> <nmax> <spacing_bins> <buckets (nb)> <filling (nb)> <order: 4 tokens of W R D F>
//      <ztype> <zparams...> Ib E0 sE dt f_rev f_RF bl pqsize angle e1 deriv shiftx shifty  data (nb*n*n floats)
// nb bunches on the grid (bunch-major), buckets[b] the bucket number of bunch b, spacing_bins the distance of two
// buckets in grid cells, filling the normalised bunch currents, Ib the accumulated current: what main() hands to
// PhaseSpace::setSize / PhaseSpace / ElectricField for a filling pattern (src/main.cpp:256-330, 787-797).
static void do_step()
{
    std::string id = next();
    unsigned n = nextl(), nb = nextl(), it = nextl();
    size_t nmax = nextl();
    unsigned spacing = nextl();
    std::vector<uint32_t> buckets(nb);
    for (auto& b : buckets) b = nextl();
    std::vector<integral_t> bunches(nb);
    for (auto& f : bunches) f = nextf();
    std::string order[4];
    for (auto& o : order) o = next();
    double Ib, E0, sE, dt, f_rev, f_RF, bl, pqsize;
    // token order: ztype zparams Ib E0 sE dt f_rev f_RF bl pqsize angle e1 deriv data.  fmax needs bl and
    // pqsize, so the impedance tokens are skipped first and parsed once fmax is known.
    size_t zpos = tp;
    {
        std::string zt = next();
        if (zt == "const") tp += 2; else if (zt == "rw") tp += 3; else if (zt == "tab") tp += 2 * nmax;
        else { fprintf(stderr, "unknown impedance type %s\n", zt.c_str()); exit(3); }
    }
    Ib = nextd(); E0 = nextd(); sE = nextd(); dt = nextd(); f_rev = nextd(); f_RF = nextd();
    bl = nextd(); pqsize = nextd();
    meshaxis_t angle = nextf();
    double e1 = nextd();
    unsigned deriv = nextl();
    const double shx = nextd(), shy = nextd();        // grid shifts in cells, as --PhaseSpaceShiftX/Y
    size_t after = tp;
    const double fmax = n * physcons::c / (pqsize * bl);         // main.cpp: ps_bins*c/(pqsize*bl)
    tp = zpos;
    auto imp = read_impedance(nmax, fmax, f_rev);
    tp = after;

    const double dE = sE * E0;
    const double Qb = Ib / f_rev;
    const double revolutionpart = f_rev * dt;
    const double half = pqsize / 2;
    const size_t cells = (size_t)nb * n * n, rows = (size_t)nb * n;
    PhaseSpace::resetSize(n, nb);
    // main.cpp:187-193: qcenter = -ShiftX*pqsize/(ps_bins-1), qmin/qmax = qcenter -/+ pqsize/2 (same for p)
    const double qcenter = -shx * pqsize / (n - 1), pcenter = -shy * pqsize / (n - 1);
    auto g1 = std::make_shared<PhaseSpace>(qcenter - half, qcenter + half, bl, pcenter - half, pcenter + half, dE,
                                           nullptr, Qb, Ib, bunches, 1.0);
    for (size_t i = 0; i < cells; i++) g1->getData()[i] = nextf();
    auto g2 = std::make_shared<PhaseSpace>(*g1);
    auto g3 = std::make_shared<PhaseSpace>(*g1);
    const auto itype = static_cast<SourceMap::InterpolationType>(it);

    RFKickMap rfm(g2, g1, angle, f_RF, itype, false, nullptr);
    const std::vector<meshaxis_t> slip{{angle, 0 * angle, 0 * angle}};
    DriftMap drm(g1, g3, slip, E0, itype, false, nullptr);
    FokkerPlanckMap fpm(g3, g1, n, n, FokkerPlanckMap::FPType::full, FokkerPlanckMap::FPTracking::none, e1,
                        static_cast<FokkerPlanckMap::DerivationType>(deriv), nullptr);
    ElectricField field(g1, imp, buckets, spacing, nullptr, f_rev, revolutionpart, Ib, E0, sE, dt);
    WakePotentialMap wkm(g1, g2, &field, itype, false, nullptr);

    // "Starting the simulation": projection of the current grid, then the loop body
    g1->updateXProjection();
    g1->integrate();
    wkm.update();

    printf("case %s\n", id.c_str());
    printf("axes"); pf(g1->getDelta(0)); pf(g1->getDelta(1)); pd(g1->getScale(0, "Meter")); pd(g1->getScale(1, "ElectronVolt"));
    pf(g1->getAxis(0)->zerobin()); pf(g1->getAxis(1)->zerobin()); printf("\n");
    printf("scaling"); pf(field.getWakeScaling()); printf(" %zu\n", field.getNMax());
    printf("tan"); pf(std::tan(rfm._angle)); printf("\n");
    printf("proj"); for (unsigned b = 0; b < nb; b++) for (unsigned x = 0; x < n; x++) pf(g1->getProjection(0)[b][x]); printf("\n");
    printf("padded"); for (size_t i = 0; i < nmax; i++) pf(field._bp_padded[i]); printf("\n");
    printf("imp"); for (size_t i = 0; i <= nmax / 2; i++) { pf((*imp)[i].real()); pf((*imp)[i].imag()); } printf("\n");
    printf("nyq"); pf(field._wakelosses[nmax / 2].real()); pf(field._wakelosses[nmax / 2].imag()); printf("\n");
    printf("wp"); for (unsigned b = 0; b < nb; b++) for (unsigned x = 0; x < n; x++) pf(field._wakepotential[b][x]); printf("\n");
    printf("sizes %zu %zu %zu\n", wkm._offset.size(), rfm._offset.size(), drm._offset.size());
    printf("woff"); for (size_t i = 0; i < rows; i++) pf(wkm._offset[i]); printf("\n");
    printf("force"); for (size_t i = 0; i < rows; i++) pf(wkm.getForce()[i]); printf("\n");
    printf("rfoff"); for (size_t i = 0; i < rows; i++) pf(rfm._offset[i]); printf("\n");
    printf("droff"); for (unsigned y = 0; y < n; y++) pf(drm._offset[y]); printf("\n");
    printf("wtab"); for (size_t k = 0; k < rows * it; k++) printf(" %u", wkm._hinfo[k].index); printf("\n");
    printf("rtab"); for (size_t k = 0; k < rows * it; k++) printf(" %u", rfm._hinfo[k].index); printf("\n");

    for (auto& o : order) {
        if (o == "W") { wkm.apply(); print_grid("gW", g2, cells); }
        else if (o == "R") { rfm.apply(); print_grid("gR", g1, cells); }
        else if (o == "D") { drm.apply(); print_grid("gD", g3, cells); }
        else if (o == "F") { fpm.apply(); print_grid("gF", g1, cells); }
        else { fprintf(stderr, "unknown map %s\n", o.c_str()); exit(3); }
    }
    printf("end\n");
}

int main(int argc, char** argv)
{
    return run_main(argc, argv, {{"step", do_step}});
}
