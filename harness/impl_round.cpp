#include "common.hpp"
#include <thread>

// Family round: the real SourceMap::calcCoefficiants against the PROVED per-cell rounding bounds.
//
// coeffsweepb <id> <it> <nthreads> <k> <lo> <hi> <stride> ; 2^k * it bounds (hex integers, units of 2^-64)
//   every stride-th binary32 bit pattern b = lo + i*stride < hi (0 .. 0x3f800000, stride 1 = all floats in [0,1)) through
//   calcCoefficiants; cell c = floor(f * 2^k); with E_j the proved bounds of that cell
//   (C02_cell_table_sound) the sweep evaluates, in double,
//       each:   |w_j - L_j(f)| / E_j           L_j = Lagrange basis polynomial on the nodes {m - (it-1)/2}
//       unity:  |sum_j w_j - 1| / sum_j E_j
//       moment: |sum_j w_j (j-c)^q - f^q| / sum_j E_j |j-c|^q ,  q < it
//   and prints the maxima (with the f attaining them) and the list of SUSPECTS: offsets where one of the
//   ratios exceeds 1 - 2^-10 or is not finite.  The double evaluation only pre-selects: every suspect
//   is re-decided by the Python side in exact rational arithmetic, so no false alarm and no miss can come
//   from the 1e-15 evaluation error of the doubles (the bounds are >= 1e-12 wherever the weight is not exact).
// prints: n <count> ; nsus <number of suspects> ; each <ratio> <f> ; unity <ratio> <f> ; moment <ratio> <f> ; zero <0|1> ; suspects f...
static void do_coeffsweepb()
{
    std::string id = next();
    unsigned it = nextl();
    unsigned nth = nextl();
    unsigned k = nextl();
    uint64_t lo = strtoull(next().c_str(), nullptr, 10), hi = strtoull(next().c_str(), nullptr, 10);
    uint64_t stride = strtoull(next().c_str(), nullptr, 10);
    uint64_t total = (hi - lo + stride - 1) / stride;
    size_t ncell = (size_t)1 << k;
    std::vector<double> E(ncell * it);
    for (auto& e : E) {
        unsigned long long v = strtoull(next().c_str(), nullptr, 16);
        e = ldexp((double)v, -64);
        if ((unsigned long long)ldexp(e, 64) != v) { fprintf(stderr, "bound not representable as a double\n"); exit(3); }
    }
    struct R { double re = 0, ru = 0, rm = 0; float fe = 0, fu = 0, fm = 0; uint64_t cnt = 0, nsus = 0; std::vector<float> sus; };
    std::vector<R> rs(nth);
    std::vector<std::thread> th;
    const int c = (it - 1) / 2;
    const double lim = 1.0 - ldexp(1.0, -10);
    for (unsigned t = 0; t < nth; t++) {
        th.emplace_back([&, t]() {
            R& r = rs[t];
            uint64_t a = total * t / nth, b = total * (t + 1) / nth;
            for (uint64_t i = a; i < b; i++) {
                uint32_t bits = (uint32_t)(lo + i * stride);
                float f; memcpy(&f, &bits, 4);
                interpol_t w[4] = {0, 0, 0, 0};
                SourceMap::calcCoefficiants(w, f, it);
                size_t cell = (size_t)ldexp((double)f, k);
                if (cell >= ncell) cell = ncell - 1;
                const double* e = &E[cell * it];
                bool sus = false;
                double x = (double)f, s = 0, se = 0;
                for (unsigned j = 0; j < it; j++) {
                    double L = 1;
                    for (unsigned m = 0; m < it; m++)
                        if (m != j) L *= (x - ((int)m - c)) / (double)((int)j - (int)m);
                    double d = fabs((double)w[j] - L);
                    double q = e[j] > 0 ? d / e[j] : (d > 0 ? INFINITY : 0);
                    if (!(q <= lim)) sus = true;
                    if (q > r.re || q != q) { r.re = q; r.fe = f; }
                    s += (double)w[j]; se += e[j];
                }
                {
                    double d = fabs(s - 1.0);
                    double q = se > 0 ? d / se : (d > 0 ? INFINITY : 0);
                    if (!(q <= lim)) sus = true;
                    if (q > r.ru || q != q) { r.ru = q; r.fu = f; }
                }
                double fq = x;
                for (unsigned p = 1; p < it; p++) {
                    double m = 0, me = 0;
                    for (unsigned j = 0; j < it; j++) {
                        double pw = pow((double)((int)j - c), (double)p);
                        m += (double)w[j] * pw; me += e[j] * fabs(pw);
                    }
                    double d = fabs(m - fq);
                    double q = me > 0 ? d / me : (d > 0 ? INFINITY : 0);
                    if (!(q <= lim)) sus = true;
                    if (q > r.rm || q != q) { r.rm = q; r.fm = f; }
                    fq *= x;
                }
                if (sus) { r.nsus++; if (r.sus.size() < 64) r.sus.push_back(f); }
                r.cnt++;
            }
        });
    }
    for (auto& x : th) x.join();
    R a;
    for (auto& r : rs) {
        a.cnt += r.cnt; a.nsus += r.nsus;
        if (r.re > a.re || r.re != r.re) { a.re = r.re; a.fe = r.fe; }
        if (r.ru > a.ru || r.ru != r.ru) { a.ru = r.ru; a.fu = r.fu; }
        if (r.rm > a.rm || r.rm != r.rm) { a.rm = r.rm; a.fm = r.fm; }
        for (float f : r.sus) if (a.sus.size() < 256) a.sus.push_back(f);
    }
    interpol_t w0[4] = {0, 0, 0, 0};
    SourceMap::calcCoefficiants(w0, 0.0f, it);
    bool unit = true;
    for (unsigned j = 0; j < it; j++) unit = unit && (w0[j] == ((int)j == c ? 1.0f : 0.0f));
    printf("case %s\nn %llu\nnsus %llu\neach %a %a\nunity %a %a\nmoment %a %a\nzero %d\nsuspects", id.c_str(), (unsigned long long)a.cnt,
           (unsigned long long)a.nsus, a.re, (double)a.fe, a.ru, (double)a.fu, a.rm, (double)a.fm, unit ? 1 : 0);
    for (float f : a.sus) pf(f);
    printf("\nend\n");
}

int main(int argc, char** argv)
{
    return run_main(argc, argv, {{"coeffsweepb", do_coeffsweepb}});
}
