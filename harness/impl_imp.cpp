#include "common.hpp"
// Impedance family (C16): every model class and the factory are run through the repo's own
// translation units; sample vectors are printed as hex floats (re im pairs).

static void pvec(const char* tag, const std::vector<impedance_t>& v)
{
    printf("%s", tag);
    for (auto& z : v) { pf(z.real()); pf(z.imag()); }
    printf("\n");
}

static void pimp(const char* tag, const Impedance& z)
{
    // nFreqs() and size() are reported separately: the property speaks about both
    printf("%s_n %zu %zu\n", tag, z.nFreqs(), z.size());
    pvec(tag, z.impedance());
}

// model <id> fs n f_rev f_max | rw n f0 f_max L s xi b | coll n f_max outer inner
//            | const n f_max re im | pp n f0 f_max g
static void do_model()
{
    std::string id = next();
    std::string kind = next();
    size_t n = nextl();
    printf("case %s\n", id.c_str());
    if (kind == "fs") {
        frequency_t frev = nextd(), fmax = nextd();
        FreeSpaceCSR z(n, frev, fmax);
        pimp("vec", z);
    } else if (kind == "rw") {
        frequency_t f0 = nextd(), fmax = nextd();
        double L = nextd(), s = nextd(), xi = nextd(), b = nextd();
        ResistiveWall z(n, f0, fmax, L, s, xi, b);
        pimp("vec", z);
    } else if (kind == "coll") {
        frequency_t fmax = nextd();
        double outer = nextd(), inner = nextd();
        CollimatorImpedance z(n, fmax, outer, inner);
        pimp("vec", z);
    } else if (kind == "const") {
        frequency_t fmax = nextd();
        float re = nextd(), im = nextd();
        ConstImpedance z(n, fmax, impedance_t(re, im));
        pimp("vec", z);
    } else if (kind == "pp") {
        frequency_t f0 = nextd(), fmax = nextd();
        double g = nextd();
        ParallelPlatesCSR z(n, f0, fmax, g);
        pimp("vec", z);
    } else {
        fprintf(stderr, "unknown model kind %s\n", kind.c_str());
        exit(3);
    }
    printf("end\n");
}

// Reading past the end of a vector is undefined; to make such a read visible in the values
// (rather than depend on what the allocator last had there) the free lists are filled with
// a large non-zero float pattern before the factory runs.
static void dirty_heap(size_t n)
{
    std::vector<std::vector<float>*> junk;
    for (size_t k = 1; k <= 2 * n + 8; k++)
        for (int rep = 0; rep < 3; rep++) junk.push_back(new std::vector<float>(k, 3.0e38f));
    for (auto* p : junk) delete p;
}

// factory <id> n fmax R_bend frev gap use_csr s xi rcoll file|-
// prints the factory's result and, separately, every contribution constructed directly
// with the arguments the factory documents (parts that cannot be constructed for the given
// parameters are omitted: parallel plates needs gap > 0).
static void do_factory()
{
    std::string id = next();
    size_t n = nextl();
    frequency_t fmax = nextd();
    double R = nextd(), frev = nextd(), gap = nextd();
    bool use_csr = nextl() != 0;
    double s = nextd(), xi = nextd(), rc = nextd();
    std::string file = next();
    if (file == "-") file = "";
    printf("case %s\n", id.c_str());
    dirty_heap(n);
    std::streambuf* old = std::cout.rdbuf(nullptr);   // Display::printText is chatty
    auto z = makeImpedance(n, nullptr, fmax, R, frev, gap, use_csr, s, xi, rc, file);
    std::cout.rdbuf(old);
    std::cout.clear();
    if (z) pimp("out", *z); else printf("null\n");
    const double f0 = physcons::c / (2 * M_PI * R);
    const double radius = std::abs(gap / 2);
    { FreeSpaceCSR p(n, f0, fmax); pimp("fs", p); }
    if (gap > 0) { ParallelPlatesCSR p(n, f0, fmax, gap); pimp("pp", p); }
    { ResistiveWall p(n, frev, fmax, physcons::c / frev, s, xi, radius); pimp("rw", p); }
    { CollimatorImpedance p(n, fmax, radius, rc); pimp("coll", p); }
    if (file != "") { Impedance p(file, fmax); pimp("file", p); }
    printf("end\n");
}

// sum <id> n m ; lhs (2n floats) ; rhs (2m floats): lhs += rhs through Impedance::operator+=
// (m >= n only: a shorter right-hand side is read past its end)
static void do_sum()
{
    std::string id = next();
    size_t n = nextl(), m = nextl();
    std::vector<impedance_t> a(n), b(m);
    for (auto& z : a) { float re = nextd(), im = nextd(); z = impedance_t(re, im); }
    for (auto& z : b) { float re = nextd(), im = nextd(); z = impedance_t(re, im); }
    dirty_heap(n);
    Impedance za(a, 1e9), zb(b, 1e9);
    za += zb;
    printf("case %s\n", id.c_str());
    pimp("out", za);
    pimp("rhs", zb);
    printf("end\n");
}

// wake <id> nx nmax KIND sigma_cells x0 ...   impulse response (C16 causality): a narrow Gaussian line
// density centred at cell x0 of an nx grid, field object with the impedance on nmax samples, single bunch at
// padded offset 0; prints the wake potential on the nx cells.
//   KIND = fs f0 fmax | rw f0 fmax L s xi b | coll fmax outer inner | pp f0 fmax g
//        | fac fmax R frev gap use_csr s xi rcoll   (makeImpedance without a file: "wake" of the result or
//          "null", and "wake_<part>" of every contribution constructed as do_factory does)
static void wake_of(const char* tag, std::shared_ptr<Impedance> z, unsigned nx, double sigma, double x0)
{
    auto ps = mkps(nx, 1);
    std::vector<projection_t> prof(nx);
    double tot = 0;
    for (unsigned x = 0; x < nx; x++) { prof[x] = std::exp(-0.5 * (x - x0) * (x - x0) / (sigma * sigma)); tot += prof[x]; }
    for (unsigned x = 0; x < nx; x++) ps->_projection[0][0][x] = prof[x] / tot;
    std::streambuf* old = std::cout.rdbuf(nullptr);
    ElectricField ef(ps, z, {0}, 0, nullptr, 1e6, 0.1, 1e-3, 1e9, 1e-3, 1e-12);
    std::cout.rdbuf(old);
    std::cout.clear();
    meshaxis_t* w = ef.wakePotential();
    printf("%s", tag);
    for (unsigned x = 0; x < nx; x++) pf(w[x]);
    printf("\n");
}

static void do_wake()
{
    std::string id = next();
    unsigned nx = nextl();
    size_t nmax = nextl();
    std::string kind = next();
    double sigma = nextd(), x0 = nextd();
    printf("case %s\n", id.c_str());
    if (kind == "fs") {
        frequency_t f0 = nextd(), fmax = nextd();
        wake_of("wake", std::make_shared<FreeSpaceCSR>(nmax, f0, fmax), nx, sigma, x0);
    } else if (kind == "rw") {
        frequency_t f0 = nextd(), fmax = nextd();
        double L = nextd(), s = nextd(), xi = nextd(), b = nextd();
        wake_of("wake", std::make_shared<ResistiveWall>(nmax, f0, fmax, L, s, xi, b), nx, sigma, x0);
    } else if (kind == "coll") {
        frequency_t fmax = nextd();
        double outer = nextd(), inner = nextd();
        wake_of("wake", std::make_shared<CollimatorImpedance>(nmax, fmax, outer, inner), nx, sigma, x0);
    } else if (kind == "pp") {
        frequency_t f0 = nextd(), fmax = nextd();
        double g = nextd();
        wake_of("wake", std::make_shared<ParallelPlatesCSR>(nmax, f0, fmax, g), nx, sigma, x0);
    } else if (kind == "fac") {
        frequency_t fmax = nextd();
        double R = nextd(), frev = nextd(), gap = nextd();
        bool use_csr = nextl() != 0;
        double s = nextd(), xi = nextd(), rc = nextd();
        std::streambuf* old = std::cout.rdbuf(nullptr);
        std::shared_ptr<Impedance> z = makeImpedance(nmax, nullptr, fmax, R, frev, gap, use_csr, s, xi, rc, "");
        std::cout.rdbuf(old);
        std::cout.clear();
        if (z) wake_of("wake", z, nx, sigma, x0); else printf("null\n");
        const double f0 = physcons::c / (2 * M_PI * R);
        const double radius = std::abs(gap / 2);
        wake_of("wake_fs", std::make_shared<FreeSpaceCSR>(nmax, f0, fmax), nx, sigma, x0);
        if (gap > 0) wake_of("wake_pp", std::make_shared<ParallelPlatesCSR>(nmax, f0, fmax, gap), nx, sigma, x0);
        if (s > 0) wake_of("wake_rw", std::make_shared<ResistiveWall>(nmax, frev, fmax, physcons::c / frev, s, xi, radius), nx, sigma, x0);
        if (rc > 0 && radius > rc) wake_of("wake_coll", std::make_shared<CollimatorImpedance>(nmax, fmax, radius, rc), nx, sigma, x0);
    } else {
        fprintf(stderr, "unknown wake kind %s\n", kind.c_str());
        exit(3);
    }
    printf("end\n");
}

int main(int argc, char** argv)
{
    return run_main(argc, argv, {{"model", do_model}, {"factory", do_factory}, {"sum", do_sum}, {"wake", do_wake}});
}
