#include "common.hpp"

// ---------------------------------------------------------------------------------------
// kick <id> <dir:x|y> <n> <nb> <it> ; offs (n*nb) ; data (nb*n*n)
// prints: table (n*nb*it entries idx:w), out (nb*n*n)
static void do_kick()
{
    std::string id = next();
    std::string dir = next();
    unsigned n = nextl(), nb = nextl(), it = nextl();
    std::vector<meshaxis_t> offs(n * nb);
    for (auto& o : offs) o = nextf();
    auto in = mkps(n, nb);
    auto out = mkps(n, nb);
    for (size_t i = 0; i < (size_t)nb * n * n; i++) in->getData()[i] = nextf();
    KickMap km(in, out, static_cast<SourceMap::InterpolationType>(it), false,
               dir == "x" ? KickMap::Axis::x : KickMap::Axis::y, nullptr);
    km.swapOffset(offs);
    km.apply();
    printf("case %s\ntable", id.c_str());
    for (size_t k = 0; k < (size_t)n * nb * it; k++) { printf(" %u", km._hinfo[k].index); pf(km._hinfo[k].weight); }
    printf("\nout");
    for (size_t i = 0; i < (size_t)nb * n * n; i++) pf(out->getData()[i]);
    printf("\nend\n");
}

// kickseq <id> <dir:x|y> <n> <nb> <it> <steps> ; per step: offs (n*nb) ; data (nb*n*n)
// ONE KickMap object for the whole sequence (a history: swapOffset()+apply() per step, as the maps that are rebuilt
// every step are used in a run); prints for step s a case "<id>_s<s>" in the format of `kick`
static void do_kickseq()
{
    std::string id = next();
    std::string dir = next();
    unsigned n = nextl(), nb = nextl(), it = nextl(), steps = nextl();
    auto in = mkps(n, nb);
    auto out = mkps(n, nb);
    KickMap km(in, out, static_cast<SourceMap::InterpolationType>(it), false,
               dir == "x" ? KickMap::Axis::x : KickMap::Axis::y, nullptr);
    for (unsigned s = 0; s < steps; s++) {
        std::vector<meshaxis_t> offs(n * nb);
        for (auto& o : offs) o = nextf();
        for (size_t i = 0; i < (size_t)nb * n * n; i++) in->getData()[i] = nextf();
        for (size_t i = 0; i < (size_t)nb * n * n; i++) out->getData()[i] = -7.5f;      // stale output must not survive
        km.swapOffset(offs);
        km.apply();
        printf("case %s_s%u\ntable", id.c_str(), s);
        for (size_t k = 0; k < (size_t)n * nb * it; k++) { printf(" %u", km._hinfo[k].index); pf(km._hinfo[k].weight); }
        printf("\nout");
        for (size_t i = 0; i < (size_t)nb * n * n; i++) pf(out->getData()[i]);
        printf("\nend\n");
    }
}

// kickp <id> <dir:x|y> <n> <nb> <it> <clamp:0|1> ; fill (nb, sums to 1, may contain 0) ; offs (n*nb) ; data (nb*n*n)
// The same kick as `kick` (same output format, so the model and every oracle of `kick` apply), but under the conditions in
// which a map is used inside a run and which must not matter (C01_kick_apply_every_cell: every cell of every bunch of the
// output is written, from data_in and the table only):
//  * the grids are built with the filling pattern <fill> and the data are then written explicitly (getData()), so a bucket
//    the pattern declares empty may hold charge;
//  * what the input grid caches besides its data (bunch / energy profile, integral, filling, moments) dates from an EARLIER
//    state - the data with two of every three columns and rows and every second bunch emptied - as it does for grid_t2 / grid_t3 in main(),
//    whose caches are never refreshed after set-up;
//  * the target grid holds earlier charge (3.25 in every cell);
//  * the interpolation is constructed with the given clamp flag (the CPU path ignores it: Gen_KickLoop reads no _clamp).
// After the output is printed the kick is applied a second time with every cache refreshed from the actual data, the set
// filling pattern uniform and a different earlier content of the target (-12345): `cachedep <#cells that differ> <first>`.
static void do_kickp()
{
    std::string id = next();
    std::string dir = next();
    unsigned n = nextl(), nb = nextl(), it = nextl(), clamp = nextl();
    std::vector<float> fill(nb);
    for (auto& f : fill) f = nextf();
    std::vector<meshaxis_t> offs(n * nb);
    for (auto& o : offs) o = nextf();
    auto in = mkps(n, nb, -6, 6, -6, 6, &fill);
    auto out = mkps(n, nb, -6, 6, -6, 6, &fill);
    const size_t tot = (size_t)nb * n * n;
    std::vector<meshdata_t> data(tot);
    for (auto& v : data) v = nextf();
    // caches of an earlier state
    for (size_t i = 0; i < tot; i++) {
        const unsigned b = i / ((size_t)n * n), x = (i / n) % n, y = i % n;
        in->getData()[i] = (b % 2 == 0 && x % 3 == 0 && y % 3 == 0) ? data[i] : 0;
    }
    in->updateXProjection(); in->updateYProjection(); in->integrate();
    for (size_t i = 0; i < tot; i++) in->getData()[i] = data[i];
    for (size_t i = 0; i < tot; i++) out->getData()[i] = 3.25f;
    KickMap km(in, out, static_cast<SourceMap::InterpolationType>(it), clamp != 0,
               dir == "x" ? KickMap::Axis::x : KickMap::Axis::y, nullptr);
    km.swapOffset(offs);
    km.apply();
    printf("case %s\ntable", id.c_str());
    for (size_t k = 0; k < (size_t)n * nb * it; k++) { printf(" %u", km._hinfo[k].index); pf(km._hinfo[k].weight); }
    printf("\nout");
    for (size_t i = 0; i < tot; i++) pf(out->getData()[i]);
    std::vector<meshdata_t> ref(out->getData(), out->getData() + tot);
    in->updateXProjection(); in->updateYProjection(); in->integrate();
    {
        auto& fs = const_cast<std::vector<integral_t>&>(in->_filling_set);
        std::fill(fs.begin(), fs.end(), static_cast<integral_t>(1.0 / nb));
        auto& fo = const_cast<std::vector<integral_t>&>(out->_filling_set);
        std::fill(fo.begin(), fo.end(), static_cast<integral_t>(1.0 / nb));
    }
    for (size_t i = 0; i < tot; i++) out->getData()[i] = -12345.0f;
    km.apply();
    size_t nd = 0, first = 0;
    for (size_t i = 0; i < tot; i++)
        if (std::memcmp(&ref[i], &out->getData()[i], sizeof(meshdata_t)) != 0) { if (!nd) first = i; nd++; }
    printf("\ncachedep %zu %zu", nd, first);
    printf("\nend\n");
}

// coeffs <id> <it> <count> f...   -> weights for each f
static void do_coeffs()
{
    std::string id = next();
    unsigned it = nextl();
    size_t cnt = nextl();
    printf("case %s\n", id.c_str());
    for (size_t i = 0; i < cnt; i++) {
        interpol_t w[4] = {0, 0, 0, 0};
        SourceMap::calcCoefficiants(w, nextf(), it);
        printf("w");
        for (unsigned j = 0; j < it; j++) pf(w[j]);
        printf("\n");
    }
    printf("end\n");
}


// rot <id> <n> <it> <mapmode:0|1> <angle> <qmin> <qmax> <pmin> <pmax> ; data (n*n)
// prints: par cos sin d0 d1 z0 z1 ; ax (n) ; ay (n) ; table (n*n*it*it idx w, only mapmode 1) ; out (n*n)
static void do_rot()
{
    std::string id = next();
    unsigned n = nextl(), it = nextl(), mapmode = nextl();
    float angle = nextf();
    float qmin = nextf(), qmax = nextf(), pmin = nextf(), pmax = nextf();
    auto in = mkps(n, 1, qmin, qmax, pmin, pmax);
    auto out = mkps(n, 1, qmin, qmax, pmin, pmax);
    for (size_t i = 0; i < (size_t)n * n; i++) in->getData()[i] = nextf();
    RotationMap rm(in, out, n, n, angle, static_cast<SourceMap::InterpolationType>(it), false,
                   mapmode ? n * n : 0, nullptr);
    rm.apply();
    printf("case %s\npar", id.c_str());
    pf(rm._cos_dt); pf(rm._sin_dt);
    pf(rm._axis[0]->delta()); pf(rm._axis[1]->delta());
    pf(rm._axis[0]->zerobin()); pf(rm._axis[1]->zerobin());
    printf("\nax");
    for (unsigned i = 0; i < n; i++) pf(rm._axis[0]->at(i));
    printf("\nay");
    for (unsigned i = 0; i < n; i++) pf(rm._axis[1]->at(i));
    printf("\ntable");
    if (mapmode)
        for (size_t k = 0; k < (size_t)n * n * it * it; k++) { printf(" %u", rm._hinfo[k].index); pf(rm._hinfo[k].weight); }
    printf("\nout");
    for (size_t i = 0; i < (size_t)n * n; i++) pf(out->getData()[i]);
    printf("\nend\n");
}


// rotg <id> <n> <xs> <ys> <it> <rotmapsize> <clamp> <angle> <qmin> <qmax> <pmin> <pmax> ; data (n*n)
// RotationMap constructed with sizes (xs, ys) on an n x n phase space (n >= max(xs, ys)), any rotmapsize / clamp flag.
// prints: thrown 0|1 ; members xsize ysize it ip rotmapsize clamp ; par cos sin d0 d1 z0 z1 ; ax (xs) ; ay (ys) ;
//         table (xs*ys*it*it idx w, only when rotmapsize != 0) ; out (xs*ys)
static void do_rotg()
{
    std::string id = next();
    unsigned n = nextl(), xs = nextl(), ys = nextl(), it = nextl(), rms = nextl(), clamp = nextl();
    float angle = nextf();
    float qmin = nextf(), qmax = nextf(), pmin = nextf(), pmax = nextf();
    auto in = mkps(n, 1, qmin, qmax, pmin, pmax);
    auto out = mkps(n, 1, qmin, qmax, pmin, pmax);
    for (size_t i = 0; i < (size_t)n * n; i++) in->getData()[i] = nextf();
    for (size_t i = 0; i < (size_t)n * n; i++) out->getData()[i] = 0;
    printf("case %s\n", id.c_str());
    std::unique_ptr<RotationMap> rm;
    try {
        rm.reset(new RotationMap(in, out, xs, ys, angle, static_cast<SourceMap::InterpolationType>(it), clamp != 0, rms, nullptr));
    } catch (const std::invalid_argument&) {
        printf("thrown 1\nend\n");
        return;
    }
    rm->apply();
    printf("thrown 0\nmembers %u %u %u %u %u %d", rm->_xsize, rm->_ysize, (unsigned)rm->_it, (unsigned)rm->_ip, rm->_rotmapsize, rm->_clamp ? 1 : 0);
    printf("\npar");
    pf(rm->_cos_dt); pf(rm->_sin_dt);
    pf(rm->_axis[0]->delta()); pf(rm->_axis[1]->delta());
    pf(rm->_axis[0]->zerobin()); pf(rm->_axis[1]->zerobin());
    printf("\nax");
    for (unsigned i = 0; i < xs; i++) pf(rm->_axis[0]->at(i));
    printf("\nay");
    for (unsigned i = 0; i < ys; i++) pf(rm->_axis[1]->at(i));
    printf("\ntable");
    if (rms)
        for (size_t k = 0; k < (size_t)xs * ys * it * it; k++) { printf(" %u", rm->_hinfo[k].index); pf(rm->_hinfo[k].weight); }
    printf("\nout");
    for (size_t i = 0; i < (size_t)xs * ys; i++) pf(out->getData()[i]);
    printf("\nend\n");
}


// coeffsweep <id> <it> <nthreads> : every binary32 value f in [0,1) through the real calcCoefficiants.
// prints: n <count> ; maxsum <max |sum w - 1|> at <f> ; maxmom <max_k |sum_j w_j (j-c)^k - f^k|, k<it> at <f> ; zero <1 if f==0 gives the unit vector>
#include <thread>
#include <mutex>
static void do_coeffsweep()
{
    std::string id = next();
    unsigned it = nextl();
    unsigned nth = nextl();
    const uint32_t one = 0x3f800000u;      // bit pattern of 1.0f: all patterns below are the floats in [0,1)
    struct R { double ms = 0, mm = 0; float fs = 0, fm = 0; uint64_t cnt = 0; };
    std::vector<R> rs(nth);
    std::vector<std::thread> th;
    int c = (it - 1) / 2;
    for (unsigned t = 0; t < nth; t++) {
        th.emplace_back([&, t]() {
            R& r = rs[t];
            uint64_t lo = (uint64_t)one * t / nth, hi = (uint64_t)one * (t + 1) / nth;
            for (uint64_t b = lo; b < hi; b++) {
                uint32_t bits = (uint32_t)b;
                float f; memcpy(&f, &bits, 4);
                interpol_t w[4] = {0, 0, 0, 0};
                SourceMap::calcCoefficiants(w, f, it);
                double s = 0;
                for (unsigned j = 0; j < it; j++) s += (double)w[j];
                double d = fabs(s - 1.0);
                if (d > r.ms) { r.ms = d; r.fs = f; }
                double fk = 1.0;
                for (unsigned k = 0; k < it; k++) {
                    double m = 0;
                    for (unsigned j = 0; j < it; j++) m += (double)w[j] * pow((double)((int)j - c), (double)k);
                    double e = fabs(m - fk);
                    if (e > r.mm) { r.mm = e; r.fm = f; }
                    fk *= (double)f;
                }
                r.cnt++;
            }
        });
    }
    for (auto& x : th) x.join();
    R a;
    for (auto& r : rs) { a.cnt += r.cnt; if (r.ms > a.ms) { a.ms = r.ms; a.fs = r.fs; } if (r.mm > a.mm) { a.mm = r.mm; a.fm = r.fm; } }
    interpol_t w0[4] = {0, 0, 0, 0};
    SourceMap::calcCoefficiants(w0, 0.0f, it);
    bool unit = true;
    for (unsigned j = 0; j < it; j++) unit = unit && (w0[j] == ((int)j == c ? 1.0f : 0.0f));
    printf("case %s\nn %llu\nmaxsum %a %a\nmaxmom %a %a\nzero %d\nend\n", id.c_str(), (unsigned long long)a.cnt, a.ms, (double)a.fs, a.mm, (double)a.fm, unit ? 1 : 0);
}

int main(int argc, char** argv)
{
    return run_main(argc, argv, {{"kick", do_kick}, {"kickseq", do_kickseq}, {"kickp", do_kickp}, {"coeffs", do_coeffs}, {"rot", do_rot}, {"rotg", do_rotg}, {"coeffsweep", do_coeffsweep}});
}
