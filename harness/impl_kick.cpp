#include "common.hpp"

// ---------------------------------------------------------------------------------------
// kick <id> <dir:x|y> <n> <nb> <it> ; offs (n*nb) ; data (nb*n*n)
// prints: table (n*nb*it entries idx:w), out (nb*n*n)
static void do_kick()
{
    std::string id = next();
    std::string dir = next();
    unsigned n = nextl(), nb = nextl(), it = nextl();
    std::vector<meshaxis_t> offs(n * nb);
    for (auto& o : offs) o = nextf();
    auto in = mkps(n, nb);
    auto out = mkps(n, nb);
    for (size_t i = 0; i < (size_t)nb * n * n; i++) in->getData()[i] = nextf();
    KickMap km(in, out, static_cast<SourceMap::InterpolationType>(it), false,
               dir == "x" ? KickMap::Axis::x : KickMap::Axis::y, nullptr);
    km.swapOffset(offs);
    km.apply();
    printf("case %s\ntable", id.c_str());
    for (size_t k = 0; k < (size_t)n * nb * it; k++) { printf(" %u", km._hinfo[k].index); pf(km._hinfo[k].weight); }
    printf("\nout");
    for (size_t i = 0; i < (size_t)nb * n * n; i++) pf(out->getData()[i]);
    printf("\nend\n");
}

// coeffs <id> <it> <count> f...   -> weights for each f
static void do_coeffs()
{
    std::string id = next();
    unsigned it = nextl();
    size_t cnt = nextl();
    printf("case %s\n", id.c_str());
    for (size_t i = 0; i < cnt; i++) {
        interpol_t w[4] = {0, 0, 0, 0};
        SourceMap::calcCoefficiants(w, nextf(), it);
        printf("w");
        for (unsigned j = 0; j < it; j++) pf(w[j]);
        printf("\n");
    }
    printf("end\n");
}


// rot <id> <n> <it> <mapmode:0|1> <angle> <qmin> <qmax> <pmin> <pmax> ; data (n*n)
// prints: par cos sin d0 d1 z0 z1 ; ax (n) ; ay (n) ; table (n*n*it*it idx w, only mapmode 1) ; out (n*n)
static void do_rot()
{
    std::string id = next();
    unsigned n = nextl(), it = nextl(), mapmode = nextl();
    float angle = nextf();
    float qmin = nextf(), qmax = nextf(), pmin = nextf(), pmax = nextf();
    auto in = mkps(n, 1, qmin, qmax, pmin, pmax);
    auto out = mkps(n, 1, qmin, qmax, pmin, pmax);
    for (size_t i = 0; i < (size_t)n * n; i++) in->getData()[i] = nextf();
    RotationMap rm(in, out, n, n, angle, static_cast<SourceMap::InterpolationType>(it), false,
                   mapmode ? n * n : 0, nullptr);
    rm.apply();
    printf("case %s\npar", id.c_str());
    pf(rm._cos_dt); pf(rm._sin_dt);
    pf(rm._axis[0]->delta()); pf(rm._axis[1]->delta());
    pf(rm._axis[0]->zerobin()); pf(rm._axis[1]->zerobin());
    printf("\nax");
    for (unsigned i = 0; i < n; i++) pf(rm._axis[0]->at(i));
    printf("\nay");
    for (unsigned i = 0; i < n; i++) pf(rm._axis[1]->at(i));
    printf("\ntable");
    if (mapmode)
        for (size_t k = 0; k < (size_t)n * n * it * it; k++) { printf(" %u", rm._hinfo[k].index); pf(rm._hinfo[k].weight); }
    printf("\nout");
    for (size_t i = 0; i < (size_t)n * n; i++) pf(out->getData()[i]);
    printf("\nend\n");
}

int main(int argc, char** argv)
{
    return run_main(argc, argv, {{"kick", do_kick}, {"coeffs", do_coeffs}, {"rot", do_rot}});
}
