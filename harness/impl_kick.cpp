#include "common.hpp"

// ---------------------------------------------------------------------------------------
// kick <id> <dir:x|y> <n> <nb> <it> ; offs (n*nb) ; data (nb*n*n)
// prints: table (n*nb*it entries idx:w), out (nb*n*n)
static void do_kick()
{
    std::string id = next();
    std::string dir = next();
    unsigned n = nextl(), nb = nextl(), it = nextl();
    std::vector<meshaxis_t> offs(n * nb);
    for (auto& o : offs) o = nextf();
    auto in = mkps(n, nb);
    auto out = mkps(n, nb);
    for (size_t i = 0; i < (size_t)nb * n * n; i++) in->getData()[i] = nextf();
    KickMap km(in, out, static_cast<SourceMap::InterpolationType>(it), false,
               dir == "x" ? KickMap::Axis::x : KickMap::Axis::y, nullptr);
    km.swapOffset(offs);
    km.apply();
    printf("case %s\ntable", id.c_str());
    for (size_t k = 0; k < (size_t)n * nb * it; k++) { printf(" %u", km._hinfo[k].index); pf(km._hinfo[k].weight); }
    printf("\nout");
    for (size_t i = 0; i < (size_t)nb * n * n; i++) pf(out->getData()[i]);
    printf("\nend\n");
}

// coeffs <id> <it> <count> f...   -> weights for each f
static void do_coeffs()
{
    std::string id = next();
    unsigned it = nextl();
    size_t cnt = nextl();
    printf("case %s\n", id.c_str());
    for (size_t i = 0; i < cnt; i++) {
        interpol_t w[4] = {0, 0, 0, 0};
        SourceMap::calcCoefficiants(w, nextf(), it);
        printf("w");
        for (unsigned j = 0; j < it; j++) pf(w[j]);
        printf("\n");
    }
    printf("end\n");
}

int main(int argc, char** argv)
{
    return run_main(argc, argv, {{"kick", do_kick}, {"coeffs", do_coeffs}});
}
