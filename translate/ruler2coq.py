#!/usr/bin/env python3
# GEN: Gen_Ruler
"""Gen_Ruler.v: the axis arithmetic of `Ruler<meshaxis_t>` (inc/PS/Ruler.hpp), as exact expressions over a generic field.

Source read (clang JSON AST of the `Ruler<float>` specialisation instantiated in src/PS/PhaseSpace.cpp): the constructor
`Ruler(steps, min, max, scale)`:
  * its mem-initialisers `_steps(steps)`, `_min(min)`, `_max(max)` (must be the plain parameters),
    `_delta(<expr in steps, min, max>)`, `_zerobin(<expr in steps, min, max>)`;
  * the loop of its body `meshaxis_tmp[i] = <expr in _min, i, _delta>` (the coordinate of grid point i).
Conversions are identities here (exact arithmetic; `steps-1` is an unsigned difference in the C++: the expressions are
meant for steps >= 1).  Fails loudly (TranslateError) when an initialiser or the loop is not found or an expression
leaves the vocabulary."""
import sys, os
sys.path.insert(0, os.path.dirname(os.path.abspath(__file__)))
from cxx_ast import *
import scaling_lib as sl


class RulerExec(sl.SymExec):
    """expressions over the constructor's parameters, the members already initialised and the loop counter"""

    def ex(self, n):
        if n.get("kind") == "MemberExpr" and kids(n) and kids(n)[0].get("kind") == "CXXThisExpr":
            nm = "this->" + n.get("name")
            if nm in self.env:
                return self.env[nm]
            raise sl.Unknown("member %s" % n.get("name"))
        return super().ex(n)


def emit(e):
    """IR -> Gallina over K (field operations only)"""
    e = sl.nocast(sl.fold(e))

    def go(t):
        k = t[0]
        if k == "lit":
            return num_coq(t[1])
        if k == "leaf":
            return t[1]
        if k == "bin":
            return "(%s %s %s)" % (go(t[3]), t[1], go(t[4]))
        if k == "neg":
            return "(- %s)" % go(t[2])
        raise TranslateError("the Ruler constructor uses something else than + - * / on its parameters (%s)" % k)
    return go(e)


def translate():
    docs = ast_of("src/PS/PhaseSpace.cpp", "Ruler")
    spec = None
    for d in docs:
        if d.get("kind") == "ClassTemplateDecl" and d.get("name") == "Ruler":
            for c in kids(d):
                if c.get("kind") == "ClassTemplateSpecializationDecl" and any(
                        a.get("kind") == "TemplateArgument" and (a.get("type") or {}).get("qualType") == "float" for a in kids(c)):
                    if any(m.get("kind") == "CXXConstructorDecl" and any(x.get("kind") == "CompoundStmt" for x in kids(m)) for m in kids(c)):
                        spec = c
    if spec is None:
        raise TranslateError("no instantiated Ruler<float> with constructor bodies found in src/PS/PhaseSpace.cpp")
    ctors = [m for m in kids(spec) if m.get("kind") == "CXXConstructorDecl" and
             [p.get("name") for p in kids(m) if p.get("kind") == "ParmVarDecl"][:3] == ["steps", "min", "max"]]
    if len(ctors) != 1:
        raise TranslateError("constructor Ruler(steps, min, max, ...) not found once")
    ctor = ctors[0]
    se = RulerExec()
    for p in kids(ctor):
        if p.get("kind") == "ParmVarDecl" and p.get("name") in ("steps", "min", "max"):
            se.env[p["name"]] = ("leaf", {"steps": "steps", "min": "mn", "max": "mx"}[p["name"]], sl.ctype(p))
    inits = {}
    for c in kids(ctor):
        if c.get("kind") == "CXXCtorInitializer" and c.get("anyInit"):
            inits[c["anyInit"].get("name")] = kids(c)[0]
    for m, par in (("_steps", "steps"), ("_min", "mn"), ("_max", "mx")):
        if m not in inits:
            raise TranslateError("mem-initialiser of %s not found" % m)
        try:
            v = sl.nocast(se.ex(inits[m]))
        except sl.Unknown as e:
            raise TranslateError("mem-initialiser of %s: %s" % (m, e))
        if v[0] != "leaf" or v[1] != par:
            raise TranslateError("%s is no longer initialised with the plain parameter" % m)
        se.env["this->" + m] = v
    out = {}
    for m in ("_delta", "_zerobin"):
        if m not in inits:
            raise TranslateError("mem-initialiser of %s not found" % m)
        try:
            out[m] = se.ex(inits[m])
        except sl.Unknown as e:
            raise TranslateError("mem-initialiser of %s: %s" % (m, e))
    # members as the loop sees them
    se.env["this->_delta"] = ("leaf", "delta", "f32")
    body = [c for c in kids(ctor) if c.get("kind") == "CompoundStmt"][0]
    at = None
    for f in sl.walk(body):
        if f.get("kind") == "ForStmt":
            ivars = [v.get("name") for v in sl.walk(f) if v.get("kind") == "VarDecl"]
            for a in sl.walk(f):
                if a.get("kind") == "BinaryOperator" and a.get("opcode") == "=" and kids(a)[0].get("kind") == "ArraySubscriptExpr":
                    idx = sl.base_var(kids(kids(a)[0])[1])
                    if idx in ivars:
                        se.env[idx] = ("leaf", "i", "u32")
                        try:
                            at = se.ex(kids(a)[1])
                        except sl.Unknown as e:
                            raise TranslateError("coordinate expression of the constructor's loop: %s" % e)
    if at is None:
        raise TranslateError("the loop `meshaxis_tmp[i] = ...` of the Ruler constructor was not found")
    L = ["(* GENERATED on every run by translate/ruler2coq.py from the constructor of Ruler<meshaxis_t> (inc/PS/Ruler.hpp,",
         "   as instantiated in src/PS/PhaseSpace.cpp). Do not edit. *)",
         "From Coq Require Import List ZArith.", "From Inovesa Require Import Base.FieldKit.",
         "Local Open Scope F_scope.",
         "(* steps, mn, mx: the constructor's parameters; delta: the member _delta; i: the grid index *)",
         "Definition gen_ruler_delta (K : Fld) (steps mn mx : K) : K := %s." % emit(out["_delta"]),
         "Definition gen_ruler_zerobin (K : Fld) (steps mn mx : K) : K := %s." % emit(out["_zerobin"]),
         "Definition gen_ruler_at (K : Fld) (mn delta i : K) : K := %s." % emit(at)]
    return "\n".join(L) + "\n"


if __name__ == "__main__":
    dst = sys.argv[1] if len(sys.argv) > 1 else os.path.join(VERIF, "coq", "Gen", "Gen_Ruler.v")
    try:
        text = translate()
    except TranslateError as e:
        print("TRANSLATE-ERROR Gen_Ruler: %s" % e)
        sys.exit(2)
    ch = write_if_changed(dst, text)
    print("Gen_Ruler.v %s" % ("regenerated" if ch else "unchanged"))
