#!/usr/bin/env python3
# GEN: Gen_H5Units
"""Gen_H5Units.v from the unit-conversion expressions of the results file:
 * HDF5File constructor body (src/IO/HDF5File.cpp): `const double ax_z_meter/ax_z_seconds/ax_E_eVolt/
   axis_t_turns = expr;`
 * ElectricField constructor (src/PS/ElectricField.cpp, the one with mem-initialisers): `volts`,
   `factor4WattPerHertz`, `factor4Watts`, and the "Hertz" scale of `_axis_freq`.
Idiom: arithmetic over parameters, `physcons::c`, `ps->getScale(k,"Unit")`, `ps->getAxis(k)->delta()`,
`impedance->factor4Ohms`, `ps->current`, `_axis_freq.scale("Hertz")`.  Fails loudly otherwise."""
import sys, os, json
sys.path.insert(0, os.path.dirname(os.path.abspath(__file__)))
from cxx_ast import *


def walk(n):
    yield n
    for c in kids(n):
        yield from walk(c)


def call_atom(n, env):
    """recognise the accessor calls by the member names and literals in their subtree"""
    names = [x.get("name") for x in walk(n) if x.get("kind") == "MemberExpr"]
    ints = [int(x["value"]) for x in walk(n) if x.get("kind") == "IntegerLiteral"]
    strs = [x.get("value", "").strip('"') for x in walk(n) if x.get("kind") == "StringLiteral"]
    if "getScale" in names and strs == ["Meter"] and ints == [0]:
        return ("var", "scale0")
    if "getScale" in names and strs == ["ElectronVolt"] and ints == [1]:
        return ("var", "scale1")
    if "delta" in names and "getAxis" in names and ints == [1]:
        return ("var", "deltaE")
    if "scale" in names and "_axis_freq" in names and strs == ["Hertz"]:
        return ("var", "hertz")
    return None


def ir(n, env):
    """cxx_ast.to_ir with the accessor-call recogniser applied at every depth"""
    n = strip(n)
    k = n.get("kind")
    if k == "BinaryOperator":
        op = {"+": "add", "-": "sub", "*": "mul", "/": "div"}.get(n["opcode"])
        if not op:
            raise TranslateError("binary %s" % n["opcode"])
        a, b = kids(n)
        return (op, ir(a, env), ir(b, env))
    if k == "UnaryOperator" and n["opcode"] in ("-", "+"):
        a = ir(kids(n)[0], env)
        return ("neg", a) if n["opcode"] == "-" else a
    return to_ir(n, env, member_ok=call_atom)


def translate():
    out = {}
    # ---- HDF5File constructor
    # Anchored on what is written, not on how locals are called: every
    #   <dataset member>.dataset.createAttribute("<Unit>", ...).write(type, &X)
    # is collected; X is followed through the constructor's local `const double` declarations
    # (by declaration id, so renamed, inlined or additional intermediate locals do not matter).
    docs = ast_of("src/IO/HDF5File.cpp", "vfps::HDF5File::HDF5File")
    decl, body = body_of(docs, "HDF5File")
    params = {c["id"]: c.get("name") for c in decl.get("inner", []) if c.get("kind") == "ParmVarDecl"}
    local_init = {}
    for s in walk(body):
        if s.get("kind") == "VarDecl" and s.get("id"):
            ks = kids(s)
            local_init[s["id"]] = (s.get("name"), ks[-1] if ks else None)

    def ctor_ir(n, depth=0):
        """expression of the constructor body; locals are replaced by their initialisers"""
        if depth > 12:
            raise TranslateError("local declarations of the HDF5File constructor nest too deeply")
        n = strip(n)
        k = n.get("kind")
        if k == "BinaryOperator":
            op = {"+": "add", "-": "sub", "*": "mul", "/": "div"}.get(n["opcode"])
            if not op:
                raise TranslateError("binary %s" % n["opcode"])
            a, b = kids(n)
            return (op, ctor_ir(a, depth), ctor_ir(b, depth))
        if k == "UnaryOperator" and n.get("opcode") in ("-", "+"):
            a = ctor_ir(kids(n)[0], depth)
            return ("neg", a) if n["opcode"] == "-" else a
        if k == "DeclRefExpr":
            rd = n.get("referencedDecl") or {}
            if rd.get("id") in local_init:
                nm, init = local_init[rd["id"]]
                if init is None:
                    raise TranslateError("local %s of the HDF5File constructor has no initialiser" % nm)
                e = ctor_ir(init, depth + 1)
                return e
            if rd.get("id") in params:
                if params[rd["id"]] in ("t_sync", "f_rev"):
                    return ("var", params[rd["id"]])
                raise TranslateError("constructor parameter %s in a unit expression" % params[rd["id"]])
            if rd.get("name") == "c":
                return ("var", "c")
            raise TranslateError("unknown variable %s in a unit expression" % rd.get("name"))
        return to_ir(n, {}, member_ok=call_atom)

    attr = {}
    for s in walk(body):
        if s.get("kind") != "CXXMemberCallExpr":
            continue
        callee = kids(s)[0]
        if callee.get("kind") != "MemberExpr" or callee.get("name") != "write":
            continue
        names = [x.get("name") for x in walk(callee) if x.get("kind") == "MemberExpr"]
        strs = [x.get("value", "").strip('"') for x in walk(callee) if x.get("kind") == "StringLiteral"]
        if "createAttribute" not in names or "dataset" not in names or len(strs) != 1:
            continue
        ds = names[names.index("dataset") + 1] if names.index("dataset") + 1 < len(names) else None
        arg = strip(kids(s)[-1])
        if arg.get("kind") != "UnaryOperator" or arg.get("opcode") != "&":
            raise TranslateError("attribute %s of %s is not written from the address of a variable" % (strs[0], ds))
        attr.setdefault((ds, strs[0]), []).append(kids(arg)[0])
    want = {"ax_z_meter": ("_positionAxis", "Meter"), "ax_z_seconds": ("_positionAxis", "Second"),
            "ax_E_eVolt": ("_energyAxis", "ElectronVolt"), "axis_t_turns": ("_timeAxis", "Turn")}
    for w, key in want.items():
        if key not in attr:
            raise TranslateError("attribute %s of %s is no longer written in the HDF5File constructor" % (key[1], key[0]))
        if len(attr[key]) != 1:
            raise TranslateError("attribute %s of %s is written %d times" % (key[1], key[0], len(attr[key])))
        out[w] = ctor_ir(attr[key][0])
    if out["ax_z_meter"] != ("var", "scale0") or out["ax_E_eVolt"] != ("var", "scale1"):
        raise TranslateError("axis scales are no longer getScale(0,Meter)/getScale(1,ElectronVolt)")
    # the attributes that repeat a unit on another dataset must carry the same expression
    import random
    rnd = random.Random(7)
    same = {("_bunchLength", "Meter"): "ax_z_meter", ("_bunchPosition", "Meter"): "ax_z_meter",
            ("_bunchLength", "Second"): "ax_z_seconds", ("_bunchPosition", "Second"): "ax_z_seconds",
            ("_energySpread", "ElectronVolt"): "ax_E_eVolt", ("_energyAverage", "ElectronVolt"): "ax_E_eVolt",
            ("_timeAxisPS", "Turn"): "axis_t_turns"}
    for key, w in same.items():
        if key not in attr or len(attr[key]) != 1:
            raise TranslateError("attribute %s of %s is not written exactly once" % (key[1], key[0]))
        e = ctor_ir(attr[key][0])
        for _ in range(4):
            pt = {v: Fraction(rnd.randint(2, 97), rnd.randint(2, 89)) for v in ("scale0", "scale1", "c", "t_sync", "f_rev")}
            if ir_eval(e, pt) != ir_eval(out[w], pt):
                raise TranslateError("attribute %s of %s differs from the one of %s" % (key[1], key[0], want[w][0]))
    # the "Second" attribute is printed as a function of the "Meter" attribute (an attribute of its own)
    def rename(e):
        if e == ("var", "scale0"):
            return ("var", "ax_z_meter")
        if e[0] in ("num", "var"):
            return e
        return (e[0],) + tuple(rename(x) for x in e[1:])
    out["ax_z_seconds"] = rename(out["ax_z_seconds"])
    # ---- ElectricField constructor with the mem-initialisers
    docs = ast_of("src/PS/ElectricField.cpp", "vfps::ElectricField::ElectricField")
    ctor = None
    for d in docs:
        if d.get("kind") == "CXXConstructorDecl":
            inits = [c for c in d.get("inner", []) if c.get("kind") == "CXXCtorInitializer" and c.get("anyInit")]
            if any(c["anyInit"].get("name") == "volts" for c in inits):
                ctor = inits
    if ctor is None:
        raise TranslateError("ElectricField constructor initialising `volts` not found")
    env2 = {"revolutionpart": ("var", "revolutionpart"), "f_rev": ("var", "f_rev"), "c": ("var", "c"),
            "factor4Ohms": ("var", "ohm"), "current": ("var", "Ib")}
    for name in ("volts", "factor4WattPerHertz", "factor4Watts"):
        ini = [c for c in ctor if c["anyInit"].get("name") == name]
        if len(ini) != 1:
            raise TranslateError("initialiser of %s not found" % name)
        e = ir(kids(ini[0])[-1], env2)
        out[name] = e
        env2[name] = e
    # the "Hertz" scale inside the _axis_freq initialiser: the expression  physcons::c/ps->getScale(0,"Meter")
    ini = [c for c in ctor if c["anyInit"].get("name") == "_axis_freq"]
    hz = None
    for x in walk(ini[0]) if ini else []:
        if x.get("kind") == "BinaryOperator" and x.get("opcode") == "/":
            try:
                e = ir(x, {"c": ("var", "c")})
            except TranslateError:
                continue
            if e == ("div", ("var", "c"), ("var", "scale0")):
                hz = e
    if hz is None:
        raise TranslateError("Hertz scale of _axis_freq is no longer physcons::c/getScale(0,Meter)")
    out["hertz"] = hz
    L = ["(* GENERATED on every run by translate/h5units2coq.py from src/IO/HDF5File.cpp (constructor)",
         "   and src/PS/ElectricField.cpp (mem-initialisers). Do not edit. *)",
         "From Coq Require Import List ZArith.", "From Inovesa Require Import Base.FieldKit.",
         "Section Gen.", "  Variable K : Fld.", "  Local Open Scope F_scope.",
         "  Definition gen_Second_z (ax_z_meter c : K) : K := %s." % ir_coq(out["ax_z_seconds"]),
         "  Definition gen_Turn (t_sync f_rev : K) : K := %s." % ir_coq(out["axis_t_turns"]),
         "  Definition gen_Hertz (scale0 c : K) : K := %s." % ir_coq(out["hertz"]),
         "  Definition gen_Volt (deltaE scale1 revolutionpart : K) : K := %s." % ir_coq(out["volts"]),
         "  Definition gen_WattPerHertz (ohm Ib f_rev : K) : K := %s." % ir_coq(out["factor4WattPerHertz"]),
         "  Definition gen_Watt (ohm Ib f_rev hertz : K) : K := %s." % ir_coq(out["factor4Watts"]),
         "End Gen."]
    return "\n".join(L) + "\n"


if __name__ == "__main__":
    dst = sys.argv[1] if len(sys.argv) > 1 else os.path.join(VERIF, "coq", "Gen", "Gen_H5Units.v")
    try:
        text = translate()
    except TranslateError as e:
        print("TRANSLATE-ERROR Gen_H5Units: %s" % e)
        sys.exit(2)
    ch = write_if_changed(dst, text)
    print("Gen_H5Units.v %s" % ("regenerated" if ch else "unchanged"))
