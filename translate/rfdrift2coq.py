#!/usr/bin/env python3
# GEN: Gen_RFDrift
"""Gen_RFDrift.v: the arithmetic of the two offset fields a run is made of - `RFKickMap` (src/SM/RFKickMap.cpp: both
constructors and `_calcKick(phase, ampl)`, both branches) and `DriftMap` (src/SM/DriftMap.cpp: the constructor) - read from
the clang JSON AST of the working tree by symbolic execution, as exact expressions over a generic field.

What is read (each place fails loudly - TranslateError - when it no longer has the shape described):

 * SourceMap / KickMap constructors: which base-constructor arguments initialise `_xsize` / `_ysize`, the size `_offset` is
   resized to (with zeros), that `_in` is the constructor's `in` and `_axis[k]` is `in->getAxis(k')` (uses of `_axis[k]`
   below are resolved through this table).
 * `RFKickMap::_calcKick`: the top-level statements - one `if (_linear) A else B` and one `updateSM()` call, in their order
   (`rfk_calc_prog`); each branch is a list of local declarations (inlined) around a nest of exactly two counting loops
   `for (T v = 0; v < B; v++)` (also `++v`, `v += 1`, `v != B`); the loop body is a *cell program*: local declarations and
   assignments `=`, `+=`, `-=`, `*=`, `/=` to ONE element `_offset[E]` (the same index expression E in every statement),
   composed in program order.  Emitted per branch: outer/inner bound, the index E and the final value as functions of
   the two loop variables.  std::tan / std::sin / std::asin are the abstract functions ftan / fsin / fasin applied to their
   translated argument (so a dropped `tan`, a changed sine argument are visible), Ruler calls are projections of the axis
   facts A0 / A1 (`zerobin()`, `delta()`, `at(i)`, `scale("unit")`), members are projections of the record M.
 * both `RFKickMap` constructors: the KickMap base initialiser (which parameter is the source grid, the literal Axis), the
   mem-initialisers of all data members evaluated in declaration order (the class's FieldDecls must be the ones of
   Model/RFDriftKit.v), the body - exactly one call `_calcKick(args)`; a defaulted argument is read from the declaration
   in inc/SM/RFKickMap.hpp.
 * the `DriftMap` constructor: Axis handed to KickMap, the body - one counting loop whose cell program may contain ONE inner
   counting loop that accumulates into the cell (`_offset[y] += term(i)`, emitted as `acc_loop`), then `updateSM()`;
   `std::pow(b, e)` with an integer-valued exponent e is the product `kpow b e`; `slip[i]`, `slip.size()` are
   `nthK slip i`, `zlen slip`.

Conversions between floating types and integer -> floating conversions are identities in exact arithmetic (`fz`);
unsigned index arithmetic is emitted over Z without wrap-around (the indices are < 2^32 for every grid main() accepts);
a floating -> integer conversion, a comparison, a call or a member outside this vocabulary is a TranslateError."""
import sys, os, re
sys.path.insert(0, os.path.dirname(os.path.abspath(__file__)))
from cxx_ast import *
import scaling_lib as sl
import wakeupdate2coq as wu

UNITS = ("Meter", "ElectronVolt", "Hertz", "Seconds")
FIELDS = ["_linear", "_angle", "_revolutionpart", "_V_RF", "_f_RF", "_V0", "_syncphase", "_bl2phase"]
WRAP = ("ImplicitCastExpr", "ParenExpr", "CXXFunctionalCastExpr", "CStyleCastExpr", "CXXStaticCastExpr", "ExprWithCleanups",
        "MaterializeTemporaryExpr", "CXXBindTemporaryExpr", "ConstantExpr")
FLT, INT = sl.FLT_TYS, sl.INT_TYS


def peel(n):
    """drop every wrapper (casts of any kind, temporaries): for finding what an object expression refers to"""
    while n.get("kind") in WRAP and len(kids(n)) == 1:
        n = kids(n)[0]
    return n


def line_of(n):
    b = (n.get("range") or {}).get("begin") or {}
    return b.get("line") or (b.get("expansionLoc") or {}).get("line") or (n.get("loc") or {}).get("line") or "?"


def is_this_member(n, name=None):
    n = peel(n)
    if n.get("kind") != "MemberExpr" or not kids(n):
        return False
    if peel(kids(n)[0]).get("kind") != "CXXThisExpr":
        return False
    return name is None or n.get("name") == name


# ------------------------------------------------------------------------------------------------ SourceMap / KickMap

def ctor_def(src, qual, name, nparams=None):
    docs = ast_of(src, qual)
    got = [d for d in docs if d.get("kind") == "CXXConstructorDecl" and d.get("name") == name and
           any(c.get("kind") == "CompoundStmt" for c in kids(d)) and
           (nparams is None or len([c for c in kids(d) if c.get("kind") == "ParmVarDecl"]) == nparams)]
    return got


def params_of(d):
    return [c for c in kids(d) if c.get("kind") == "ParmVarDecl"]


def tr_geometry():
    """-> dict(xsize, ysize, offset_size: wu IR in nx ny nb with ('ifx',..) on the kick direction; axis_perm; km_in; km_kd)"""
    kms = ctor_def("src/SM/KickMap.cpp", "KickMap::KickMap", "KickMap")
    if len(kms) != 1:
        raise TranslateError("KickMap constructor: %d definitions" % len(kms))
    km = kms[0]
    kmp = [p.get("name") for p in params_of(km)]
    if "in" not in kmp or "kd" not in kmp:
        raise TranslateError("KickMap constructor has no parameters `in` and `kd` any more (%s)" % kmp)
    ini = wu.ctor_inits(km)
    base = [k for k in ini if k.startswith("base:") and "SourceMap" in k]
    if len(base) != 1:
        raise TranslateError("KickMap constructor has no SourceMap base initialiser")
    args = wu.construct_args(ini[base[0]])
    sms = ctor_def("src/SM/SourceMap.cpp", "SourceMap::SourceMap", "SourceMap", len(args))
    if len(sms) != 1:
        raise TranslateError("no unique SourceMap constructor with %d parameters" % len(args))
    sm = sms[0]
    smp = [p.get("name") for p in params_of(sm)]
    sini = wu.ctor_inits(sm)
    pos = {}
    for m in ("_xsize", "_ysize", "_in"):
        if m not in sini or sini[m] is None:
            raise TranslateError("SourceMap constructor does not initialise %s" % m)
        refs = [q["referencedDecl"]["name"] for q in sl.walk(sini[m]) if q.get("kind") == "DeclRefExpr" and
                (q.get("referencedDecl") or {}).get("kind") == "ParmVarDecl"]
        if len(refs) != 1 or refs[0] not in smp:
            raise TranslateError("SourceMap constructor does not initialise %s from one parameter" % m)
        if m != "_in" and peel(sini[m]).get("kind") != "DeclRefExpr":
            raise TranslateError("SourceMap constructor does not initialise %s with the plain parameter" % m)
        pos[m] = smp.index(refs[0])
    in_name = smp[pos["_in"]]
    # _axis: {in->getAxis(k0), in->getAxis(k1)}
    if "_axis" not in sini or sini["_axis"] is None:
        raise TranslateError("SourceMap constructor does not initialise _axis")
    perm = []
    for c in sl.walk(sini["_axis"]):
        if c.get("kind") == "CXXMemberCallExpr" and peel(kids(c)[0]).get("name") == "getAxis":
            obj = [q["referencedDecl"]["name"] for q in sl.walk(kids(c)[0]) if q.get("kind") == "DeclRefExpr" and
                   (q.get("referencedDecl") or {}).get("kind") == "ParmVarDecl"]
            lit = peel(kids(c)[1])
            if obj != [in_name] or lit.get("kind") != "IntegerLiteral":
                raise TranslateError("SourceMap's _axis is not built from %s->getAxis(<literal>)" % in_name)
            perm.append(int(lit["value"]))
    if len(perm) != 2 or sorted(perm) != [0, 1]:
        raise TranslateError("SourceMap's _axis is not {in->getAxis(0|1), in->getAxis(0|1)} (found %s)" % perm)
    # KickMap hands its own `in` on as SourceMap's `in`
    a_in = peel(args[pos["_in"]])
    ref = [q["referencedDecl"]["name"] for q in sl.walk(args[pos["_in"]]) if q.get("kind") == "DeclRefExpr" and
           (q.get("referencedDecl") or {}).get("kind") == "ParmVarDecl"]
    if ref != ["in"]:
        raise TranslateError("KickMap does not hand its parameter `in` to SourceMap as the source grid")
    env = {"nb": ("var", "nb"), "nx": ("var", "nx"), "ny": ("var", "ny")}
    out = {"xsize": wu.zexpr(args[pos["_xsize"]], env), "ysize": wu.zexpr(args[pos["_ysize"]], env), "axis_perm": perm,
           "km_in": kmp.index("in"), "km_kd": kmp.index("kd"), "km_nparams": len(kmp)}
    km2 = wu.tr_kickmap_ctor()            # also checks that _offset is resized with zeros
    pd = km2["_meshsize_pd"]
    osz = km2["offset_size"]

    def sub(e):
        if e == ("var", "pd"):
            return pd
        if e == ("var", "kd"):
            return km2["_meshsize_kd"]
        if isinstance(e, tuple) and e and e[0] in ("add", "sub", "mul", "div", "ifx", "neg"):
            return tuple([e[0]] + [sub(x) if isinstance(x, tuple) else x for x in e[1:]])
        return e
    out["offset_size"] = sub(osz)
    return out


# ------------------------------------------------------------------------------------------------ expressions

class RFExec(sl.SymExec):
    """expressions over members, parameters, locals, loop variables, axis facts and the cell being written"""

    def __init__(self, geo, grid_names, vec_params=()):
        super().__init__()
        self.geo = geo
        self.grid_names = set(grid_names)      # names (members / parameters) that denote the SOURCE grid
        self.vec_params = set(vec_params)
        self.cell_idx = None                   # index IR of the element being written (nocast), once known
        self.cell_val = None                   # its current value (IR) or None before the first assignment
        self.array = "_offset"

    # -- helpers
    def grid_of(self, n):
        """name of the grid object (member `_in` / parameter `in`) an expression `<g>` or `<g>.operator->()` denotes"""
        n = peel(n)
        if n.get("kind") == "CXXOperatorCallExpr" and sl.callee_name(n) == "operator->" and len(kids(n)) == 2:
            n = peel(kids(n)[1])
        if n.get("kind") == "MemberExpr" and is_this_member(n):
            return "this->" + n.get("name")
        if n.get("kind") == "DeclRefExpr":
            return (n.get("referencedDecl") or {}).get("name")
        return None

    def axis_of(self, obj):
        """which axis of the source grid the Ruler pointer expression `obj` denotes: 0 | 1"""
        n = peel(obj)
        if n.get("kind") == "CXXOperatorCallExpr" and sl.callee_name(n) == "operator->" and len(kids(n)) == 2:
            n = peel(kids(n)[1])
        if n.get("kind") == "CXXOperatorCallExpr" and sl.callee_name(n) == "operator[]" and len(kids(n)) == 3:
            base, idx = peel(kids(n)[1]), peel(kids(n)[2])
            if is_this_member(base, "_axis") and idx.get("kind") == "IntegerLiteral" and int(idx["value"]) in (0, 1):
                return self.geo["axis_perm"][int(idx["value"])]
            raise sl.Unknown("axis expression is not _axis[0|1]")
        if n.get("kind") == "CXXMemberCallExpr" and peel(kids(n)[0]).get("name") == "getAxis" and len(kids(n)) == 2:
            me = peel(kids(n)[0])
            g = self.grid_of(kids(me)[0]) if kids(me) else None
            idx = peel(kids(n)[1])
            if g in self.grid_names and idx.get("kind") == "IntegerLiteral" and int(idx["value"]) in (0, 1):
                return int(idx["value"])
            raise sl.Unknown("getAxis() is not called with a literal 0|1 on the source grid (object `%s`)" % g)
        raise sl.Unknown("axis expression not understood")

    def axis_call(self, n):
        me = peel(kids(n)[0])
        if me.get("kind") != "MemberExpr" or me.get("name") not in ("zerobin", "delta", "at", "scale") or not kids(me):
            return None
        try:
            ax = self.axis_of(kids(me)[0])
        except sl.Unknown:
            if any(q.get("kind") == "MemberExpr" and q.get("name") in ("_axis", "getAxis") for q in sl.walk(kids(me)[0])):
                raise
            return None
        meth, args = me["name"], kids(n)[1:]
        ty = sl.ctype(n)
        if ty not in FLT:
            raise sl.Unknown("Ruler::%s() of type %s" % (meth, ty))
        if meth in ("zerobin", "delta"):
            if args:
                raise sl.Unknown("Ruler::%s() with arguments" % meth)
            return ("leaf", "(ax_%s A%d)" % (meth, ax), ty)
        if meth == "at":
            if len(args) != 1:
                raise sl.Unknown("Ruler::at() arity")
            return ("call", "at:%d" % ax, ty, (self.ex(args[0]),))
        lits = [q for q in sl.walk(n) if q.get("kind") == "StringLiteral"]
        if len(args) != 1 or len(lits) != 1:
            raise sl.Unknown("Ruler::scale() is not called with one string literal")
        unit = lits[0].get("value", "").strip('"')
        if unit not in UNITS:
            raise sl.Unknown("Ruler::scale() is asked for the unit %r; Model/RFDriftKit.v (runit) knows %s" % (unit, UNITS))
        return ("leaf", "(ax_scale A%d U_%s)" % (ax, unit), ty)

    def vec_of(self, n):
        n = peel(n)
        if n.get("kind") == "DeclRefExpr" and (n.get("referencedDecl") or {}).get("name") in self.vec_params:
            return n["referencedDecl"]["name"]
        return None

    # -- expressions
    def ex(self, n):
        k = n.get("kind")
        if k == "MemberExpr" and is_this_member(n):
            key = "this->" + n.get("name")
            if key in self.env:
                return self.env[key]
            raise sl.Unknown("member %s" % n.get("name"))
        if k == "CXXMemberCallExpr":
            r = self.axis_call(n)
            if r is not None:
                return r
            me = peel(kids(n)[0])
            if me.get("kind") == "MemberExpr" and me.get("name") == "size" and len(kids(n)) == 1 and kids(me):
                v = self.vec_of(kids(me)[0])
                if v:
                    return ("leaf", "(zlen %s)" % v, "u64")
            raise sl.Unknown("member call %s" % me.get("name"))
        if k == "CXXOperatorCallExpr" and sl.callee_name(n) == "operator[]" and len(kids(n)) == 3:
            base = peel(kids(n)[1])
            if is_this_member(base, self.array):
                idx = sl.nocast(sl.fold(self.ex(kids(n)[2])))
                if self.cell_idx is None or idx != self.cell_idx:
                    raise sl.Unknown("%s is read at an element other than the one being written" % self.array)
                if self.cell_val is None:
                    return ("opaque", "%s[..] is read before the loop body has assigned it" % self.array, "f32")
                return self.cell_val
            v = self.vec_of(base)
            if v:
                return ("call", "nth:" + v, "f32", (self.ex(kids(n)[2]),))
            raise sl.Unknown("subscript of something else than %s or a vector parameter" % self.array)
        return super().ex(n)


def parse_for(f, se):
    """`for (T v = 0; v < B; v++)` -> (variable name, bound IR, body node); B is evaluated outside the loop"""
    ks = f.get("inner", [])
    if len(ks) != 5 or ks[0] is None or ks[2] is None or ks[3] is None:
        raise TranslateError("loop at line %s is not `for (T v = 0; v < B; v++)`" % line_of(f))
    vd = [q for q in kids(ks[0]) if q.get("kind") == "VarDecl"] if ks[0].get("kind") == "DeclStmt" else []
    if len(vd) != 1 or not kids(vd[0]):
        raise TranslateError("loop at line %s does not declare one counter" % line_of(f))
    v = vd[0]["name"]
    if sl.ctype(vd[0]) not in INT:
        raise TranslateError("loop counter `%s` is not of an integer type" % v)
    init = peel(kids(vd[0])[-1])
    if init.get("kind") != "IntegerLiteral" or int(init.get("value", "1")) != 0:
        raise TranslateError("loop over `%s` (line %s) does not start at 0" % (v, line_of(f)))
    cond = peel(ks[2])
    if cond.get("kind") != "BinaryOperator" or cond.get("opcode") not in ("<", "!=", ">"):
        raise TranslateError("condition of the loop over `%s` is not `%s < bound`" % (v, v))
    a, b = kids(cond)
    if cond["opcode"] == ">":
        a, b = b, a
    pa = peel(a)
    if pa.get("kind") != "DeclRefExpr" or (pa.get("referencedDecl") or {}).get("name") != v:
        raise TranslateError("condition of the loop over `%s` does not test the counter on the left" % v)
    if any(q.get("kind") == "DeclRefExpr" and (q.get("referencedDecl") or {}).get("name") == v for q in sl.walk(b)):
        raise TranslateError("bound of the loop over `%s` mentions the counter" % v)
    try:
        bound = se.ex(b)
    except sl.Unknown as e:
        raise TranslateError("bound of the loop over `%s`: %s" % (v, e))
    inc = peel(ks[3])
    ok = inc.get("kind") == "UnaryOperator" and inc.get("opcode") == "++"
    if inc.get("kind") == "CompoundAssignOperator" and inc.get("opcode") == "+=":
        r = peel(kids(inc)[1])
        ok = r.get("kind") == "IntegerLiteral" and int(r["value"]) == 1
    tgt = peel(kids(inc)[0]) if kids(inc) else {}
    if not ok or (tgt.get("referencedDecl") or {}).get("name") != v:
        raise TranslateError("increment of the loop over `%s` is not ++ / += 1" % v)
    if ks[4] is None:
        raise TranslateError("loop over `%s` has no body" % v)
    return v, bound, ks[4]


def stmts_of(n):
    return kids(n) if n.get("kind") == "CompoundStmt" else [n]


def assigns_counter(body, names):
    for q in sl.walk(body):
        if q.get("kind") in ("BinaryOperator", "CompoundAssignOperator") and (q.get("opcode") or "").endswith("=") and \
                q.get("opcode") not in ("==", "!=", "<=", ">="):
            t = peel(kids(q)[0])
            if t.get("kind") == "DeclRefExpr" and (t.get("referencedDecl") or {}).get("name") in names:
                return True
        if q.get("kind") == "UnaryOperator" and q.get("opcode") in ("++", "--"):
            t = peel(kids(q)[0])
            if t.get("kind") == "DeclRefExpr" and (t.get("referencedDecl") or {}).get("name") in names:
                return True
    return False


def exec_cell(stmts, se, depth, what):
    """the cell program: declarations, assignments to ONE element of the array, at most one accumulating inner loop"""
    for s in stmts:
        k = s.get("kind")
        if k == "NullStmt":
            continue
        if k == "CompoundStmt":
            exec_cell(kids(s), se, depth, what)
            continue
        if k == "DeclStmt":
            se.exec_stmt(s)
            continue
        if k == "ForStmt":
            if depth >= 1:
                raise TranslateError("%s: loops nested deeper than this translator reads (line %s)" % (what, line_of(s)))
            v, bound, body = parse_for(s, se)
            if assigns_counter(body, (v,)):
                raise TranslateError("%s: the loop body changes its own counter `%s`" % (what, v))
            if se.cell_idx is None or se.cell_val is None:
                raise TranslateError("%s: an accumulating loop before the element has been assigned" % what)
            before = se.cell_val
            saved = dict(se.env)
            se.env[v] = ("leaf", "i", sl.ctype([q for q in kids(kids(s)[0]) if q.get("kind") == "VarDecl"][0]))
            se.cell_val = ("leaf", "acc", "f32")
            exec_cell(stmts_of(body), se, depth + 1, what)
            step = se.cell_val
            se.env = saved
            se.cell_val = ("call", "accloop", "f32", (bound, step, before))
            continue
        c = peel(s)
        if c.get("kind") in ("BinaryOperator", "CompoundAssignOperator") and c.get("opcode") in ("=", "+=", "-=", "*=", "/="):
            lhs, rhs = kids(c)
            l = peel(lhs)
            if l.get("kind") == "CXXOperatorCallExpr" and sl.callee_name(l) == "operator[]" and len(kids(l)) == 3 and \
                    is_this_member(kids(l)[1], se.array):
                try:
                    idx = sl.nocast(sl.fold(se.ex(kids(l)[2])))
                except sl.Unknown as e:
                    raise TranslateError("%s: index of %s (line %s): %s" % (what, se.array, line_of(s), e))
                if se.cell_idx is None:
                    se.cell_idx = idx
                elif idx != se.cell_idx:
                    raise TranslateError("%s: the loop body writes two different elements of %s (line %s)" % (what, se.array, line_of(s)))
                try:
                    r = se.ex(rhs)
                except sl.Unknown as e:
                    raise TranslateError("%s: right-hand side at line %s: %s" % (what, line_of(s), e))
                if sl.typeof(r) in INT:
                    r = ("cast", "f32", r)
                op = c["opcode"]
                if op == "=":
                    se.cell_val = r
                else:
                    if se.cell_val is None:
                        raise TranslateError("%s: `%s` on an element of %s the loop body has not assigned before (line %s)" %
                                             (what, op, se.array, line_of(s)))
                    se.cell_val = ("bin", op[0], "f32", se.cell_val, r)
                continue
            if l.get("kind") == "DeclRefExpr" and se.exec_assign(c):
                continue
        raise TranslateError("%s: statement at line %s is not a declaration, an assignment to %s[..] or a counting loop (%s)" %
                             (what, line_of(s), se.array, k))


def fill_nest(stmts, se, nloops, roles, what):
    """declarations around a nest of `nloops` counting loops with a cell program inside
    -> (bounds [IR], index IR, value IR); loop counters are the leaves named in `roles`"""
    bounds = []

    def level(ss, d):
        fors = [s for s in ss if s.get("kind") == "ForStmt"]
        if d == nloops:
            exec_cell(ss, se, 0, what)
            return
        if len(fors) != 1:
            raise TranslateError("%s: expected one loop at nesting depth %d, found %d" % (what, d, len(fors)))
        for s in ss:
            k = s.get("kind")
            if k == "DeclStmt":
                se.exec_stmt(s)
            elif k == "NullStmt":
                continue
            elif k == "ForStmt":
                v, bound, body = parse_for(s, se)
                if assigns_counter(body, (v,)):
                    raise TranslateError("%s: the loop body changes its own counter `%s`" % (what, v))
                bounds.append(bound)
                vd = [q for q in kids(kids(s)[0]) if q.get("kind") == "VarDecl"][0]
                se.env[v] = ("leaf", roles[d], sl.ctype(vd))
                level(stmts_of(body), d + 1)
            elif k == "CompoundStmt":
                raise TranslateError("%s: nested block at line %s" % (what, line_of(s)))
            else:
                raise TranslateError("%s: statement at line %s beside the loop nest (%s)" % (what, line_of(s), k))
    level(stmts, 0)
    if se.cell_idx is None or se.cell_val is None:
        raise TranslateError("%s: the loop nest never assigns an element of %s" % (what, se.array))
    return bounds, se.cell_idx, se.cell_val


# ------------------------------------------------------------------------------------------------ emitter

class Emit:
    """typed IR -> Gallina: floating expressions over K (F_scope), integer expressions over Z"""

    def __init__(self, zleaves, kleaves, what):
        self.zleaves, self.kleaves, self.what = zleaves, kleaves, what

    def fail(self, msg):
        raise TranslateError("%s: %s" % (self.what, msg))

    def any(self, e, want):
        ty = sl.typeof(e)
        if want == "K":
            return self.K(e) if ty in FLT else "(fz %s)" % self.Z(e)
        if ty in FLT:
            self.fail("a floating value is used where an integer is needed")
        return self.Z(e)

    def Z(self, e):
        return "(%s)%%Z" % self.z(e)

    def z(self, e):
        k = e[0]
        if k == "lit":
            if e[1].denominator != 1:
                self.fail("non-integer literal in index arithmetic")
            return "%d" % int(e[1]) if e[1] >= 0 else "(%d)" % int(e[1])
        if k == "leaf":
            nm = e[1]
            if nm.startswith("C_"):
                nm = nm[2:]
            if nm not in self.zleaves and not nm.startswith("(zlen "):
                self.fail("integer quantity `%s` is outside the vocabulary %s" % (e[1], sorted(self.zleaves)))
            return nm
        if k == "cast":
            if sl.typeof(e[2]) in FLT:
                self.fail("floating -> integer conversion")
            return self.z(e[2])
        if k == "bin":
            if e[2] in FLT or sl.typeof(e[3]) in FLT or sl.typeof(e[4]) in FLT:
                self.fail("floating arithmetic inside an integer expression")
            if e[1] == "/":
                self.fail("integer division")
            return "(%s %s %s)" % (self.z(e[3]), e[1], self.z(e[4]))
        if k == "neg":
            return "(- %s)" % self.z(e[2])
        if k == "opaque":
            self.fail("a value this translator does not understand is used: %s" % e[1])
        self.fail("integer expression of kind %s" % k)

    def K(self, e):
        k = e[0]
        if sl.typeof(e) in INT:
            return "(fz %s)" % self.Z(e)
        if k == "lit":
            return num_coq(e[1])
        if k == "leaf":
            nm = e[1]
            if nm.startswith("C_"):
                nm = nm[2:]
            if nm.startswith("(") or nm in self.kleaves:
                return nm
            self.fail("quantity `%s` is outside the vocabulary %s" % (e[1], sorted(self.kleaves)))
        if k == "cast":
            if e[1] not in FLT:
                self.fail("conversion to %s inside a floating expression" % e[1])
            return self.any(e[2], "K")
        if k == "bin":
            if e[2] not in FLT:
                self.fail("arithmetic in type %s" % e[2])
            return "(%s %s %s)" % (self.any(e[3], "K"), e[1], self.any(e[4], "K"))
        if k == "neg":
            return "(- %s)" % self.any(e[2], "K")
        if k == "call":
            fn, args = e[1], e[3]
            if fn == "sin" and len(args) == 1 and getattr(self, "sinarg", None) is not None and args[0] == self.sinarg:
                return "(fsin (rfk_sin_arg K ftan fsin fasin A0 A1 M phase ampl nb xsize ysize n x))"
            if fn in ("tan", "sin", "asin") and len(args) == 1:
                return "(f%s %s)" % (fn, self.any(args[0], "K"))
            if fn == "pow" and len(args) == 2:
                ex = args[1]
                while ex[0] == "cast" and sl.typeof(ex[2]) in FLT:
                    ex = ex[2]
                if ex[0] == "cast" and sl.typeof(ex[2]) in INT:
                    return "(kpow %s (Z.to_nat %s))" % (self.any(args[0], "K"), self.Z(ex[2]))
                if ex[0] == "lit" and ex[1].denominator == 1 and 0 <= ex[1] <= 16:
                    return "(kpow %s %d%%nat)" % (self.any(args[0], "K"), int(ex[1]))
                self.fail("std::pow with an exponent that is not an integer-valued expression")
            if fn.startswith("nth:") and len(args) == 1:
                return "(nthK %s %s)" % (fn[4:], self.any(args[0], "Z"))
            if fn.startswith("at:") and len(args) == 1:
                return "(ax_at A%s %s)" % (fn[3:], self.any(args[0], "Z"))
            if fn == "accloop":
                bound, step, init = args
                return "(acc_loop %s (fun (acc : K) (i : Z) => %s) %s)" % (self.any(bound, "Z"), self.any(step, "K"), self.any(init, "K"))
            self.fail("library function %s" % fn)
        if k == "opaque":
            self.fail("a value this translator does not understand is used: %s" % e[1])
        self.fail("expression of kind %s" % k)


def kfold(e):
    return sl.fold(e)


# ------------------------------------------------------------------------------------------------ RFKickMap

def rfk_docs():
    return ast_of("src/SM/RFKickMap.cpp", "RFKickMap")


def class_fields(docs, cls):
    for d in docs:
        if d.get("kind") == "CXXRecordDecl" and d.get("name") == cls and any(c.get("kind") == "FieldDecl" for c in kids(d)):
            return d, [c.get("name") for c in kids(d) if c.get("kind") == "FieldDecl"]
    raise TranslateError("definition of class %s not found" % cls)


def base_init(ctor, geo, cls):
    """(name of the parameter handed to KickMap as source grid, kick_is_x)"""
    ini = wu.ctor_inits(ctor)
    base = [k for k in ini if k.startswith("base:") and k.endswith("KickMap") and "RF" not in k.split("::")[-1]]
    base = [k for k in base if k.split("::")[-1] == "KickMap"]
    if len(base) != 1:
        raise TranslateError("%s constructor has no KickMap base initialiser" % cls)
    args = wu.construct_args(ini[base[0]])
    if len(args) != geo["km_nparams"]:
        raise TranslateError("%s constructor hands %d arguments to KickMap (expected %d)" % (cls, len(args), geo["km_nparams"]))
    g = [q["referencedDecl"]["name"] for q in sl.walk(args[geo["km_in"]]) if q.get("kind") == "DeclRefExpr" and
         (q.get("referencedDecl") or {}).get("kind") == "ParmVarDecl"]
    if len(g) != 1:
        raise TranslateError("%s constructor does not hand one of its parameters to KickMap as source grid" % cls)
    en = [q["referencedDecl"]["name"] for q in sl.walk(args[geo["km_kd"]]) if q.get("kind") == "DeclRefExpr" and
          (q.get("referencedDecl") or {}).get("kind") == "EnumConstantDecl"]
    if len(en) != 1 or en[0] not in ("x", "y"):
        raise TranslateError("%s constructor does not hand a literal Axis to KickMap" % cls)
    return g[0], en[0] == "x"


def num_params(ctor):
    """[(name, kind)] of the arithmetic parameters: kind K (floating) | vec (std::vector of floating)"""
    res = []
    for p in params_of(ctor):
        ty = sl.ctype(p)
        q = (p.get("type") or {}).get("desugaredQualType") or (p.get("type") or {}).get("qualType") or ""
        if ty in FLT:
            res.append((p["name"], "K", ty))
        elif "vector<float" in q or "vector<meshaxis_t" in q or "vector<double" in q:
            res.append((p["name"], "vec", "vec"))
        elif ty in INT:
            raise TranslateError("integer constructor parameter `%s`" % p["name"])
    return res


def safe(nm):
    if not re.fullmatch(r"[A-Za-z_][A-Za-z0-9_]*", nm) or nm in ("in", "let", "fun", "if", "then", "else", "match", "with", "end", "at", "as",
                                                                "K", "M", "A0", "A1", "c", "two_pi", "n", "x", "y", "i", "acc", "nb", "nx", "ny",
                                                                "xsize", "ysize", "phase", "ampl", "forall", "exists", "fix", "return"):
        return "p_" + re.sub(r"[^A-Za-z0-9_]", "_", nm)
    return nm


def tr_rfk_ctors(geo):
    docs = rfk_docs()
    cdecl, fields = class_fields(docs, "RFKickMap")
    if fields != FIELDS:
        raise TranslateError("the data members of RFKickMap are %s; Model/RFDriftKit.v (rfk_members) knows %s" % (fields, FIELDS))
    # default arguments of _calcKick from the declaration in the class
    defaults = None
    for c in kids(cdecl):
        if c.get("kind") == "CXXMethodDecl" and c.get("name") == "_calcKick":
            defaults = [(p.get("name"), kids(p)[0] if kids(p) else None) for p in params_of(c)]
    if defaults is None or [d[0] for d in defaults] != ["phase", "ampl"]:
        raise TranslateError("declaration `_calcKick(phase, ampl)` not found in class RFKickMap")
    ctors = [d for d in docs if d.get("kind") == "CXXConstructorDecl" and d.get("name") == "RFKickMap" and
             any(c.get("kind") == "CompoundStmt" for c in kids(d))]
    if len(ctors) != 2:
        raise TranslateError("expected two RFKickMap constructor definitions, found %d" % len(ctors))
    out = {}
    for ctor in ctors:
        grid, kdx = base_init(ctor, geo, "RFKickMap")
        ps = num_params(ctor)
        if any(kd != "K" for _, kd, _ in ps):
            raise TranslateError("RFKickMap constructor with a vector parameter")
        se = RFExec(geo, {grid})
        for nm, _, ty in ps:
            se.env[nm] = ("leaf", safe(nm), ty)
        ini = wu.ctor_inits(ctor)
        vals = {}
        for f in FIELDS:
            if f not in ini or ini[f] is None:
                raise TranslateError("an RFKickMap constructor does not initialise %s" % f)
            try:
                v = se.ex(ini[f])
            except sl.Unknown as e:
                raise TranslateError("mem-initialiser of %s (line %s): %s" % (f, line_of(ini[f]), e))
            vals[f] = v
            se.env["this->" + f] = v
        lin = kfold(vals["_linear"])
        if lin[0] != "blit":
            raise TranslateError("_linear is not initialised with a literal")
        key = "lin" if lin[1] else "sin"
        if key in out:
            raise TranslateError("both RFKickMap constructors set _linear(%s)" % lin[1])
        # body: exactly one call of _calcKick
        body = [c for c in kids(ctor) if c.get("kind") == "CompoundStmt"][0]
        se2 = RFExec(geo, {grid, "this->_in"})
        for nm, _, ty in ps:
            se2.env[nm] = ("leaf", safe(nm), ty)
        for f in FIELDS[1:]:
            se2.env["this->" + f] = ("leaf", "(m%s M)" % f, sl.typeof(vals[f]) if sl.typeof(vals[f]) in FLT else "f32")
        events, call = [], None
        for s in kids(body):
            c = peel(s)
            if c.get("kind") == "NullStmt":
                continue
            if c.get("kind") == "CXXMemberCallExpr" and is_this_member(kids(c)[0], "_calcKick"):
                args = kids(c)[1:]
                if len(args) != 2:
                    raise TranslateError("_calcKick is called with %d arguments" % len(args))
                vs = []
                for a, (pn, dflt) in zip(args, defaults):
                    node = a
                    if a.get("kind") == "CXXDefaultArgExpr":
                        if dflt is None:
                            raise TranslateError("no default for parameter `%s` of _calcKick in the class declaration" % pn)
                        node = dflt
                    try:
                        vs.append(se2.ex(node))
                    except sl.Unknown as e:
                        raise TranslateError("argument `%s` of the constructor's _calcKick call: %s" % (pn, e))
                if call is not None:
                    raise TranslateError("an RFKickMap constructor calls _calcKick twice")
                call = vs
                events.append("RCCalcKick")
            else:
                raise TranslateError("statement at line %s of an RFKickMap constructor body is not the _calcKick call" % line_of(s))
        if call is None:
            raise TranslateError("an RFKickMap constructor does not call _calcKick")
        out[key] = dict(params=ps, kdx=kdx, vals=vals, events=events, call=call)
    if sorted(out) != ["lin", "sin"]:
        raise TranslateError("the two RFKickMap constructors are not one linear and one sinusoidal")
    return out


def tr_calckick(geo):
    docs = rfk_docs()
    got = [(d, c) for d in docs if d.get("kind") == "CXXMethodDecl" and d.get("name") == "_calcKick"
           for c in kids(d) if c.get("kind") == "CompoundStmt"]
    if len(got) != 1:
        raise TranslateError("RFKickMap::_calcKick: %d definitions" % len(got))
    d, body = got[0]
    ps = [p.get("name") for p in params_of(d)]
    if ps != ["phase", "ampl"]:
        raise TranslateError("RFKickMap::_calcKick no longer has the parameters (phase, ampl): %s" % ps)

    def fresh():
        se = RFExec(geo, {"this->_in"})
        se.env["phase"] = ("leaf", "phase", "f32")
        se.env["ampl"] = ("leaf", "ampl", "f32")
        for f in FIELDS[1:]:
            se.env["this->" + f] = ("leaf", "(m%s M)" % f, "f64" if f in ("_revolutionpart", "_bl2phase", "_f_RF") else "f32")
        se.env["this->_xsize"] = ("leaf", "xsize", "u32")
        se.env["this->_ysize"] = ("leaf", "ysize", "u32")
        return se
    events, branches = [], None
    for s in kids(body):
        c = peel(s)
        k = c.get("kind")
        if k == "NullStmt":
            continue
        if k == "IfStmt":
            ks = kids(c)
            if len(ks) != 3:
                raise TranslateError("_calcKick: the `if` has no else branch")
            cond = peel(ks[0])
            pol = True
            if cond.get("kind") == "UnaryOperator" and cond.get("opcode") == "!":
                pol, cond = False, peel(kids(cond)[0])
            if not is_this_member(cond, "_linear"):
                raise TranslateError("_calcKick: the condition of the `if` is not `_linear`")
            if branches is not None:
                raise TranslateError("_calcKick: more than one `if`")
            res = []
            for br, nm in ((ks[1], "then"), (ks[2], "else")):
                se = fresh()
                res.append(fill_nest(stmts_of(br), se, 2, ("n", "x"), "_calcKick, %s branch" % nm))
            branches = dict(lin=res[0], sin=res[1]) if pol else dict(lin=res[1], sin=res[0])
            events.append("RDFill")
        elif k == "CXXMemberCallExpr" and is_this_member(kids(c)[0], "updateSM") and len(kids(c)) == 1:
            events.append("RDUpdateSM")
        else:
            raise TranslateError("_calcKick: statement at line %s is neither the `if (_linear)` nor updateSM() (%s)" % (line_of(s), k))
    if sorted(events) != ["RDFill", "RDUpdateSM"]:
        raise TranslateError("_calcKick: expected one `if (_linear)` and one updateSM(), found %s" % events)
    return events, branches


def tr_drift(geo):
    ds = ctor_def("src/SM/DriftMap.cpp", "DriftMap", "DriftMap")
    if len(ds) != 1:
        raise TranslateError("DriftMap constructor: %d definitions" % len(ds))
    ctor = ds[0]
    grid, kdx = base_init(ctor, geo, "DriftMap")
    ps = num_params(ctor)
    se = RFExec(geo, {grid, "this->_in"}, vec_params=[nm for nm, kd, _ in ps if kd == "vec"])
    for nm, kd, ty in ps:
        if kd == "K":
            se.env[nm] = ("leaf", safe(nm), ty)
    se.env["this->_xsize"] = ("leaf", "xsize", "u32")
    se.env["this->_ysize"] = ("leaf", "ysize", "u32")
    body = [c for c in kids(ctor) if c.get("kind") == "CompoundStmt"][0]
    events, nest, pre = [], None, []
    for s in kids(body):
        c = peel(s)
        k = c.get("kind")
        if k == "NullStmt":
            continue
        if k == "DeclStmt" and nest is None:
            pre.append(c)
        elif k == "ForStmt":
            if nest is not None:
                raise TranslateError("DriftMap constructor: more than one top-level loop")
            nest = fill_nest(pre + [c], se, 1, ("y",), "DriftMap constructor")
            events.append("RDFill")
        elif k == "CXXMemberCallExpr" and is_this_member(kids(c)[0], "updateSM") and len(kids(c)) == 1:
            events.append("RDUpdateSM")
        else:
            raise TranslateError("DriftMap constructor: statement at line %s is neither the loop nor updateSM() (%s)" % (line_of(s), k))
    if sorted(events) != ["RDFill", "RDUpdateSM"]:
        raise TranslateError("DriftMap constructor: expected one loop and one updateSM(), found %s" % events)
    return dict(params=ps, kdx=kdx, events=events, nest=nest)


# ------------------------------------------------------------------------------------------------ output

def prefetch():
    from concurrent.futures import ThreadPoolExecutor
    places = [("src/SM/RFKickMap.cpp", "RFKickMap"), ("src/SM/DriftMap.cpp", "DriftMap"), ("src/SM/KickMap.cpp", "KickMap::KickMap"),
              ("src/SM/SourceMap.cpp", "SourceMap::SourceMap")]
    with ThreadPoolExecutor(max_workers=4) as ex:
        list(ex.map(lambda a: ast_of(*a), places))


def translate():
    prefetch()
    geo = tr_geometry()
    ctors = tr_rfk_ctors(geo)
    cev, br = tr_calckick(geo)
    dm = tr_drift(geo)
    if ctors["lin"]["kdx"] != ctors["sin"]["kdx"]:
        raise TranslateError("the two RFKickMap constructors hand different Axis values to KickMap")
    ZL = {"nb", "nx", "ny", "xsize", "ysize", "n", "x", "y", "i"}
    L = ["(* GENERATED on every run by translate/rfdrift2coq.py from src/SM/RFKickMap.cpp (both constructors, _calcKick),",
         "   inc/SM/RFKickMap.hpp (default arguments), src/SM/DriftMap.cpp (constructor) and the SourceMap / KickMap",
         "   constructors (src/SM/SourceMap.cpp, src/SM/KickMap.cpp). Do not edit.",
         "   A0, A1: the axes in->getAxis(0), in->getAxis(1) of the source grid (SourceMap: _axis[k] = in->getAxis(%s));" %
         "|".join("%d" % p for p in geo["axis_perm"]),
         "   M: the data members of RFKickMap; ftan, fsin, fasin: std::tan, std::sin, std::asin; c, two_pi: physcons::c, two_pi<double>(). *)",
         "From Coq Require Import List ZArith Bool.",
         "From Inovesa Require Import Base.FieldKit Model.RF Model.RFDriftKit.",
         "Import ListNotations.",
         "Local Open Scope Z_scope.",
         "(* SourceMap / KickMap constructors: kdx = (kd == Axis::x); _offset is resized to rfd_offset_size zeros *)",
         "Definition rfd_xsize (kdx : bool) (nx ny nb : Z) : Z := %s." % wu.zcoq(geo["xsize"]),
         "Definition rfd_ysize (kdx : bool) (nx ny nb : Z) : Z := %s." % wu.zcoq(geo["ysize"]),
         "Definition rfd_offset_size (kdx : bool) (nx ny nb : Z) : Z := %s." % wu.zcoq(geo["offset_size"]),
         "(* the Axis the constructors hand to KickMap *)",
         "Definition rfk_kick_is_x : bool := %s." % ("true" if ctors["lin"]["kdx"] else "false"),
         "Definition dm_kick_is_x : bool := %s." % ("true" if dm["kdx"] else "false"),
         "(* RFKickMap::_calcKick(phase, ampl): top-level statements in program order (RDFill = the `if (_linear)` with its two loop nests) *)",
         "Definition rfk_calc_prog : list rfd_stmt := [%s]." % "; ".join(cev)]
    for key in ("lin", "sin"):
        bounds, idx, val = br[key]
        ez = Emit(ZL - {"y", "i"}, set(), "_calcKick (%s branch), loop bounds / index" % key)
        L += ["(* %s branch: bounds of the outer and the inner loop; the element written by iteration (n, x) *)" % ("linear" if key == "lin" else "sinusoidal"),
              "Definition rfk_%s_outer (nb xsize ysize : Z) : Z := %s." % (key, ez.any(sl.nocast(kfold(bounds[0])), "Z")),
              "Definition rfk_%s_inner (nb xsize ysize : Z) : Z := %s." % (key, ez.any(sl.nocast(kfold(bounds[1])), "Z")),
              "Definition rfk_%s_index (nb xsize ysize n x : Z) : Z := %s." % (key, ez.any(idx, "Z"))]
    bounds, idx, val = dm["nest"]
    ez = Emit(ZL - {"n", "x", "i"}, set(), "DriftMap constructor, loop bound / index")
    L += ["(* DriftMap constructor: body statements in program order; the loop over the energy axis *)",
          "Definition dm_prog : list rfd_stmt := [%s]." % "; ".join(dm["events"]),
          "Definition dm_bound (nb xsize ysize : Z) : Z := %s." % ez.any(sl.nocast(kfold(bounds[0])), "Z"),
          "Definition dm_index (nb xsize ysize y : Z) : Z := %s." % ez.any(idx, "Z"),
          "(* constructor bodies of RFKickMap *)",
          "Definition rfk_ctor_lin_body : list rfk_cstmt := [%s]." % "; ".join(ctors["lin"]["events"]),
          "Definition rfk_ctor_sin_body : list rfk_cstmt := [%s]." % "; ".join(ctors["sin"]["events"]),
          "",
          "Local Open Scope F_scope.",
          "(* the value _calcKick leaves in the element written by iteration (n, x) *)"]
    KL = {"phase", "ampl"}
    sinargs = sorted({t[3][0] for key in ("lin", "sin") for t in sl.subterms(kfold(br[key][2])) if t[0] == "call" and t[1] == "sin"}, key=repr)
    if len(sinargs) != 1 or any(t[0] == "call" and t[1] == "sin" for t in sl.subterms(kfold(br["lin"][2]))):
        raise TranslateError("_calcKick: expected std::sin with one argument expression in the sinusoidal branch only, found %d" % len(sinargs))
    if any(t[0] == "call" and t[1] == "sin" for t in sl.subterms(sinargs[0])):
        raise TranslateError("_calcKick: nested std::sin")
    ek = Emit(ZL - {"y", "i"}, KL, "_calcKick (sinusoidal branch), argument of std::sin")
    L += ["(* the argument of std::sin in the sinusoidal branch *)",
          "Definition rfk_sin_arg (K : Fld) (ftan fsin fasin : K -> K) (A0 A1 : axfacts K) (M : rfk_members K) (phase ampl : K) (nb xsize ysize n x : Z) : K :=\n  %s." %
          ek.any(sinargs[0], "K")]
    SINARG = sinargs[0]
    for key in ("lin", "sin"):
        bounds, idx, val = br[key]
        ek = Emit(ZL - {"y", "i"}, KL, "_calcKick (%s branch), value" % key)
        ek.sinarg = SINARG
        L.append("Definition rfk_%s_value (K : Fld) (ftan fsin fasin : K -> K) (A0 A1 : axfacts K) (M : rfk_members K) (phase ampl : K) (nb xsize ysize n x : Z) : K :=\n  %s." %
                 (key, ek.any(kfold(val), "K")))
    for key in ("lin", "sin"):
        ct = ctors[key]
        pn = [safe(nm) for nm, _, _ in ct["params"]]
        ek = Emit(set(), set(pn) | {"c", "two_pi"}, "RFKickMap constructor (%s)" % ("linear" if key == "lin" else "sinusoidal"))
        mem = []
        for f in FIELDS:
            v = kfold(ct["vals"][f])
            if f == "_linear":
                mem.append("true" if v[1] else "false")
            else:
                mem.append(ek.any(v, "K"))
        L += ["(* %s constructor: the members after the mem-initialisers (declaration order), the arguments of its _calcKick call *)" %
              ("linear" if key == "lin" else "sinusoidal"),
              "Definition rfk_ctor_%s_members (K : Fld) (ftan fsin fasin : K -> K) (A0 A1 : axfacts K) (c two_pi : K) (%s : K) : rfk_members K :=\n  mkRFK %s." %
              (key, " ".join(pn), "\n    ".join(mem))]
        ek2 = Emit(set(), set(pn), "RFKickMap constructor (%s), _calcKick arguments" % key)
        L += ["Definition rfk_ctor_%s_phase (K : Fld) (ftan fsin fasin : K -> K) (A0 A1 : axfacts K) (M : rfk_members K) (%s : K) : K := %s." %
              (key, " ".join(pn), ek2.any(kfold(ct["call"][0]), "K")),
              "Definition rfk_ctor_%s_ampl (K : Fld) (ftan fsin fasin : K -> K) (A0 A1 : axfacts K) (M : rfk_members K) (%s : K) : K := %s." %
              (key, " ".join(pn), ek2.any(kfold(ct["call"][1]), "K"))]
    bounds, idx, val = dm["nest"]
    binders = " ".join("(%s : %s)" % (safe(nm), "K" if kd == "K" else "list K") for nm, kd, _ in dm["params"])
    ek = Emit(ZL - {"n", "x"}, {safe(nm) for nm, kd, _ in dm["params"] if kd == "K"} | {"acc"}, "DriftMap constructor, value")
    L += ["(* DriftMap constructor: the value left in the element written by iteration y *)",
          "Definition dm_value (K : Fld) (ftan fsin fasin : K -> K) (A0 A1 : axfacts K) %s (nb xsize ysize y : Z) : K :=\n  %s." % (binders, ek.any(kfold(val), "K"))]
    return "\n".join(L) + "\n"


if __name__ == "__main__":
    dst = sys.argv[1] if len(sys.argv) > 1 else os.path.join(VERIF, "coq", "Gen", "Gen_RFDrift.v")
    try:
        text = translate()
    except TranslateError as e:
        print("TRANSLATE-ERROR Gen_RFDrift: %s" % e)
        sys.exit(2)
    except (KeyError, IndexError, TypeError, AttributeError, ValueError) as e:
        print("TRANSLATE-ERROR Gen_RFDrift: unexpected AST shape (%s: %s)" % (type(e).__name__, e))
        sys.exit(2)
    ch = write_if_changed(dst, text)
    print("Gen_RFDrift.v %s" % ("regenerated" if ch else "unchanged"))
