#!/usr/bin/env python3
# GEN: Gen_Scaling
"""Gen_Scaling.v: the derived quantities main() hands to the maps, the fields and the results file, as exact
expressions over a generic field.

Source read: the set-up part of main() (src/main.cpp) by symbolic execution (translate/scaling_lib.py).  A quantity
is identified by the *parameter of the callee it reaches* (names from the callee's own declaration):
  angle          `angle` of RFKickMap / DynamicRFKickMap (linear constructors)      [also slip[0]]
  slip           `slip` of DriftMap (three expressions)
  e1             `e1` of FokkerPlanckMap
  dt, revolutionpart, f_rev, E0, sigma_delta   of the ElectricField that takes (Ib, E0, sigma_delta, dt)
  fmax, R_bend   of makeImpedance (both calls must agree)
  t_sync, f_rev  of HDF5File;  time  = second argument of HDF5File::append(ps, t, at) inside/after the loop
  sinusoidal RF: revolutionpart, V_RF, f_RF, V0 of the sinusoidal constructors
  qmin, qmax, pmin, pmax   of the PhaseSpace constructor that takes the axis extents (and of makePSFromHDF5 / makePSFromTXT,
                 which must receive the same four expressions); axis_steps = first argument of PhaseSpace::setSize
  ps_Meter, ps_ElectronVolt   what main() passes for the PhaseSpace constructor parameters that become the "Meter" scale of
                 axis 0 / the "ElectronVolt" scale of axis 1 (pairing read from the constructor's own Ruler constructions)
Everything is inlined down to the leaves: options (O_<getter>), physical constants (C_<name>), program state
(S_<local>); conditions become the abstract predicates of Model/ScalingOps.v (o_lt, o_is0 ...), sqrt/sign/ceil the
abstract functions o_sqrt ...; pow with a small literal exponent is a product.  Conversions between arithmetic types are
identities here (exact arithmetic); the code's own rounding is the business of Gen_ScalingZ.v.
Fails loudly (TranslateError) when a sink or a shape is not found."""
import sys, os, json
sys.path.insert(0, os.path.dirname(os.path.abspath(__file__)))
from cxx_ast import *
import scaling_lib as sl


def translate():
    se = sl.run_main()
    R = sl.roles(se)
    if sl.nocast(R["wakeimp_fmax"]) != sl.nocast(R["rdtnimp_fmax"]) or sl.nocast(R["wakeimp_R_bend"]) != sl.nocast(R["rdtnimp_R_bend"]):
        raise TranslateError("the two makeImpedance calls no longer receive the same fmax / R_bend")
    if sl.nocast(R["slip"][2][0]) != sl.nocast(R["angle"]):
        # not an error of the translator: the theorem C03_gen_slip_first will say so
        pass
    Q = {}
    Q["angle"] = R["angle"]
    Q["slip"] = R["slip"]
    Q["e1"] = R["e1"]
    Q["dt"] = R["wake_dt"]
    Q["revolutionpart"] = R["wake_revolutionpart"]
    Q["rdtn_revolutionpart"] = R["rdtn_revolutionpart"]
    Q["f_rev"] = R["wake_f_rev"]
    Q["E0"] = R["wake_E0"]
    Q["sigma_delta"] = R["wake_sigma_delta"]
    Q["fmax"] = R["wakeimp_fmax"]
    Q["R_bend"] = R["wakeimp_R_bend"]
    if "h5_t_sync" not in R or "h5_time" not in R:
        raise TranslateError("construction of the results file (t_sync) or its append(ps, t, at) calls not found in main()")
    Q["t_sync"] = R["h5_t_sync"]
    Q["h5_f_rev"] = R["h5_f_rev"]
    Q["h5_time"] = R["h5_time"]
    Q["linrf_f_RF"] = R["linrf_f_RF"]
    Q["drift_E0"] = R["drift_E0"]
    for nm in ("revolutionpart", "V_RF", "f_RF", "V0"):
        if "sinrf_" + nm not in R:
            raise TranslateError("sinusoidal RF constructor argument %s not found" % nm)
        Q["sinrf_" + nm] = R["sinrf_" + nm]
    if "dynrf_revolutionpart" in R:
        Q["dynrf_revolutionpart"] = R["dynrf_revolutionpart"]
    for nm in ("qmin", "qmax", "pmin", "pmax", "steps"):
        Q[("axis_" if nm == "steps" else "") + nm] = R["axis_" + nm]
    # (st2h5) the unit scales the first grid carries into the results file ("Meter" of axis 0, "ElectronVolt" of axis 1)
    Q["ps_Meter"] = R["ps_scale_Meter"]
    Q["ps_ElectronVolt"] = R["ps_scale_ElectronVolt"]
    em = sl.EmitK()
    defs = []
    for nm, e in Q.items():
        ty = "list K" if e[0] == "vec" else "K"
        defs.append("Definition gen_%s (K : Fld) (O : Ops K) (L : leaf -> K) (B : bleaf -> bool) : %s :=\n    %s." % (nm, ty, em.term(e)))
    leaves = sorted(em.leaves)
    bleaves = sorted(em.bleaves) + ["B_unused"]
    out = ["(* GENERATED on every run by translate/scaling2coq.py from main() of src/main.cpp (symbolic execution of the",
           "   set-up code; each quantity is the expression that reaches the named constructor parameter). Do not edit. *)",
           "From Coq Require Import List ZArith Bool.",
           "From Inovesa Require Import Base.FieldKit Model.ScalingOps.",
           "Import ListNotations.",
           "(* leaves: O_<getter> = option read through ProgramOptions::<getter>(); C_<name> = physcons::<name> / two_pi;",
           "   S_<local> = program state (loop counter) *)",
           "Inductive leaf := %s." % " | ".join(leaves),
           "Inductive bleaf := %s." % " | ".join(bleaves),
           "Local Open Scope F_scope.", "Local Open Scope bool_scope.", ""]
    out += defs
    info = dict(leaves=leaves, bleaves=bleaves, quantities={k: sl.ir_json(sl.fold(v)) for k, v in Q.items()},
                roles={k: sl.ir_json(sl.fold(v)) for k, v in R.items() if v is not None and not sl.opaques_of(v)})
    return "\n".join(out) + "\n", info


def info_path(dst):
    return os.path.splitext(dst)[0] + ".info.json"


if __name__ == "__main__":
    dst = sys.argv[1] if len(sys.argv) > 1 else os.path.join(VERIF, "coq", "Gen", "Gen_Scaling.v")
    try:
        text, info = translate()
    except TranslateError as e:
        print("TRANSLATE-ERROR Gen_Scaling: %s" % e)
        if os.path.exists(info_path(dst)):
            os.remove(info_path(dst))       # the evaluator then falls back to the last-good copy, like the .v file
        sys.exit(2)
    ch = write_if_changed(dst, text)
    write_if_changed(info_path(dst), json.dumps(info, sort_keys=True))
    print("Gen_Scaling.v %s" % ("regenerated" if ch else "unchanged"))
