#!/usr/bin/env python3
# GEN: Gen_Imp
"""Gen_Imp.v: the closed-form impedance models, Impedance::operator+= and the factory, read from the
clang JSON AST of /repo's working tree (src/Z/*.cpp).

What is read (anything else in these bodies fails loudly):
  * FreeSpaceCSR / ResistiveWall / ConstImpedance ::__calcImpedance - a vector `rv` built by local
    `const` declarations, counting loops `for (size_t i = LO; i < HI | i <= HI; i++) rv.push_back(E);`
    and `rv.resize(K, V)`; or a vector of n equal samples `rv(n, V)` filled by counting loops `rv[I] = E;`;
    `rv.reserve` is ignored; `return rv`.
  * the constructors of FreeSpaceCSR, ResistiveWall, ConstImpedance (which arguments go to
    __calcImpedance), CollimatorImpedance (which arguments go to ConstImpedance, incl. the constant
    `{Z0/pi*log(outer/inner), 0}`) and Impedance(nfreqs, f_max) (`std::vector<impedance_t>(nfreqs, 0)`).
  * Impedance::operator+= - local declarations, one counting loop whose body is
    `_data[I] += rhs._data[J]` (or `_data[I] = _data[I] + rhs._data[J]`), `return *this`.
  * vfps::makeImpedance - declarations, assignments to `impedance_changed` / `rv`, `*rv += Class(args)`,
    `if`/`else`, `Display::printText` (ignored), `return rv`.
Emitted: Gallina definitions over a generic field K with the transcendental leaves (std::pow, sqrt, log,
abs, pi, physcons::c, Impedance::Z0), the comparisons, the complex addition and the parallel-plates
sample value (Airy functions: only the loop skeleton of ParallelPlatesCSR::__calcImpedance is translated - a vector
of n zeros and one counting loop `rv[i] = ...` whose other statements do not touch the vector) supplied by a record
`Leaves K` (Model/ImpKit.v).  Integer (size_t) arithmetic becomes Z arithmetic (`/` is integer division; unsigned
subtraction is Z subtraction - the theorems assume n >= 1 where the code computes n-1), an
integer-to-floating conversion becomes `fz`."""
import sys, os, re
sys.path.insert(0, os.path.dirname(os.path.abspath(__file__)))
from cxx_ast import *

RESERVED = {"fun", "let", "in", "if", "then", "else", "match", "with", "end", "fix", "as", "at", "forall", "exists",
            "Type", "Prop", "Set", "return", "where", "using", "cofix", "for", "K", "E", "fz", "fst", "snd", "true", "false",
            "negb", "andb", "orb", "seg", "resize", "setz", "for_upd", "nthz", "zlen", "fill", "cmulr", "cmull", "cpx",
            "cpx0", "Some", "None", "pi", "Z", "list", "option", "bool"}
WRAP = ("ImplicitCastExpr", "ParenExpr", "CXXFunctionalCastExpr", "CStyleCastExpr", "CXXStaticCastExpr",
        "ExprWithCleanups", "MaterializeTemporaryExpr", "CXXBindTemporaryExpr", "ConstantExpr")
PASS_CASTS = (None, "LValueToRValue", "NoOp", "FloatingCast", "IntegralCast", "FunctionToPointerDecay",
              "ConstructorConversion", "DerivedToBase", "ArrayToPointerDecay", "UserDefinedConversion", "NullToPointer")


def ident(nm):
    return nm + "'" if nm in RESERVED else nm


def qtype(n):
    return (n.get("type") or {}).get("qualType", "")


def ty_of(q, strict=True):
    """Z integer, K floating, C complex sample, B bool, V vector of samples, F file name, P pointer/handle"""
    q = q.replace("const ", "").replace("vfps::", "").replace(" &", "").strip()
    if q.endswith("::value_type") and "complex<" in q:
        return "C"
    if "vector<" in q:
        return "V"
    if "impedance_t" in q or "complex<" in q:
        return "C"
    if q in ("size_t", "unsigned long", "int", "unsigned int", "long", "uint32_t", "meshindex_t", "std::size_t"):
        return "Z"
    if q in ("float", "double", "frequency_t", "csrpower_t", "data_t", "meshaxis_t"):
        return "K"
    if q == "bool":
        return "B"
    if "string" in q:
        return "F"
    if "oclhptr_t" in q or "nullptr" in q or "shared_ptr" in q:
        return "P"
    if "unique_ptr" in q:
        return "U"
    if not strict:
        return "O"
    raise TranslateError("type not understood: %s" % q)


COQTY = {"Z": "Z", "K": "K", "C": "cpx K", "B": "bool", "V": "list (cpx K)", "F": "option (list (cpx K))",
         "U": "option (list (cpx K))"}


def unwrap(n):
    """strip value-preserving wrappers; returns (node, int_to_float?)"""
    i2f = False
    while n.get("kind") in WRAP:
        ck = n.get("castKind")
        if ck == "IntegralToFloating":
            i2f = True
        elif ck not in PASS_CASTS:
            raise TranslateError("cast %s not understood" % ck)
        ks = kids(n)
        if len(ks) != 1:
            raise TranslateError("wrapper %s with %d children" % (n.get("kind"), len(ks)))
        n = ks[0]
    return n, i2f


def callee_name(n):
    c, _ = unwrap(kids(n)[0])
    return (c.get("referencedDecl") or {}).get("name") if c.get("kind") == "DeclRefExpr" else c.get("name")


def knum(q):
    """rational literal over K: small integers as sums of ones (what fld_nz recognises), others through fz"""
    def ki(m):
        return {0: "0", 1: "1", 2: "(1+1)", 3: "(1+(1+1))"}.get(m) or "(@fz K %d%%Z)" % m
    s = ki(abs(q.numerator))
    if q.denominator != 1:
        s = "(%s / %s)" % (s, ki(q.denominator))
    return s if q >= 0 else "(- (%s))" % s


def znum(v):
    return "%d%%Z" % v if v >= 0 else "(%d)%%Z" % v


class Tr:
    """expression translator; env: C++ name -> (type, Gallina term)"""

    def __init__(self, this_members=None):
        self.members = this_members or {}

    def ex(self, n, env):
        n, i2f = unwrap(n)
        if i2f:
            if n.get("kind") == "IntegerLiteral":
                return "K", knum(Fraction(int(n["value"])))
            if n.get("kind") == "UnaryOperator" and n.get("opcode") == "-" and unwrap(kids(n)[0])[0].get("kind") == "IntegerLiteral":
                return "K", knum(Fraction(-int(unwrap(kids(n)[0])[0]["value"])))
            t, s = self.ex1(n, env)
            if t != "Z":
                raise TranslateError("integer-to-floating conversion of a non-integer")
            return "K", "(@fz K %s)" % s
        return self.ex1(n, env)

    def ex1(self, n, env):
        k = n.get("kind")
        if k == "IntegerLiteral":
            return "Z", znum(int(n["value"]))
        if k == "FloatingLiteral":
            return "K", knum(Fraction(repr(float(n["value"]))))
        if k == "CXXBoolLiteralExpr":
            return "B", "true" if n.get("value") else "false"
        if k == "CXXNullPtrLiteralExpr":
            return "U", "None"
        if k == "CXXDefaultArgExpr":
            return "D", ""
        if k == "DeclRefExpr":
            nm = n["referencedDecl"]["name"]
            if nm in env:
                return env[nm]
            if nm == "Z0" and ty_of(qtype(n)) == "K":
                return "K", "(l_Z0 E)"         # Impedance::Z0
            if nm == "c" and ty_of(qtype(n)) == "K":
                return "K", "(l_c E)"          # physcons::c
            raise TranslateError("unknown variable %s" % nm)
        if k == "MemberExpr":
            base, _ = unwrap(kids(n)[0])
            who = "this" if base.get("kind") == "CXXThisExpr" else (base.get("referencedDecl") or {}).get("name")
            key = (who, n.get("name"))
            if key in self.members:
                return self.members[key]
            raise TranslateError("member access %s.%s not understood" % key)
        if k == "UnaryOperator":
            op = n.get("opcode")
            t, s = self.ex(kids(n)[0], env)
            if op == "-" and t in ("Z", "K"):
                return t, "(- (%s))" % s
            if op == "+" and t in ("Z", "K"):
                return t, s
            if op == "!" and t == "B":
                return "B", "(negb %s)" % s
            if op == "*" and t == "V":      # *this / *rv handled by the callers through env
                return t, s
            raise TranslateError("unary %s on type %s" % (op, t))
        if k == "BinaryOperator":
            op = n.get("opcode")
            (ta, a), (tb, b) = (self.ex(c, env) for c in kids(n))
            if op in ("+", "-", "*", "/"):
                if ta == tb == "Z":
                    return "Z", "(%s %s %s)%%Z" % (a, op, b)
                if ta == tb == "K":
                    return "K", "(%s %s %s)" % (a, op, b)
                raise TranslateError("arithmetic %s between types %s and %s" % (op, ta, tb))
            if op in ("<", "<=", ">", ">=", "==", "!="):
                if op in (">", ">="):
                    a, b, op = b, a, {">": "<", ">=": "<="}[op]
                if ta == tb == "K":
                    s = {"<": "(l_ltb E %s %s)", "<=": "(l_leb E %s %s)", "==": "(l_eqb E %s %s)", "!=": "(negb (l_eqb E %s %s))"}[op]
                elif ta == tb == "Z":
                    s = {"<": "(%s <? %s)%%Z", "<=": "(%s <=? %s)%%Z", "==": "(%s =? %s)%%Z", "!=": "(negb (%s =? %s)%%Z)"}[op]
                else:
                    raise TranslateError("comparison between types %s and %s" % (ta, tb))
                return "B", s % (a, b)
            if op in ("&&", "||") and ta == tb == "B":
                return "B", "(%s %s %s)" % (a, op, b)
            raise TranslateError("binary operator %s on types %s, %s" % (op, ta, tb))
        if k == "CallExpr":
            nm = callee_name(n)
            args = [self.ex(c, env) for c in kids(n)[1:]]
            tys = [t for t, _ in args]
            sa = [s for _, s in args]
            if nm == "pow" and tys == ["K", "K"]:
                return "K", "(l_pw E %s %s)" % tuple(sa)
            if nm == "sqrt" and tys == ["K"]:
                return "K", "(l_sq E %s)" % sa[0]
            if nm == "log" and tys == ["K"]:
                return "K", "(l_lg E %s)" % sa[0]
            if nm in ("abs", "fabs") and tys == ["K"]:
                return "K", "(l_ab E %s)" % sa[0]
            if nm == "pi" and not tys:
                return "K", "(l_pi E)"
            if nm == "two_pi" and not tys:
                return "K", "((1+1) * l_pi E)"
            if nm in ("min", "max") and tys == ["Z", "Z"]:
                return "Z", "(Z.%s %s %s)" % (nm, sa[0], sa[1])
            if nm == "make_unique" and "Impedance" in qtype(n) and tys == ["Z", "K", "P"]:
                return "U", "(Some (Impedance_zeros K E %s))" % sa[0]
            raise TranslateError("call of %s(%s) not understood" % (nm, ",".join(tys)))
        if k == "CXXOperatorCallExpr":
            nm = callee_name(n)
            if nm == "operator!=" and len(kids(n)) == 3:
                lit, _ = unwrap(kids(n)[2])
                ta, a = self.ex(kids(n)[1], env)
                if ta == "F" and lit.get("kind") == "StringLiteral" and lit.get("value") == '""':
                    return "B", "(file_given %s)" % a
                raise TranslateError("operator!= that is not `<file name> != \"\"`")
            args = [self.ex(c, env) for c in kids(n)[1:]]
            tys = [t for t, _ in args]
            sa = [s for _, s in args]
            if nm == "operator*" and tys == ["C", "K"]:
                return "C", "(cmulr %s %s)" % tuple(sa)
            if nm == "operator*" and tys == ["K", "C"]:
                return "C", "(cmull %s %s)" % tuple(sa)
            if nm == "operator*" and tys == ["U"]:
                return "U", sa[0]
            if nm == "operator+" and tys == ["C", "C"]:
                return "C", "(l_cadd E %s %s)" % tuple(sa)
            if nm == "operator[]" and tys == ["V", "Z"]:
                return "C", "(nthz cpx0 %s %s)" % tuple(sa)
            raise TranslateError("operator call %s(%s) not understood" % (nm, ",".join(tys)))
        if k == "CXXMemberCallExpr":
            me = kids(n)[0]
            if me.get("kind") == "MemberExpr" and me.get("name") == "empty" and len(kids(n)) == 1:
                t, a = self.ex(kids(me)[0], env)
                if t == "F":
                    return "B", "(negb (file_given %s))" % a       # impedance_file.empty()
            raise TranslateError("member call %s not understood" % me.get("name"))
        if k in ("CXXTemporaryObjectExpr", "CXXConstructExpr", "InitListExpr"):
            t = ty_of(qtype(n), strict=False)
            args = [self.ex(c, env) for c in kids(n)]
            args = [a for a in args if a[0] not in ("D", "P")]
            tys = [a[0] for a in args]
            sa = [a[1] for a in args]
            if t == "C":
                if tys == ["K", "K"]:
                    return "C", "(%s, %s)" % tuple(sa)
                if tys == ["K"]:
                    return "C", "(%s, 0)" % sa[0]
                if tys == ["C"]:
                    return "C", sa[0]
                raise TranslateError("complex constructed from (%s)" % ",".join(tys))
            if t == "V":
                if tys == ["V"]:
                    return "V", sa[0]
                if not tys:
                    return "V", "[]"
                if tys == ["Z", "C"]:
                    return "V", "(fill %s %s)" % tuple(sa)
                if tys == ["Z"]:
                    return "V", "(fill %s (0, 0))" % sa[0]
                raise TranslateError("vector constructed from (%s)" % ",".join(tys))
            q = qtype(n).replace("const ", "").replace("vfps::", "").strip()
            if q in CTORS:
                want = CTORS[q]
                if tys != want:
                    raise TranslateError("%s constructed from (%s), expected (%s)" % (q, ",".join(tys), ",".join(want)))
                return "V", "(%s_ctor %s)" % (q, " ".join(sa))
            if q == "Impedance" and tys[:1] == ["F"]:
                return "V", "(file_data %s)" % sa[0]
            if q == "Impedance" and tys == ["V"]:
                return "V", sa[0]
            if q == "std::string" or q.startswith("basic_string") or "unique_ptr" in q:
                if len(args) == 1:
                    return args[0]
            raise TranslateError("construction of %s from (%s) not understood" % (q, ",".join(tys)))
        raise TranslateError("expression kind %s" % k)


# class -> constructor parameter types (without the OpenCL handle), filled by ctor_function
CTORS = {}


def params_of(d, strict=True):
    ps = []
    for c in d.get("inner", []):
        if c.get("kind") == "ParmVarDecl":
            ps.append((c.get("name"), ty_of(qtype(c), strict)))
    return ps


def env_of(ps):
    return {nm: (t, ident(nm)) for nm, t in ps}


def sig(ps):
    return " ".join("(%s : %s)" % (ident(nm), COQTY[t]) for nm, t in ps if t != "P")


def stmts_of(body):
    return [s for s in kids(body) if s.get("kind") != "NullStmt"]


def loop_parts(f, tr, env):
    """for (size_t i = LO; i < HI | i <= HI; i++ | ++i) BODY  ->  (i, lo, hi(exclusive), [body stmts])"""
    init, _, cond, inc, body = (f.get("inner") + [None] * 5)[:5]
    if not init or init.get("kind") != "DeclStmt" or len(kids(init)) != 1:
        raise TranslateError("loop without a single counter declaration")
    v = kids(init)[0]
    iv = v.get("name")
    if ty_of(qtype(v)) != "Z" or not kids(v):
        raise TranslateError("loop counter is not an initialised integer")
    tlo, lo = tr.ex(kids(v)[0], env)
    if tlo != "Z":
        raise TranslateError("loop start is not an integer expression")
    cond, _ = unwrap(cond)
    if cond.get("kind") != "BinaryOperator" or cond.get("opcode") not in ("<", "<=", ">", ">="):
        raise TranslateError("loop condition is not a comparison")
    a, b = kids(cond)
    op = cond["opcode"]
    if op in (">", ">="):
        a, b, op = b, a, {">": "<", ">=": "<="}[op]
    an, _ = unwrap(a)
    if an.get("kind") != "DeclRefExpr" or an["referencedDecl"]["name"] != iv:
        raise TranslateError("loop condition does not bound the counter from above")
    thi, hi = tr.ex(b, env)
    if thi != "Z":
        raise TranslateError("loop bound is not an integer expression")
    if op == "<=":
        hi = "(%s + 1)%%Z" % hi
    inc, _ = unwrap(inc)
    ok = inc.get("kind") == "UnaryOperator" and inc.get("opcode") == "++" and \
        unwrap(kids(inc)[0])[0].get("referencedDecl", {}).get("name") == iv
    if not ok:
        raise TranslateError("loop increment is not ++ of the counter")
    bs = stmts_of(body) if body.get("kind") == "CompoundStmt" else [body]
    return iv, lo, hi, bs


def member_call(s):
    """rv.method(args) -> (object name, method, [arg nodes]) or None"""
    s, _ = unwrap(s)
    if s.get("kind") != "CXXMemberCallExpr":
        return None
    me = kids(s)[0]
    obj, _ = unwrap(kids(me)[0])
    if me.get("kind") != "MemberExpr" or obj.get("kind") != "DeclRefExpr":
        return None
    return obj["referencedDecl"]["name"], me.get("name"), kids(s)[1:]


def refers_to(n, name):
    return bool(find_in(n, lambda x: x.get("kind") == "DeclRefExpr" and (x.get("referencedDecl") or {}).get("name") == name))


def assignment_to_cell(st, vec, tr, env):
    """rv[IDX] = E  ->  (IDX term, E node) or None"""
    u, _ = unwrap(st)
    if u.get("kind") != "CXXOperatorCallExpr" or callee_name(u) != "operator=" or len(kids(u)) != 3:
        return None
    lhs, _ = unwrap(kids(u)[1])
    if lhs.get("kind") != "CXXOperatorCallExpr" or callee_name(lhs) != "operator[]":
        return None
    tv, vv = tr.ex(kids(lhs)[1], env)
    ti, idx = tr.ex(kids(lhs)[2], env)
    if (tv, vv, ti) != ("V", ident(vec), "Z"):
        return None
    return idx, kids(u)[2]


def calc_function(src, cls, out, opaque=None):
    """<cls>::__calcImpedance: a vector built by push_back loops / resize, or a pre-sized vector filled by a counting
    loop `rv[IDX] = E`.  With opaque=<leaf>, statements that do not mention the vector are skipped and the assigned
    value becomes the leaf applied to the parameters and the counter (ParallelPlatesCSR: Airy functions)."""
    docs = ast_of(src, cls + "::__calcImpedance")
    d, body = body_of(docs, "__calcImpedance")
    ps = params_of(d)
    env = env_of(ps)
    tr = Tr()
    lines = []
    vec = None
    ret = None
    for s in stmts_of(body):
        k = s.get("kind")
        if ret is not None:
            raise TranslateError("%s::__calcImpedance: statement after return" % cls)
        if k == "DeclStmt":
            for v in kids(s):
                if v.get("kind") != "VarDecl":
                    raise TranslateError("declaration kind %s" % v.get("kind"))
                if opaque and vec is not None and not refers_to(v, vec):
                    continue
                t = ty_of(qtype(v), strict=not opaque)
                if t == "V":
                    if vec is not None:
                        raise TranslateError("%s::__calcImpedance: two vectors" % cls)
                    te, e = tr.ex(kids(v)[0], env) if kids(v) else ("V", "[]")
                    if te != "V" or not (e == "[]" or e.startswith("(fill ")):
                        raise TranslateError("%s::__calcImpedance: the vector starts neither empty nor as n equal samples" % cls)
                    vec = v["name"]
                    env[vec] = ("V", ident(vec))
                    lines.append("let %s := %s in" % (ident(vec), "(@nil (cpx K))" if e == "[]" else e))
                elif opaque:
                    continue
                else:
                    if "const" not in qtype(v):
                        raise TranslateError("%s::__calcImpedance: local %s is not const" % (cls, v["name"]))
                    te, e = tr.ex(kids(v)[0], env)
                    if te != t:
                        raise TranslateError("local %s of type %s initialised with type %s" % (v["name"], t, te))
                    env[v["name"]] = (t, ident(v["name"]))
                    lines.append("let %s := %s in" % (ident(v["name"]), e))
            continue
        if vec is None:
            raise TranslateError("%s::__calcImpedance: statement before the vector is declared" % cls)
        mc = member_call(s)
        if mc and mc[0] == vec and mc[1] == "reserve":
            continue
        if mc and mc[0] == vec and mc[1] == "resize" and len(mc[2]) == 2:
            (tk, kk), (tz, zz) = tr.ex(mc[2][0], env), tr.ex(mc[2][1], env)
            if (tk, tz) != ("Z", "C"):
                raise TranslateError("resize(%s,%s)" % (tk, tz))
            lines.append("let %s := resize %s %s %s in" % (ident(vec), ident(vec), kk, zz))
            continue
        if k == "ForStmt":
            iv, lo, hi, bs = loop_parts(s, tr, env)
            env2 = dict(env)
            env2[iv] = ("Z", ident(iv))
            touching = [b for b in bs if refers_to(b, vec)]
            if len(touching) != 1 or touching[0] is not bs[-1] or (len(bs) != 1 and not opaque):
                raise TranslateError("%s::__calcImpedance: loop body is not one statement on %s" % (cls, vec))
            mc = member_call(bs[-1])
            if mc and mc[0] == vec and mc[1] == "push_back" and len(mc[2]) == 1 and not opaque:
                te, e = tr.ex(mc[2][0], env2)
                if te != "C":
                    raise TranslateError("push_back of a non-complex value")
                lines.append("let %s := %s ++ seg %s %s (fun %s : Z => %s) in" % (ident(vec), ident(vec), lo, hi, ident(iv), e))
                continue
            asg = assignment_to_cell(bs[-1], vec, tr, env2)
            if asg is None:
                raise TranslateError("%s::__calcImpedance: loop body is neither %s.push_back(...) nor %s[...] = ..." % (cls, vec, vec))
            idx, en = asg
            if opaque:
                if refers_to(en, vec):
                    raise TranslateError("%s::__calcImpedance: the assigned value reads the vector" % cls)
                e = "(%s E %s %s)" % (opaque, " ".join(ident(nm) for nm, t in ps if t != "P"), ident(iv))
            else:
                te, e = tr.ex(en, env2)
                if te != "C":
                    raise TranslateError("assignment of a non-complex value")
            lines.append("let %s := for_upd %s %s (fun (%s : Z) (%s : list (cpx K)) => setz %s %s %s) %s in"
                         % (ident(vec), lo, hi, ident(iv), ident(vec), ident(vec), idx, e, ident(vec)))
            continue
        if k == "ReturnStmt":
            te, e = tr.ex(kids(s)[0], env)
            if te != "V" or e != ident(vec):
                raise TranslateError("%s::__calcImpedance does not return its vector" % cls)
            ret = e
            continue
        if opaque and not refers_to(s, vec):
            continue
        raise TranslateError("%s::__calcImpedance: statement %s not understood" % (cls, k))
    if ret is None:
        raise TranslateError("%s::__calcImpedance: no return" % cls)
    out.append("(* %s::__calcImpedance (%s)%s *)" % (cls, src, " - loop skeleton only, the sample value is the leaf %s" % opaque if opaque else ""))
    out.append("Definition %s_calc (K : Fld) (E : Leaves K) %s : list (cpx K) :=" % (cls, sig(ps)))
    out += ["  " + l for l in lines] + ["  %s." % ret, ""]
    return ps


def find_ctor(docs, cls, want=None):
    cs = [d for d in docs if d.get("kind") == "CXXConstructorDecl" and d.get("name") == cls
          and any(c.get("kind") == "CompoundStmt" for c in d.get("inner", []))]
    if want is not None:
        cs = [c for c in cs if [p for p, _ in params_of(c)] == want]
    if len(cs) != 1:
        raise TranslateError("constructor definition of %s not found once (%d)" % (cls, len(cs)))
    return cs[0]


def find_in(n, pred):
    res = []
    if pred(n):
        res.append(n)
        return res
    for c in kids(n):
        res += find_in(c, pred)
    return res


def ctor_function(src, cls, calc_params, out):
    """<cls>::<cls>(...) : Impedance(__calcImpedance(ARGS), f_max, oclh)"""
    docs = ast_of(src, cls + "::" + cls)
    c = find_ctor(docs, cls)
    ps = params_of(c)
    env = env_of(ps)
    inits = [i for i in c.get("inner", []) if i.get("kind") == "CXXCtorInitializer"]
    if len(inits) != 1:
        raise TranslateError("%s constructor: expected exactly one initialiser" % cls)
    calls = find_in(inits[0], lambda n: n.get("kind") == "CallExpr" and callee_name(n) == "__calcImpedance")
    if len(calls) != 1:
        raise TranslateError("%s constructor does not call __calcImpedance once" % cls)
    body = [s for s in c.get("inner", []) if s.get("kind") == "CompoundStmt"][0]
    if stmts_of(body):
        raise TranslateError("%s constructor has a non-empty body" % cls)
    tr = Tr()
    args = [tr.ex(a, env) for a in kids(calls[0])[1:]]
    if [t for t, _ in args] != [t for _, t in calc_params]:
        raise TranslateError("%s constructor passes (%s) to __calcImpedance" % (cls, ",".join(t for t, _ in args)))
    out.append("(* %s::%s (%s): the vector handed to Impedance(z, f_max) *)" % (cls, cls, src))
    out.append("Definition %s_ctor (K : Fld) (E : Leaves K) %s : list (cpx K) :=" % (cls, sig(ps)))
    out.append("  %s_calc K E %s." % (cls, " ".join(s for _, s in args)))
    out.append("")
    CTORS[cls] = [t for _, t in ps if t != "P"]


def collimator_ctor(out):
    src, cls = "src/Z/CollimatorImpedance.cpp", "CollimatorImpedance"
    docs = ast_of(src, cls + "::" + cls)
    c = find_ctor(docs, cls)
    ps = params_of(c)
    env = env_of(ps)
    inits = [i for i in c.get("inner", []) if i.get("kind") == "CXXCtorInitializer"]
    if len(inits) != 1:
        raise TranslateError("%s constructor: expected exactly one initialiser" % cls)
    body = [s for s in c.get("inner", []) if s.get("kind") == "CompoundStmt"][0]
    if stmts_of(body):
        raise TranslateError("%s constructor has a non-empty body" % cls)
    ce = find_in(inits[0], lambda n: n.get("kind") == "CXXConstructExpr" and "ConstImpedance" in qtype(n))
    if len(ce) != 1:
        raise TranslateError("%s does not initialise its ConstImpedance base once" % cls)
    tr = Tr()
    t, e = tr.ex(ce[0], env)
    out.append("(* %s::%s (%s): the arguments handed to ConstImpedance *)" % (cls, cls, src))
    out.append("Definition %s_ctor (K : Fld) (E : Leaves K) %s : list (cpx K) :=" % (cls, sig(ps)))
    out.append("  %s." % e.replace("(ConstImpedance_ctor ", "(ConstImpedance_ctor K E ", 1)[1:-1])
    out.append("")
    CTORS[cls] = [t for _, t in ps if t != "P"]


def zeros_ctor(out):
    """Impedance(nfreqs, f_max, oclh) : Impedance(Ruler(...), std::vector<impedance_t>(nfreqs, 0), oclh)"""
    src = "src/Z/Impedance.cpp"
    docs = ast_of(src, "Impedance::Impedance")
    cs = [d for d in docs if d.get("kind") == "CXXConstructorDecl" and [t for _, t in params_of(d, False)] == ["Z", "K", "P"]
          and any(c.get("kind") == "CompoundStmt" for c in d.get("inner", []))]
    if len(cs) != 1:
        raise TranslateError("constructor Impedance(size_t, frequency_t, oclhptr_t) not found once")
    ps = params_of(cs[0])
    env = env_of(ps)
    inits = [i for i in cs[0].get("inner", []) if i.get("kind") == "CXXCtorInitializer"]
    vs = find_in(inits[0], lambda n: n.get("kind") in ("CXXTemporaryObjectExpr", "CXXConstructExpr") and
                 qtype(n).replace("const ", "").startswith("std::vector<"))
    if len(inits) != 1 or len(vs) != 1:
        raise TranslateError("Impedance(nfreqs, f_max): the sample vector is not constructed once")
    t, e = Tr().ex(vs[0], env)
    out.append("(* Impedance::Impedance(nfreqs, f_max, oclh) (%s): the start vector of the factory *)" % src)
    out.append("Definition Impedance_zeros (K : Fld) (E : Leaves K) (%s : Z) : list (cpx K) :=" % ident(ps[0][0]))
    out.append("  %s." % e)
    out.append("")


def add_assign(out):
    src = "src/Z/Impedance.cpp"
    docs = ast_of(src, "Impedance::operator+=")
    d, body = body_of(docs, "operator+=")
    ps = [c for c in d.get("inner", []) if c.get("kind") == "ParmVarDecl"]
    if len(ps) != 1 or "Impedance" not in qtype(ps[0]):
        raise TranslateError("operator+= does not take one Impedance")
    rhs = ps[0]["name"]
    members = {("this", "_nfreqs"): ("Z", "(zlen data)"), (rhs, "_nfreqs"): ("Z", "(zlen rhs_data)"),
               ("this", "_data"): ("V", "data"), (rhs, "_data"): ("V", "rhs_data")}
    tr = Tr(members)
    env = {}
    lines, bound_lines = [], []
    seen_loop = ret = False
    for s in stmts_of(body):
        k = s.get("kind")
        if ret:
            raise TranslateError("operator+=: statement after return")
        if k == "DeclStmt":
            for v in kids(s):
                t = ty_of(qtype(v))
                te, e = tr.ex(kids(v)[0], env)
                if te != t or t not in ("Z", "K"):
                    raise TranslateError("operator+=: local %s" % v.get("name"))
                env[v["name"]] = (t, ident(v["name"]))
                lines.append("let %s := %s in" % (ident(v["name"]), e))
            continue
        if k == "ForStmt":
            if seen_loop:
                raise TranslateError("operator+=: more than one loop")
            seen_loop = True
            iv, lo, hi, bs = loop_parts(s, tr, env)
            if len(bs) != 1:
                raise TranslateError("operator+=: loop body is not one statement")
            b, _ = unwrap(bs[0])
            env2 = dict(env)
            env2[iv] = ("Z", ident(iv))
            if b.get("kind") != "CXXOperatorCallExpr" or callee_name(b) not in ("operator+=", "operator="):
                raise TranslateError("operator+=: loop body is not an assignment to _data[...]")
            lhs, _ = unwrap(kids(b)[1])
            if lhs.get("kind") != "CXXOperatorCallExpr" or callee_name(lhs) != "operator[]":
                raise TranslateError("operator+=: assignment target is not _data[...]")
            tv, vv = tr.ex(kids(lhs)[1], env2)
            ti, widx = tr.ex(kids(lhs)[2], env2)
            if (tv, vv, ti) != ("V", "data", "Z"):
                raise TranslateError("operator+=: assignment target is not this->_data[integer]")
            te, e = tr.ex(kids(b)[2], env2)
            if te != "C":
                raise TranslateError("operator+=: assigned value is not complex")
            if callee_name(b) == "operator+=":
                e = "(l_cadd E (nthz cpx0 data %s) %s)" % (widx, e)
            bound_lines = list(lines)
            lines.append("let data := for_upd %s %s (fun (%s : Z) (data : list (cpx K)) => setz data %s %s) data in"
                         % (lo, hi, ident(iv), widx, e))
            loop = (lo, hi)
            continue
        if k == "ReturnStmt":
            r, _ = unwrap(kids(s)[0])
            if not (r.get("kind") == "UnaryOperator" and r.get("opcode") == "*" and unwrap(kids(r)[0])[0].get("kind") == "CXXThisExpr"):
                raise TranslateError("operator+= does not return *this")
            ret = True
            continue
        raise TranslateError("operator+=: statement %s not understood" % k)
    if not (seen_loop and ret):
        raise TranslateError("operator+=: no loop or no return")
    out.append("(* Impedance::operator+= (%s); data = this->_data, rhs_data = rhs._data, _nfreqs = _data.size() *)" % src)
    out.append("Definition add_assign (K : Fld) (E : Leaves K) (data rhs_data : list (cpx K)) : list (cpx K) :=")
    out += ["  " + l for l in lines] + ["  data.", ""]
    out.append("(* the half-open index range [lo, hi) the loop of operator+= runs over *)")
    out.append("Definition add_assign_range (K : Fld) (E : Leaves K) (data rhs_data : list (cpx K)) : Z * Z :=")
    out += ["  " + l for l in bound_lines] + ["  (%s, %s)." % loop, ""]


STATE = ["rv", "impedance_changed"]


def factory(out):
    src = "src/Z/ImpedanceFactory.cpp"
    docs = ast_of(src, "makeImpedance")
    d, body = body_of(docs, "makeImpedance")
    ps = params_of(d)
    env = env_of(ps)
    tr = Tr()
    state = "(%s)" % ", ".join(STATE)
    declared = set()

    def is_print(s):
        s, _ = unwrap(s)
        return s.get("kind") == "CallExpr" and callee_name(s) == "printText"

    def blk(stmts, env, tail, ind):
        if not stmts:
            return ind + tail
        s, rest = stmts[0], stmts[1:]
        k = s.get("kind")
        if is_print(s):
            return blk(rest, env, tail, ind)
        if k == "DeclStmt":
            env = dict(env)
            res = ""
            for v in kids(s):
                t = ty_of(qtype(v))
                te, e = tr.ex(kids(v)[0], env)
                if te != t:
                    raise TranslateError("makeImpedance: local %s of type %s initialised with type %s" % (v["name"], t, te))
                if v["name"] in STATE:
                    declared.add(v["name"])
                env[v["name"]] = (t, ident(v["name"]))
                res += ind + "let %s := %s in\n" % (ident(v["name"]), e)
            return res + blk(rest, env, tail, ind)
        if k == "IfStmt":
            ks = kids(s)
            tc, c = tr.ex(ks[0], env)
            if tc != "B":
                raise TranslateError("makeImpedance: condition is not boolean")
            th = stmts_of(ks[1]) if ks[1].get("kind") == "CompoundStmt" else [ks[1]]
            el = [] if len(ks) < 3 else (stmts_of(ks[2]) if ks[2].get("kind") == "CompoundStmt" else [ks[2]])
            return (ind + "let '%s :=\n" % state + ind + "  if %s then\n" % c + blk(th, env, state, ind + "    ") + "\n" +
                    ind + "  else\n" + blk(el, env, state, ind + "    ") + " in\n" + blk(rest, env, tail, ind))
        if k == "ReturnStmt":
            te, e = tr.ex(kids(s)[0], env)
            if (te, e) != ("U", "rv") or tail != "rv":
                raise TranslateError("makeImpedance: return of something else than rv at the end of the body")
            if rest:
                raise TranslateError("makeImpedance: statement after return")
            return ind + "rv"
        u, _ = unwrap(s)
        if u.get("kind") == "BinaryOperator" and u.get("opcode") == "=":
            l, _ = unwrap(kids(u)[0])
            nm = (l.get("referencedDecl") or {}).get("name")
            if nm != "impedance_changed" or nm not in declared:
                raise TranslateError("makeImpedance: assignment to %s" % nm)
            te, e = tr.ex(kids(u)[1], env)
            if te != "B":
                raise TranslateError("makeImpedance: impedance_changed assigned a non-boolean")
            return ind + "let impedance_changed := %s in\n" % e + blk(rest, env, tail, ind)
        if u.get("kind") == "CXXOperatorCallExpr" and callee_name(u) == "operator=":
            l, _ = unwrap(kids(u)[1])
            r, _ = unwrap(kids(u)[2])
            nm = (l.get("referencedDecl") or {}).get("name")
            if nm == "rv" and "rv" in declared and find_in(r, lambda n: n.get("kind") == "CXXNullPtrLiteralExpr") and \
                    not find_in(r, lambda n: n.get("kind") == "DeclRefExpr" and n["referencedDecl"]["name"] in env):
                return ind + "let rv := None in\n" + blk(rest, env, tail, ind)
            raise TranslateError("makeImpedance: assignment through operator= not understood")
        if u.get("kind") == "CXXOperatorCallExpr" and callee_name(u) == "operator+=":
            tl, l = tr.ex(kids(u)[1], env)
            te, e = tr.ex(kids(u)[2], env)
            if (tl, l, te) != ("U", "rv", "V"):
                raise TranslateError("makeImpedance: += that is not `*rv += <impedance>`")
            return ind + "let rv := deref_add (add_assign K E) rv %s in\n" % e + blk(rest, env, tail, ind)
        raise TranslateError("makeImpedance: statement %s not understood" % u.get("kind"))

    text = blk(stmts_of(body), env, "rv", "  ")
    if set(STATE) - declared:
        raise TranslateError("makeImpedance: locals %s not declared" % sorted(set(STATE) - declared))
    return ps, text


# ----------------------------------------------------------------------------------------------------------------------
# Purity scan (C16, strengthening after seeded change C16-H): the generated definitions are Gallina FUNCTIONS of the
# arguments, so the theorems silently assume that the C++ functions are: nothing they compute may depend on an earlier
# call in the same process.  The scan looks at EVERY function definition of the six classes and of the factory (not
# only at the idioms the body translation reads), classifies every variable the bodies declare or refer to, and
#   * refuses (TRANSLATE-ERROR "state that outlives the call") a `static` / `thread_local` local that is not a
#     call-independent constant, a reference to a variable defined outside the function that is not const-qualified
#     (namespace-scope variable, static data member), and a static data member that is not const;
#   * refuses (ordinary TRANSLATE-ERROR) file-scope definitions in src/Z/*.cpp other than the scanned functions
#     (a helper function could hide the same kind of state);
#   * emits what it saw as the table `imp_decls` (function -> declarations with their lifetime), about which
#     Props/Properties_C16.v proves `imp_functions_pure`.

PURE_CLASSES = [("src/Z/Impedance.cpp", "Impedance"), ("src/Z/ConstImpedance.cpp", "ConstImpedance"),
                ("src/Z/CollimatorImpedance.cpp", "CollimatorImpedance"), ("src/Z/FreeSpaceCSR.cpp", "FreeSpaceCSR"),
                ("src/Z/ParallelPlatesCSR.cpp", "ParallelPlatesCSR"), ("src/Z/ResistiveWall.cpp", "ResistiveWall")]
PURE_FACTORY = ("src/Z/ImpedanceFactory.cpp", "makeImpedance")
FUNC_KINDS = ("CXXMethodDecl", "CXXConstructorDecl", "FunctionDecl", "CXXDestructorDecl", "CXXConversionDecl")


class PurityError(TranslateError):
    pass


def _walk(n, f, skip_self=False):
    if not skip_self:
        f(n)
    for c in n.get("inner", []) or []:
        if c:
            _walk(c, f)


def _is_const(q, node=None):
    q = (q or "").strip()
    return q.startswith("const ") or " const" in q.split("<")[0] or bool(node and node.get("constexpr"))


def scan_function(fname, d, table, bad):
    """classify the declarations of one function definition; appends (name, lifetime) pairs to table[fname]"""
    local_ids, rows = {}, []
    for c in d.get("inner", []) or []:
        if c and c.get("kind") == "ParmVarDecl":
            local_ids[c.get("id")] = c.get("name") or "_"
            rows.append((c.get("name") or "_", "Automatic"))
    statics = []

    def decl(n):
        if n.get("kind") == "VarDecl":
            local_ids[n.get("id")] = n.get("name")
            if n.get("storageClass") in ("static", "extern") or n.get("tls"):
                statics.append(n)
            else:
                rows.append((n.get("name"), "Automatic"))
    for c in d.get("inner", []) or []:
        if c and c.get("kind") in ("CompoundStmt", "CXXCtorInitializer", "CXXTryStmt"):
            _walk(c, decl)
    auto_ids = set(local_ids) - {n.get("id") for n in statics}
    for n in statics:
        # a static local is a constant only when it is const-qualified and its initialiser mentions nothing of the call
        dep = []
        _walk(n, lambda x: dep.append(x) if x.get("kind") == "DeclRefExpr" and (x.get("referencedDecl") or {}).get("id") in auto_ids else None,
              skip_self=True)
        if n.get("storageClass") == "static" and not n.get("tls") and _is_const(qtype(n), n) and not dep:
            rows.append((n.get("name"), "StaticConstant"))
        else:
            rows.append((n.get("name"), "Persistent"))
            bad.append("%s: %s local `%s` of type %s" % (fname, "thread_local" if n.get("tls") else n.get("storageClass"), n.get("name"), qtype(n)))
    seen = set()

    def ref(n):
        if n.get("kind") != "DeclRefExpr":
            return
        r = n.get("referencedDecl") or {}
        if r.get("kind") not in ("VarDecl", "VarTemplateSpecializationDecl") or r.get("id") in local_ids or r.get("id") in seen:
            return
        seen.add(r.get("id"))
        q = (r.get("type") or {}).get("qualType", "")
        if _is_const(q):
            rows.append((r.get("name"), "StaticConstant"))
        else:
            rows.append((r.get("name"), "Persistent"))
            bad.append("%s: refers to `%s` of type %s, a variable defined outside the function that is not const" % (fname, r.get("name"), q))
    for c in d.get("inner", []) or []:
        if c and c.get("kind") in ("CompoundStmt", "CXXCtorInitializer", "CXXTryStmt"):
            _walk(c, ref)
    table.setdefault(fname, [])
    table[fname] += [r for r in rows if r not in table[fname]]


def _strip_comments(txt):
    txt = re.sub(r"/\*.*?\*/", " ", txt, flags=re.S)
    txt = re.sub(r"//[^\n]*", " ", txt)
    txt = re.sub(r'"(\\.|[^"\\])*"', '""', txt)
    return txt


def main_file_text(src_rel):
    """the preprocessed text of the translation unit's own file (conditional blocks resolved as the harness build does)"""
    import subprocess, hashlib
    sys.path.insert(0, os.path.join(VERIF, "lib"))
    import vp_build
    src = os.path.join(REPO, src_rel)
    key = hashlib.sha1((vp_build.headers_hash() + "E").encode() + open(src, "rb").read()).hexdigest()
    cfile = os.path.join(CACHE, "ast", key + ".E")
    if os.path.exists(cfile):
        return open(cfile).read()
    cfg = vp_build.gen_config(os.path.join(CACHE, "cfg", vp_build.headers_hash()[:16]))
    r = subprocess.run(["clang++", "-E", "-std=c++14", "-I" + cfg, "-I" + os.path.join(REPO, "inc"), "-I/usr/include/hdf5/serial"] + DEFS + [src],
                       capture_output=True, text=True, timeout=300)
    if r.returncode != 0:
        raise TranslateError("preprocessing %s failed: %s" % (src_rel, r.stderr[-1000:]))
    keep, mine = [], False
    for line in r.stdout.splitlines():
        m = re.match(r'^#\s*\d+\s+"([^"]*)"', line)
        if m:
            mine = os.path.realpath(m.group(1)) == os.path.realpath(src)
        elif mine and not line.startswith("#"):
            keep.append(line)
    os.makedirs(os.path.dirname(cfile), exist_ok=True)
    with open(cfile + ".tmp", "w") as f:
        f.write("\n".join(keep))
    os.replace(cfile + ".tmp", cfile)
    return "\n".join(keep)


def file_scope_inventory(src_rel, allowed):
    """every definition at file scope of a src/Z translation unit must be one of the scanned functions"""
    txt = _strip_comments(main_file_text(src_rel))
    depth, par, start, i, items = 0, 0, 0, 0, []

    def skip_braces(j):
        dd = 1
        while j + 1 < len(txt) and dd:
            j += 1
            dd += {"{": 1, "}": -1}.get(txt[j], 0)
        return j
    while i < len(txt):
        ch = txt[i]
        if ch in "()" and depth == 0:
            par += 1 if ch == "(" else -1
        elif ch == "{" and depth == 0 and par > 0:
            i = skip_braces(i)                             # a braced initialiser inside an argument list
        elif ch == "{":
            if depth == 0:
                head = " ".join(txt[start:i].split())
                prev = re.search(r"([A-Za-z_]\w*|>)\s*$", txt[start:i])
                if prev and prev.group(1) not in ("const", "noexcept", "override", "final", "try", "mutable") and re.search(r"\)\s*:", head) \
                        and not re.match(r"^namespace\b", head):
                    i = skip_braces(i) + 1                 # member{...} in a constructor's initialiser list
                    continue
                if re.match(r"^namespace\b[^;(]*$", head):        # namespace N { ... }: transparent
                    j = skip_braces(i)
                    txt = txt[:i] + " " + txt[i + 1:j] + " " + txt[j + 1:]
                    start = i + 1
                    i += 1
                    continue
                items.append(("body", head))
            depth += 1
        elif ch == "}":
            depth -= 1
            if depth == 0:
                start = i + 1
        elif ch == ";" and depth == 0 and par == 0:
            head = " ".join(txt[start:i].split())
            if head:
                items.append(("stmt", head))
            start = i + 1
        i += 1
    for kind, head in items:
        if kind == "stmt":
            if re.match(r"^(using|typedef|template|static_assert)\b", head) or re.match(r"^(static\s+)?(constexpr|const)\b", head):
                continue
            if "(" in head and "=" not in head.split("(")[0]:
                continue                                  # a function declaration
            raise PurityError("state that outlives the call: %s defines the file-scope variable `%s`" % (src_rel, head[:120]))
        m = re.search(r"([A-Za-z_][\w:~]*(?:\s*operator\s*[^\s(]+)?)\s*\(", head)
        name = re.sub(r"\s+", "", m.group(1)) if m else head
        if not any(name == a or name == "vfps::" + a for a in allowed):
            raise TranslateError("%s: definition `%s` at file scope is not one of the functions the purity scan reads" % (src_rel, head[:120]))


def purity_scan():
    table, bad, order = {}, [], []
    for src, cls in PURE_CLASSES:
        docs = ast_of(src, "vfps::" + cls)
        names = set()

        def take(d, owner):
            if d.get("kind") in FUNC_KINDS and any(c and c.get("kind") == "CompoundStmt" for c in d.get("inner", []) or []):
                fname = "%s::%s" % (owner, d.get("name"))
                names.add(d.get("name"))
                if fname not in order:
                    order.append(fname)
                scan_function(fname, d, table, bad)
        for d in docs:
            if d.get("kind") == "CXXRecordDecl" and d.get("name") == cls:
                for c in d.get("inner", []) or []:
                    if not c:
                        continue
                    take(c, cls)
                    if c.get("kind") == "VarDecl":        # static data member
                        fname = "%s::<static members>" % cls
                        if fname not in order:
                            order.append(fname)
                        if _is_const(qtype(c), c):
                            table.setdefault(fname, []).append((c.get("name"), "StaticConstant"))
                        else:
                            table.setdefault(fname, []).append((c.get("name"), "Persistent"))
                            bad.append("%s: static data member `%s` of type %s is not const" % (cls, c.get("name"), qtype(c)))
            else:
                take(d, cls)
        allowed = ["%s::%s" % (cls, n) for n in names] + ["%s::operator%s" % (cls, n[8:]) for n in names if n.startswith("operator")]
        file_scope_inventory(src, allowed)
    src, fn = PURE_FACTORY
    docs = ast_of(src, "vfps::" + fn)
    got = [d for d in docs if d.get("kind") == "FunctionDecl" and d.get("name") == fn and
           any(c and c.get("kind") == "CompoundStmt" for c in d.get("inner", []) or [])]
    if len(got) != 1:
        raise TranslateError("definition of %s not found once" % fn)
    order.append(fn)
    scan_function(fn, got[0], table, bad)
    file_scope_inventory(src, [fn])
    if bad:
        raise PurityError("state that outlives the call (the generated definitions are functions of the arguments only): " + "; ".join(bad))
    return [(f, table.get(f, [])) for f in order]


def emit_purity(out, decls):
    out.append("")
    out.append("(* Purity scan: every function definition of the impedance classes and of the factory, with every variable its")
    out.append("   body declares (parameters, locals) or refers to (constants defined outside) and the lifetime of that variable.")
    out.append("   A `Persistent` entry (static / thread_local local that is not a call-independent constant, non-const variable")
    out.append("   defined outside the function, non-const static data member) is refused by the translator before this table is")
    out.append("   written; Props/Properties_C16.v proves imp_functions_pure about the table. *)")
    out.append("Import String.")
    out.append("Local Open Scope string_scope.")
    out.append("Definition imp_decls : list fn_decls := [")
    rows = []
    for f, vs in decls:
        rows.append("  mk_fn \"%s\" [%s]" % (f, "; ".join("(\"%s\", %s)" % (v or "_", l) for v, l in vs)))
    out.append(";\n".join(rows))
    out.append("].")


def translate():
    CTORS.clear()
    decls = purity_scan()          # refuses state that outlives a call before anything is translated
    out = ["(* GENERATED on every run by translate/imp2coq.py from src/Z/FreeSpaceCSR.cpp, ResistiveWall.cpp,",
           "   ConstImpedance.cpp, CollimatorImpedance.cpp, Impedance.cpp, ImpedanceFactory.cpp. Do not edit.",
           "   Leaves (E : Leaves K): l_pw = std::pow, l_sq = std::sqrt, l_lg = std::log, l_ab = std::abs,",
           "   l_pi = boost pi<double>(), l_c = physcons::c, l_Z0 = Impedance::Z0, l_ltb/l_leb/l_eqb = <, <=, ==,",
           "   l_cadd = std::complex<float>::operator+, l_PPs = sample i of ParallelPlatesCSR(n, f0, f_max, g) (Airy functions:",
           "   the value is not translated, only the loop that stores it). *)",
           "From Coq Require Import List ZArith Bool.",
           "From Coq Require String.",
           "From Inovesa Require Import Base.FieldKit Model.Impedance Model.ImpKit Model.ImpPure.",
           "Import ListNotations.",
           "Local Open Scope F_scope.",
           "Local Open Scope bool_scope.",
           ""]
    zeros_ctor(out)
    add_assign(out)
    for src, cls, opaque in (("src/Z/FreeSpaceCSR.cpp", "FreeSpaceCSR", None), ("src/Z/ResistiveWall.cpp", "ResistiveWall", None),
                             ("src/Z/ConstImpedance.cpp", "ConstImpedance", None),
                             ("src/Z/ParallelPlatesCSR.cpp", "ParallelPlatesCSR", "l_PPs")):
        cp = calc_function(src, cls, out, opaque)
        ctor_function(src, cls, cp, out)
    if CTORS["ParallelPlatesCSR"] != ["Z", "K", "K", "K"]:
        raise TranslateError("ParallelPlatesCSR is not constructed from (size_t, frequency, frequency, gap)")
    collimator_ctor(out)
    ps, text = factory(out)
    # the factory with the constructors of the contributions as parameters (the correspondence runs it with the
    # implementation's own vectors), and closed with the generated constructors
    FOUR = ("ParallelPlatesCSR", "FreeSpaceCSR", "ResistiveWall", "CollimatorImpedance")
    text_with = text
    for cls in FOUR:
        text_with = text_with.replace("(%s_ctor " % cls, "(%s_ctor' " % cls)
    if "(ConstImpedance_ctor " in text or any(("(%s_ctor " % cls) not in text for cls in FOUR):
        raise TranslateError("makeImpedance does not construct each of ParallelPlatesCSR, FreeSpaceCSR, ResistiveWall, CollimatorImpedance")

    def fty(cls):
        return " -> ".join(COQTY[t] for t in CTORS[cls]) + " -> list (cpx K)"
    out.append("(* vfps::makeImpedance (src/Z/ImpedanceFactory.cpp); impedance_file = None for the empty name *)")
    out.append("Definition makeImpedance_with (K : Fld) (E : Leaves K)")
    out.append("    (ParallelPlatesCSR_ctor' : %s) (FreeSpaceCSR_ctor' : %s)" % (fty("ParallelPlatesCSR"), fty("FreeSpaceCSR")))
    out.append("    (ResistiveWall_ctor' : %s)" % fty("ResistiveWall"))
    out.append("    (CollimatorImpedance_ctor' : %s)" % fty("CollimatorImpedance"))
    out.append("    %s : option (list (cpx K)) :=" % sig(ps))
    out.append(text_with + ".")
    out.append("")
    out.append("Definition makeImpedance (K : Fld) (E : Leaves K) : %s -> option (list (cpx K)) :=" % " -> ".join(COQTY[t] for _, t in ps if t != "P"))
    out.append("  makeImpedance_with K E (ParallelPlatesCSR_ctor K E) (FreeSpaceCSR_ctor K E) (ResistiveWall_ctor K E) (CollimatorImpedance_ctor K E).")
    emit_purity(out, decls)
    return "\n".join(out) + "\n"


if __name__ == "__main__":
    dst = sys.argv[1] if len(sys.argv) > 1 else os.path.join(VERIF, "coq", "Gen", "Gen_Imp.v")
    try:
        text = translate()
    except TranslateError as e:
        print("TRANSLATE-ERROR Gen_Imp: %s" % e)
        sys.exit(2)
    except (KeyError, IndexError, TypeError, AttributeError, ValueError) as e:
        print("TRANSLATE-ERROR Gen_Imp: unexpected AST shape (%s: %s)" % (type(e).__name__, e))
        sys.exit(2)
    ch = write_if_changed(dst, text)
    print("Gen_Imp.v %s" % ("regenerated" if ch else "unchanged"))
