#!/usr/bin/env python3
# GEN: Gen_NbSource
"""Gen_NbSource.v: where the number of bunches of the phase space (PhaseSpace::nb) and the bucket list of the field
objects (ElectricField::_bucket) come from on every start-up path of main(), read from the clang JSON AST of the
working tree (src/main.cpp, src/PS/PhaseSpaceFactory.cpp, src/PS/ElectricField.cpp).  C17: the loops of
ElectricField index `_bucket[b]` for every b < PhaseSpace::nb, while `_bucket` has one entry per FILLED bucket of the
configured filling pattern - the two numbers are set at different places.

What is read (anything else in these places fails loudly):
 * main(): the loop over the filling pattern -
     for (i = 0; i < filling.size(); i++) if (filling[i] > 0) { bucketnumbers.push_back(E(filling.size(), i));
                                                                 bunches.emplace_back(filling[i]); }
   the condition (a comparison of filling[i] with 0) and the bucket number E; `nbunches = bunches.size()`;
   a guard `if (nbunches == 0) { ...; return ...; }` (or `< 1`, `!nbunches`) right after it, if there is one
   (gen_min_bunches: how many filled buckets a run that goes on has at least);
 * main(): the start-up chain on the name of the start distribution: in the branch without a file the call
   PhaseSpace::setSize(X, B) with B the variable bound to bunches.size(); in the HDF5 branch the call of
   makePSFromHDF5 followed by `if (grid_t1 == nullptr) { ...; return ...; }`; in the text branch the call of
   makePSFromTXT;
 * makePSFromHDF5: the call of HDF5File::readPhaseSpace sits in a `try` whose handlers do not return a phase space,
   and the function ends with `return nullptr` (an exception of the reader - e.g. "Unexpected data size." - makes
   main() quit); what readPhaseSpace hands to PhaseSpace::setSize is Gen_H5Index's part (gen_r3_setsize, ...);
 * makePSFromTXT: PhaseSpace::setSize(S, filling.size()) with `filling` a local initialised with k literals;
 * main(): every construction of an ElectricField gets, for the parameter that the constructor copies into
   `_bucket`, the variable `bucketnumbers` of the filling loop;
 * ElectricField.cpp: every subscript `_bucket[IDX]`: IDX is the counter of an enclosing `for (b = 0; b < BOUND; b++)`
   and BOUND is PhaseSpace::nb (BoundNb) or _bucket.size() (BoundOwnSize)."""
import sys, os
sys.path.insert(0, os.path.dirname(os.path.abspath(__file__)))
from cxx_ast import *
from symloops import walk, refname, WRAPPERS


def unwrap(n):
    while n.get("kind") in WRAPPERS and len(kids(n)) == 1:
        n = kids(n)[0]
    return n


def fn_body(src, filt, name, kinds=("FunctionDecl", "CXXMethodDecl")):
    docs = ast_of(src, filt)
    got = [d for d in docs if d.get("kind") in kinds and d.get("name") == name and
           any(c.get("kind") in ("CompoundStmt", "CXXTryStmt") for c in d.get("inner", []) if c)]
    if len(got) != 1:
        raise TranslateError("definition of %s in %s not found once (%d)" % (name, src, len(got)))
    return got[0], [c for c in got[0]["inner"] if c and c.get("kind") == "CompoundStmt"][0]


def stmts(comp):
    return [s for s in kids(comp) if s.get("kind") != "NullStmt"]


def is_zero_lit(n):
    n = unwrap(n)
    return n.get("kind") in ("IntegerLiteral", "FloatingLiteral") and float(n.get("value")) == 0.0


def returns(n):
    return any(x.get("kind") == "ReturnStmt" for x in walk(n))


def size_call_on(n, name):
    """NAME.size()"""
    n = unwrap(n)
    if n.get("kind") != "CXXMemberCallExpr":
        return False
    me = kids(n)[0]
    if me.get("kind") != "MemberExpr" or me.get("name") != "size":
        return False
    base = unwrap(kids(me)[0])
    return refname(base) == name or (base.get("kind") == "MemberExpr" and base.get("name") == name)


def zexpr(n, env):
    """integer expression over the names in env -> Gallina (Z)"""
    n = unwrap(n)
    k = n.get("kind")
    if k == "IntegerLiteral":
        return str(int(n["value"]))
    if k == "DeclRefExpr":
        nm = refname(n)
        if nm in env:
            return env[nm]
        raise TranslateError("bucket number: unknown variable %s" % nm)
    if k == "CXXMemberCallExpr":
        for nm, v in env.items():
            if nm.endswith(".size()") and size_call_on(n, nm[:-7]):
                return v
        raise TranslateError("bucket number: member call not understood")
    if k == "BinaryOperator" and n.get("opcode") in ("+", "-", "*"):
        a, b = kids(n)
        return "(%s %s %s)" % (zexpr(a, env), n["opcode"], zexpr(b, env))
    raise TranslateError("bucket number: expression kind %s" % k)


def push_call(s, vec):
    """VEC.push_back(ARG) / VEC.emplace_back(ARG) -> ARG node or None"""
    s = unwrap(s)
    if s.get("kind") != "CXXMemberCallExpr":
        return None
    me = kids(s)[0]
    if me.get("kind") != "MemberExpr" or me.get("name") not in ("push_back", "emplace_back") or refname(unwrap(kids(me)[0])) != vec:
        return None
    args = [a for a in kids(s)[1:] if a.get("kind") != "CXXDefaultArgExpr"]
    return args[0] if len(args) == 1 else None


def read_main():
    d, body = fn_body("src/main.cpp", "main", "main", kinds=("FunctionDecl",))
    top = stmts(body)
    res = {}
    # ---- ElectricField constructions: the variable handed to the parameter that initialises _bucket
    fields = []
    for x in walk(body):
        if x.get("kind") == "CXXConstructExpr" and (x.get("type") or {}).get("qualType", "").replace("vfps::", "") == "ElectricField":
            args = [a for a in kids(x)]
            if len(args) < 3:
                continue            # copy construction
            fields.append(refname(unwrap(args[2])) or "?")
    if not fields:
        raise TranslateError("main(): no ElectricField is constructed")
    BV = fields[0]                  # main()'s `bucketnumbers`, under whatever name
    if BV == "?":
        raise TranslateError("main(): an ElectricField is not given a variable as its bucket list")
    res["fields"] = ["bucketnumbers" if f == BV else "<%s>" % f for f in fields]
    # ---- the filling loop
    loops = []
    for idx, s in enumerate(top):
        if s.get("kind") != "ForStmt":
            continue
        if any(push_call(x, BV) is not None for x in walk(s)):
            loops.append((idx, s))
    if len(loops) != 1:
        raise TranslateError("main(): expected one top-level loop that fills the bucket list `%s`, found %d" % (BV, len(loops)))
    lidx, loop = loops[0]
    init, _, cond, inc, lbody = (loop.get("inner") + [None] * 5)[:5]
    iv = kids(init)[0] if init and init.get("kind") == "DeclStmt" and len(kids(init)) == 1 else None
    if iv is None or not kids(iv) or not is_zero_lit(kids(iv)[0]):
        raise TranslateError("main(): the filling loop does not start a counter at 0")
    ivn = iv.get("name")
    c = unwrap(cond)
    FV = None
    if c.get("kind") == "BinaryOperator" and c.get("opcode") in ("<", "!=") and refname(unwrap(kids(c)[0])) == ivn:
        hi = unwrap(kids(c)[1])
        if hi.get("kind") == "CXXMemberCallExpr" and kids(hi)[0].get("name") == "size":
            FV = refname(unwrap(kids(kids(hi)[0])[0]))
    if not FV:
        raise TranslateError("main(): the filling loop does not run while the counter is below the size of the filling pattern")
    i = unwrap(inc)
    if i.get("kind") != "UnaryOperator" or i.get("opcode") != "++" or refname(unwrap(kids(i)[0])) != ivn:
        raise TranslateError("main(): the filling loop does not increment its counter by one")
    bs = stmts(lbody) if lbody.get("kind") == "CompoundStmt" else [lbody]
    if len(bs) != 1 or bs[0].get("kind") != "IfStmt" or len(kids(bs[0])) != 2:
        raise TranslateError("main(): the body of the filling loop is not one `if` without `else`")
    tcond, then = kids(bs[0])
    tc = unwrap(tcond)
    if tc.get("kind") != "BinaryOperator" or tc.get("opcode") not in (">", "<", ">=", "<=", "!="):
        raise TranslateError("main(): the filling test is not a comparison")
    a, b = kids(tc)

    def is_cell(n):
        n = unwrap(n)
        if n.get("kind") != "CXXOperatorCallExpr":
            return False
        ks = kids(n)
        return len(ks) == 3 and refname(unwrap(ks[1])) == FV and refname(unwrap(ks[2])) == ivn
    op = tc["opcode"]
    if is_cell(a) and is_zero_lit(b):
        pass
    elif is_cell(b) and is_zero_lit(a):
        op = {">": "<", "<": ">", ">=": "<=", "<=": ">=", "!=": "!="}[op]
    else:
        raise TranslateError("main(): the filling test does not compare filling[i] with zero")
    res["filled"] = {">": "(0 <? c)", ">=": "(0 <=? c)", "<": "(c <? 0)", "<=": "(c <=? 0)", "!=": "(negb (c =? 0))"}[op]
    ts = stmts(then) if then.get("kind") == "CompoundStmt" else [then]
    if len(ts) != 2:
        raise TranslateError("main(): a filled bucket does not push exactly one bucket number and one bunch current")
    pb = [push_call(x, BV) for x in ts]
    if sum(x is not None for x in pb) != 1:
        raise TranslateError("main(): a filled bucket does not push exactly one bucket number and one bunch current")
    other = unwrap([x for x, y in zip(ts, pb) if y is None][0])
    CV = None                       # main()'s `bunches`, under whatever name
    if other.get("kind") == "CXXMemberCallExpr" and kids(other)[0].get("kind") == "MemberExpr":
        CV = refname(unwrap(kids(kids(other)[0])[0]))
    pc = [push_call(x, CV) for x in ts] if CV else []
    if not CV or CV == BV or sum(x is not None for x in pc) != 1:
        raise TranslateError("main(): a filled bucket does not push exactly one bucket number and one bunch current")
    res["entry"] = zexpr([x for x in pb if x is not None][0], {FV + ".size()": "size", ivn: "i"})
    if not is_cell([x for x in pc if x is not None][0]):
        raise TranslateError("main(): the bunch current pushed is not filling[i]")
    # ---- nbunches = bunches.size(), and the guard after it
    nbv = None
    nbidx = None
    for idx, s in enumerate(top[lidx + 1:], lidx + 1):
        if s.get("kind") == "DeclStmt":
            for v in kids(s):
                if v.get("kind") == "VarDecl" and kids(v) and size_call_on(kids(v)[-1], CV):
                    if "const" not in (v.get("type") or {}).get("qualType", ""):
                        raise TranslateError("main(): %s = bunches.size() is not const" % v.get("name"))
                    nbv, nbidx = v.get("name"), idx
        if nbv:
            break
    if nbv is None:
        raise TranslateError("main(): no const variable initialised with %s.size()" % CV)
    for s in top[lidx + 1:nbidx]:
        if any(refname(x) in (CV, BV) for x in walk(s) if x.get("kind") == "DeclRefExpr"):
            raise TranslateError("main(): %s / %s are touched between the filling loop and %s" % (CV, BV, nbv))
    res["nbunches_var"] = nbv
    res["min_bunches"] = 0
    nxt = top[nbidx + 1] if nbidx + 1 < len(top) else None
    if nxt is not None and nxt.get("kind") == "IfStmt" and any(refname(x) == nbv for x in walk(kids(nxt)[0]) if x.get("kind") == "DeclRefExpr"):
        g = unwrap(kids(nxt)[0])
        ok = False
        if g.get("kind") == "BinaryOperator":
            l, r = [unwrap(x) for x in kids(g)]
            o = g.get("opcode")
            if refname(l) == nbv and r.get("kind") == "IntegerLiteral":
                ok = (o, int(r["value"])) in (("==", 0), ("<", 1), ("<=", 0))
            elif refname(r) == nbv and l.get("kind") == "IntegerLiteral":
                ok = (o, int(l["value"])) in (("==", 0), (">", 1), (">=", 0))
        elif g.get("kind") == "UnaryOperator" and g.get("opcode") == "!" and refname(unwrap(kids(g)[0])) == nbv:
            ok = True
        if not ok:
            raise TranslateError("main(): the test of %s after the filling loop is not `%s == 0`" % (nbv, nbv))
        if len(kids(nxt)) != 2 or not returns(kids(nxt)[1]):
            raise TranslateError("main(): the guard on %s does not return" % nbv)
        res["min_bunches"] = 1
    # bucketnumbers must not change afterwards
    for s in top[nbidx + 1:]:
        for x in walk(s):
            if x.get("kind") == "CXXMemberCallExpr" and kids(x)[0].get("kind") == "MemberExpr" and \
                    refname(unwrap(kids(kids(x)[0])[0])) == BV and kids(x)[0].get("name") not in ("size", "begin", "end", "data", "empty", "cbegin", "cend"):
                raise TranslateError("main(): %s.%s() after the filling loop" % (BV, kids(x)[0].get("name")))
            if x.get("kind") in ("BinaryOperator", "CXXOperatorCallExpr", "CompoundAssignOperator") and x.get("opcode", "=") in ("=",) and \
                    x.get("kind") == "BinaryOperator" and refname(unwrap(kids(x)[0])) in (BV, nbv):
                raise TranslateError("main(): assignment to %s after the filling loop" % refname(unwrap(kids(x)[0])))
    # ---- start-up chain
    chain = [s for s in top if s.get("kind") == "IfStmt" and any(x.get("kind") == "CXXMemberCallExpr" and kids(x)[0].get("name") == "empty" for x in walk(kids(s)[0]))
             and any(refname(unwrap(kids(x)[0])) == "setSize" for x in walk(s) if x.get("kind") == "CallExpr")]
    if len(chain) != 1:
        raise TranslateError("main(): the start-up chain `if (<start file name>.empty())` with PhaseSpace::setSize was not found once")
    ks = kids(chain[0])
    if len(ks) != 3:
        raise TranslateError("main(): the start-up chain has no else branch")
    cnd = unwrap(ks[0])
    if cnd.get("kind") != "CXXMemberCallExpr":
        raise TranslateError("main(): the start-up chain is not `if (startdistfile.empty())`")
    calls = [x for x in walk(ks[1]) if x.get("kind") == "CallExpr" and refname(unwrap(kids(x)[0])) == "setSize"]
    if len(calls) != 1 or len(kids(calls[0])) != 3:
        raise TranslateError("main(): the branch without a start file does not call PhaseSpace::setSize(x, b) once")
    if refname(unwrap(kids(calls[0])[2])) != nbv:
        raise TranslateError("main(): without a start file the phase space is not sized with %s = %s.size()" % (nbv, CV))
    if any(refname(unwrap(kids(x)[0])) == "setSize" for x in walk(ks[2]) if x.get("kind") == "CallExpr"):
        raise TranslateError("main(): a start-file branch calls PhaseSpace::setSize itself")
    makers = [refname(unwrap(kids(x)[0])) for x in walk(ks[2]) if x.get("kind") == "CallExpr" and
              (refname(unwrap(kids(x)[0])) or "").startswith("makePSFrom")]
    if sorted(makers) != ["makePSFromHDF5", "makePSFromTXT"]:
        raise TranslateError("main(): the start-file branches call %s (expected makePSFromHDF5 and makePSFromTXT once each)" % makers)
    # after makePSFromHDF5: if (grid_t1 == nullptr) return
    nullret = False
    for x in walk(ks[2]):
        if x.get("kind") == "IfStmt":
            g = unwrap(kids(x)[0])
            txt = [y for y in walk(g)]
            if any(y.get("kind") == "CXXNullPtrLiteralExpr" for y in txt) and any(refname(y) == "grid_t1" for y in txt if y.get("kind") == "DeclRefExpr") \
                    and g.get("opcode", "==") == "==" and returns(kids(x)[1]):
                nullret = True
    if not nullret:
        raise TranslateError("main(): no `if (grid_t1 == nullptr) return` after makePSFromHDF5")
    return res


def read_factory():
    res = {}
    d, body = fn_body("src/PS/PhaseSpaceFactory.cpp", "vfps::makePSFromHDF5", "makePSFromHDF5", kinds=("FunctionDecl",))
    ss = stmts(body)
    if len(ss) != 2 or ss[0].get("kind") != "CXXTryStmt" or ss[1].get("kind") != "ReturnStmt" or \
            not any(x.get("kind") == "CXXNullPtrLiteralExpr" for x in walk(ss[1])):
        raise TranslateError("makePSFromHDF5 is not `try { ... } catch ... ; return nullptr;`")
    tk = kids(ss[0])
    if not any(x.get("kind") in ("MemberExpr", "DeclRefExpr") and (x.get("name") == "readPhaseSpace" or refname(x) == "readPhaseSpace") for x in walk(tk[0])):
        raise TranslateError("makePSFromHDF5 does not call HDF5File::readPhaseSpace inside its try block")
    handlers = tk[1:]
    if not handlers or any(returns(h) for h in handlers):
        raise TranslateError("makePSFromHDF5: a catch handler returns")
    if not any(h.get("kind") == "CXXCatchStmt" and not any(c and c.get("kind") == "VarDecl" for c in h.get("inner", [])) for h in handlers):
        raise TranslateError("makePSFromHDF5 has no catch (...) handler")
    d, body = fn_body("src/PS/PhaseSpaceFactory.cpp", "vfps::makePSFromTXT", "makePSFromTXT", kinds=("FunctionDecl",))
    calls = [x for x in walk(body) if x.get("kind") == "CallExpr" and refname(unwrap(kids(x)[0])) == "setSize"]
    if len(calls) != 1 or len(kids(calls[0])) != 3:
        raise TranslateError("makePSFromTXT does not call PhaseSpace::setSize(x, b) once")
    b = unwrap(kids(calls[0])[2])
    k = None
    if b.get("kind") == "IntegerLiteral":
        k = int(b["value"])
    elif b.get("kind") == "CXXMemberCallExpr" and kids(b)[0].get("name") == "size":
        vn = refname(unwrap(kids(kids(b)[0])[0]))
        for v in walk(body):
            if v.get("kind") == "VarDecl" and v.get("name") == vn:
                il = [x for x in walk(v) if x.get("kind") == "InitListExpr"]
                if len(il) >= 1:
                    k = len(kids(il[0]))
        for x in walk(body):
            if x.get("kind") == "CXXMemberCallExpr" and kids(x)[0].get("kind") == "MemberExpr" and refname(unwrap(kids(kids(x)[0])[0])) == vn and \
                    kids(x)[0].get("name") not in ("size", "begin", "end", "data"):
                raise TranslateError("makePSFromTXT: the filling vector is changed before setSize")
    if k is None:
        raise TranslateError("makePSFromTXT: the number of bunches handed to setSize is neither a literal nor the size of an initialiser list")
    res["nb_txt"] = k
    return res


def read_field():
    docs = ast_of("src/PS/ElectricField.cpp", "vfps::ElectricField::")
    # constructor: _bucket(<parameter 3>)
    param = None
    for d in docs:
        if d.get("kind") == "CXXConstructorDecl":
            ps = [c for c in d.get("inner", []) if c and c.get("kind") == "ParmVarDecl"]
            for c in d.get("inner", []):
                if c and c.get("kind") == "CXXCtorInitializer" and (c.get("anyInit") or {}).get("name") == "_bucket":
                    src = [refname(x) for x in walk(c) if x.get("kind") == "DeclRefExpr"]
                    names = [p.get("name") for p in ps]
                    if len(src) != 1 or src[0] not in names:
                        raise TranslateError("ElectricField: _bucket is not initialised from one constructor parameter")
                    if names.index(src[0]) != 2:
                        raise TranslateError("ElectricField: _bucket is initialised from parameter %d, main() is read for parameter 2" % names.index(src[0]))
                    param = src[0]
    if param is None:
        raise TranslateError("ElectricField: no constructor initialises _bucket")
    sites = []

    def visit(n, fname, loops):
        k = n.get("kind")
        if k == "ForStmt":
            init, _, cond, inc, lbody = (n.get("inner") + [None] * 5)[:5]
            ent = None
            if init and init.get("kind") == "DeclStmt" and len(kids(init)) == 1 and kids(kids(init)[0]) and is_zero_lit(kids(kids(init)[0])[0]):
                v = kids(init)[0].get("name")
                c = unwrap(cond) if cond else {}
                i = unwrap(inc) if inc else {}
                if c.get("kind") == "BinaryOperator" and c.get("opcode") == "<" and refname(unwrap(kids(c)[0])) == v and \
                        i.get("kind") == "UnaryOperator" and i.get("opcode") == "++":
                    hi = unwrap(kids(c)[1])
                    if refname(hi) == "nb":
                        ent = (v, "BoundNb")
                    elif size_call_on(hi, "_bucket"):
                        ent = (v, "BoundOwnSize")
                    else:
                        ent = (v, None)
            for c in kids(n):
                visit(c, fname, loops + [ent] if c is lbody else loops)
            return
        if k in ("CXXOperatorCallExpr", "ArraySubscriptExpr"):
            ks = kids(n)
            base = ks[1] if k == "CXXOperatorCallExpr" and len(ks) == 3 else (ks[0] if k == "ArraySubscriptExpr" else None)
            idx = ks[2] if k == "CXXOperatorCallExpr" and len(ks) == 3 else (ks[1] if k == "ArraySubscriptExpr" else None)
            if base is not None:
                bn = unwrap(base)
                if (bn.get("kind") == "MemberExpr" and bn.get("name") == "_bucket"):
                    iv = refname(unwrap(idx))
                    bound = None
                    for ent in reversed(loops):
                        if ent and ent[0] == iv:
                            bound = ent[1]
                            break
                    if bound is None:
                        raise TranslateError("ElectricField::%s: `_bucket[...]` is not indexed by the counter of a loop bounded by PhaseSpace::nb or _bucket.size()" % fname)
                    sites.append((fname, bound))
        for c in kids(n):
            visit(c, fname, loops)
    for d in docs:
        if d.get("kind") in ("CXXMethodDecl", "CXXConstructorDecl", "CXXDestructorDecl"):
            for c in d.get("inner", []):
                if c and c.get("kind") == "CompoundStmt":
                    visit(c, d.get("name"), [])
    # other uses of _bucket (not a subscript): only the constructor's initialiser and size()
    return dict(param=param, sites=sites)


def translate():
    m = read_main()
    f = read_factory()
    e = read_field()
    L = ["(* GENERATED on every run by translate/nbsource2coq.py from src/main.cpp, src/PS/PhaseSpaceFactory.cpp,",
         "   src/PS/ElectricField.cpp.  Do not edit. *)",
         "From Coq Require Import List ZArith Bool String.",
         "From Inovesa Require Import Model.NbSourceTypes.",
         "Import ListNotations.",
         "Local Open Scope Z_scope.",
         "",
         "(* main(): the filling loop - a bucket with bunch current c is filled iff *)",
         "Definition gen_filled (c : Z) : bool := %s." % m["filled"],
         "(* ... and then gets the bucket number (size = filling.size(), i = its index) *)",
         "Definition gen_bucket_entry (size i : Z) : Z := %s." % m["entry"],
         "(* main(): a run that goes on past the guard after `%s = bunches.size()` has at least this many filled buckets" % m["nbunches_var"],
         "   (0: there is no such guard) *)",
         "Definition gen_min_bunches : Z := %d." % m["min_bunches"],
         "(* main(), no start file: PhaseSpace::setSize(.., %s): the number of bunches of the phase space *)" % m["nbunches_var"],
         "Definition gen_nb_nofile (nbunches : Z) : Z := nbunches.",
         "(* makePSFromTXT: PhaseSpace::setSize(.., k) *)",
         "Definition gen_nb_txt : Z := %d." % f["nb_txt"],
         "(* makePSFromHDF5 returns nullptr when the reader throws, and main() quits on nullptr: both read (they are facts of this",
         "   file's existence: the translator fails otherwise) *)",
         "Definition gen_h5_exception_quits : bool := true.",
         "(* main(): what every ElectricField construction hands to the constructor parameter `%s` that initialises _bucket *)" % e["param"],
         "Local Open Scope string_scope.",
         "Definition gen_field_bucket_args : list string := [%s]." % "; ".join('"%s"' % x for x in m["fields"]),
         "(* ElectricField.cpp: every `_bucket[b]`: the function and the bound of the loop that counts b from 0 *)",
         "Definition gen_bucket_sites : list (string * bucket_bound) := [%s]." % "; ".join('("%s", %s)' % s for s in e["sites"])]
    return "\n".join(L) + "\n"


if __name__ == "__main__":
    dst = sys.argv[1] if len(sys.argv) > 1 else os.path.join(VERIF, "coq", "Gen", "Gen_NbSource.v")
    try:
        text = translate()
    except TranslateError as e:
        print("TRANSLATE-ERROR Gen_NbSource: %s" % e)
        sys.exit(2)
    except (KeyError, IndexError, TypeError, AttributeError, ValueError) as e:
        print("TRANSLATE-ERROR Gen_NbSource: unexpected AST shape (%s: %s)" % (type(e).__name__, e))
        sys.exit(2)
    ch = write_if_changed(dst, text)
    print("Gen_NbSource.v %s" % ("regenerated" if ch else "unchanged"))
