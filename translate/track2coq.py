#!/usr/bin/env python3
# GEN: Gen_Track
"""Gen_Track.v: the particle-tracking code of /repo's working tree as Gallina definitions, read from the
clang JSON AST (C15).

Translated (anything outside the idioms below raises TranslateError - a failed translation is reported by the
C15 check, never ignored):

* KickMap::applyTo (src/SM/KickMap.cpp): `if (_kickdirection == Axis::x) {A} else {B}`; both blocks are
  straight-line code over float / unsigned locals: `modf`, float -> unsigned conversion, one guarded `pos.c -= E`,
  and a final `pos.c = CLAMP` where CLAMP is a nest of std::min / std::max around exactly one non-constant value.
  -> gen_kick_x, gen_kick_y (+ gen_kick_x_clamp, gen_kick_y_clamp).
* FokkerPlanckMap::applyTo (src/SM/FokkerPlanckMap.cpp): `switch (_fptrack)`; per case straight-line code with
  `for (j = 0; j < _ip; j++) { locals; acc += E; ... }` loops (emitted as sums over `zrange ip`), float division
  (`xdivq`: 0/0 = NaN, x/0 = +-inf), `_normdist(_prng)` (the drawn number is a parameter) and the final clamp.
  -> gen_fp_none.., gen_fp_approximation1, gen_fp_approximation2, gen_fp_stochastic (+ their clamps),
  gen_fp_applyTo (dispatch on the enum value, `default` honoured).
* PhaseSpace::x / y (inc/PS/PhaseSpace.hpp): one `return` of a min/max nest -> gen_ps_x, gen_ps_y.
* PhaseSpace::q / p / _qp: which axis array a lookup reads -> gen_axis_of.
* HDF5File::appendTracks (src/IO/HDF5File.cpp): the initialiser list `{_ps->F(pos.c), _ps->G(pos.d)}` pushed per
  particle -> gen_append_first / gen_append_second; the float -> unsigned conversion of the argument is checked.
* main() (src/main.cpp): `trackme.push_back({grid->F(a), grid->G(b)})` inside `while (file >> a >> b)` ->
  gen_load_first / gen_load_second; the `<map>->apply()` / `<map>->applyToAll(trackme)` statements of the
  simulation loop in program order -> gen_track_events.
* DynamicRFKickMap::apply / _calcKick (src/SM/DynamicRFKickMap.cpp): the order of `_calcKick()`,
  `KickMap::apply()`, `_past_modulation.emplace_back(front)`, `_next_modulation.pop()` -> gen_dyn_apply; the
  queue entry and components `_calcKick` hands to RFKickMap::_calcKick -> gen_dyn_calckick_args.
* the class declarations of inc/SM/*.hpp (one class per header, named like the header; single inheritance below
  SourceMap, whose applyTo must be pure virtual): per class the nearest class on the way up to SourceMap that declares
  `applyTo` -> gen_applyTo_dispatch; the classes main() stores in the variables it calls `->applyToAll(trackme)` on ->
  gen_tracked_classes; the bodies read here -> gen_applyTo_read (Identity::applyTo is checked to be empty).  A tracked
  class that ends at an applyTo body other than KickMap's / FokkerPlanckMap's / Identity's (an override anywhere in
  the hierarchy), a source map declared outside inc/SM, a second derived class in a header, multiple inheritance, an
  applyTo template / using-declaration are TranslateErrors.

Conventions of the emitted terms (Model/TrackX.v): float values that are certainly finite are `Qc` terms, the
result of a float division and everything computed from it are `xval` terms; std::min/std::max on floats are
`xmin`/`xmax` with the argument order of the source; `unsigned int` arithmetic is wrapped (`wrap32`), conversions
are `f2u`, `f2s`, `u2s`, `wrap32`; a local variable assigned several times gets primes."""
import sys, os, re
sys.path.insert(0, os.path.dirname(os.path.abspath(__file__)))
from cxx_ast import *

WRAPPERS = ("ParenExpr", "ExprWithCleanups", "MaterializeTemporaryExpr", "CXXBindTemporaryExpr", "ConstantExpr")
PASS_CASTS = ("LValueToRValue", "NoOp", "FunctionToPointerDecay", "UncheckedDerivedToBase", "DerivedToBase",
              "ConstructorConversion", "ArrayToPointerDecay")
INT_RANGE = {"unsigned int": (0, 2 ** 32 - 1), "int": (-2 ** 31, 2 ** 31 - 1), "unsigned char": (0, 255),
             "unsigned long": (0, 2 ** 64 - 1), "long": (-2 ** 63, 2 ** 63 - 1), "unsigned short": (0, 65535),
             "short": (-32768, 32767), "char": (-128, 127), "signed char": (-128, 127), "bool": (0, 1)}
FLOATS = ("float", "double")


def walk(n):
    yield n
    for c in kids(n):
        yield from walk(c)


def ty(n):
    t = n.get("type", {})
    q = t.get("desugaredQualType") or t.get("qualType") or ""
    q = re.sub(r"\b(const|volatile)\b", "", q).replace("&", "").strip()
    return re.sub(r"\s+", " ", q)


def line_of(n):
    for m in walk(n):
        for key in ("range", "loc"):
            r = m.get(key) or {}
            b = r.get("begin", r)
            for src in (b, b.get("expansionLoc", {}), b.get("spellingLoc", {})):
                if "line" in src:
                    return src["line"]
    return "?"


def refname(n):
    return (n.get("referencedDecl") or {}).get("name")


class V:
    """symbolic value: cat in q (finite float, Qc term) | x (extended float, xval term) | fz (float with an integer
    value, Z term) | z (integer, Z term) | b (bool) | hi (table entry, Z * Qc term) | arr (array: s is the Gallina
    function name, elem the category of an element) | obj (something only member calls are made on)"""

    def __init__(self, cat, s, cty="", const=False, elem=None, tag=None):
        self.cat, self.s, self.cty, self.const, self.elem, self.tag = cat, s, cty, const, elem, tag

    def __repr__(self):
        return "V(%s,%s)" % (self.cat, self.s)


def paren(s):
    s = s.strip()
    if re.match(r"^[A-Za-z_][A-Za-z0-9_']*$", s) or re.match(r"^\d+$", s):
        return s
    if s.startswith("(") and s.endswith(")"):
        d = 0
        for i, ch in enumerate(s):
            d += ch == "("
            d -= ch == ")"
            if d == 0 and i < len(s) - 1:
                break
        else:
            return s
    return "(" + s + ")"


def as_q(v):
    if v.cat == "q":
        return v.s
    if v.cat == "fz":
        return "Qcz %s" % paren(v.s)
    raise TranslateError("a %s value is used where a finite float is expected: %s" % (v.cat, v.s))


def as_x(v):
    if v.cat == "x":
        return v.s
    return "XF %s" % paren(as_q(v))


def as_z(v):
    if v.cat in ("z",):
        return v.s
    raise TranslateError("a %s value is used where an integer is expected: %s" % (v.cat, v.s))


class Fn:
    """symbolic execution of one straight-line function body"""

    def __init__(self, name, members, member_calls, pos_fields=None, locals_ok=True):
        self.name = name
        self.members = members            # member / static name -> V
        self.member_calls = member_calls  # callback(node, self) -> V or None
        self.env = {}
        self.lets = []                    # (coq name, term)
        self.used = set()
        self.params_used = set()
        self.versions = {}
        self.clamps = []                  # (clamp function name, params, body) for the final assignments
        self.noise_draws = 0

    # ---- naming
    def fresh(self, base):
        base = re.sub(r"[^A-Za-z0-9_]", "_", base)
        k = self.versions.get(base, 0)
        self.versions[base] = k + 1
        return base + "'" * k

    def bind(self, cname, v):
        """store v under the C++ name, through a Gallina let"""
        if v.cat in ("arr", "obj") or v.const:
            self.env[cname] = v
            return
        nm = self.fresh(cname.replace(".", "_"))
        self.lets.append((nm, v.s))
        self.env[cname] = V(v.cat, nm, v.cty, False, v.elem)

    def use(self, p):
        self.params_used.add(p)
        return p

    # ---- expressions
    def member(self, n):
        nm = n.get("name")
        base = kids(n)[0] if kids(n) else None
        if base is not None:
            b = self.peel(base)
            if b.get("kind") == "DeclRefExpr" and refname(b) in self.env and self.env[refname(b)].cat == "hi":
                h = self.env[refname(b)]
                if nm == "index":
                    return V("z", "fst %s" % paren(h.s), "unsigned int")
                if nm == "weight":
                    return V("q", "snd %s" % paren(h.s), "float")
                raise TranslateError("unknown field %s of a table entry" % nm)
            if b.get("kind") == "DeclRefExpr" and refname(b) == "pos":
                key = "pos." + nm
                if key in self.env:
                    return self.env[key]
                raise TranslateError("unknown field pos.%s" % nm)
            if b.get("kind") != "CXXThisExpr":
                raise TranslateError("member %s of something that is not `this`, `pos` or a table entry (line %s)" % (nm, line_of(n)))
        if nm in self.members:
            v = self.members[nm]
            if v.cat not in ("arr", "obj"):
                self.use(v.s)
            return v
        raise TranslateError("%s: unknown member %s (line %s)" % (self.name, nm, line_of(n)))

    def peel(self, n):
        """strip wrappers and value-preserving casts (for looking at the shape only)"""
        while True:
            k = n.get("kind")
            if k in WRAPPERS and len(kids(n)) == 1:
                n = kids(n)[0]
            elif k in ("ImplicitCastExpr", "CXXStaticCastExpr", "CStyleCastExpr", "CXXFunctionalCastExpr") and \
                    n.get("castKind") in PASS_CASTS and len(kids(n)) == 1:
                n = kids(n)[0]
            else:
                return n

    def peel_any(self, n):
        """strip wrappers and every cast (shape inspection of integer expressions only)"""
        while n.get("kind") in WRAPPERS + ("ImplicitCastExpr", "CXXStaticCastExpr", "CStyleCastExpr", "CXXFunctionalCastExpr") \
                and len(kids(n)) == 1:
            n = kids(n)[0]
        return n

    def cast(self, n):
        ck = n.get("castKind")
        ks = kids(n)
        if len(ks) != 1:
            raise TranslateError("cast with %d operands" % len(ks))
        if ck in PASS_CASTS:
            return self.ex(ks[0])
        v = self.ex(ks[0])
        tt = ty(n)
        if ck == "IntegralToFloating":
            return V("fz", as_z(v), tt, v.const)
        if ck == "FloatingToIntegral":
            if tt not in INT_RANGE:
                raise TranslateError("float converted to %s" % tt)
            if v.cat == "fz":
                z = v.s
            elif v.cat == "q":
                z = "Qctrunc %s" % paren(v.s)
            else:
                raise TranslateError("conversion of a possibly non-finite float to %s (line %s)" % (tt, line_of(n)))
            if tt == "unsigned int":
                return V("z", "f2u %s" % paren(z), tt)
            if tt == "int":
                return V("z", "f2s %s" % paren(z), tt)
            raise TranslateError("float converted to %s" % tt)
        if ck == "IntegralCast":
            st = v.cty
            if v.cat != "z":
                raise TranslateError("integral cast of a %s value" % v.cat)
            if tt not in INT_RANGE:
                raise TranslateError("integral cast to %s" % tt)
            if v.const:
                lo, hi = INT_RANGE[tt]
                if lo <= int(v.s.strip("()")) <= hi:
                    return V("z", v.s, tt, True)
            if st in INT_RANGE and INT_RANGE[tt][0] <= INT_RANGE[st][0] and INT_RANGE[st][1] <= INT_RANGE[tt][1]:
                return V("z", v.s, tt, v.const)
            if tt == "unsigned int" and st in ("int", "long"):
                return V("z", "wrap32 %s" % paren(v.s), tt)
            if tt == "int" and st == "unsigned int":
                return V("z", "u2s %s" % paren(v.s), tt)
            raise TranslateError("integral cast %s -> %s (line %s)" % (st, tt, line_of(n)))
        if ck == "FloatingCast":
            return v
        raise TranslateError("cast kind %s (line %s)" % (ck, line_of(n)))

    def binop(self, op, a, b, tt, n):
        if op in ("<", ">", "<=", ">="):
            if a.cat == "z" and b.cat == "z":
                l, r, o = a.s, b.s, op
                if op in (">", ">="):
                    l, r, o = r, l, {">": "<", ">=": "<="}[op]
                return V("b", "(%s %s? %s)" % (paren(l), o, paren(r)))
            raise TranslateError("comparison %s of %s and %s values (line %s)" % (op, a.cat, b.cat, line_of(n)))
        if op not in ("+", "-", "*", "/"):
            raise TranslateError("binary operator %s (line %s)" % (op, line_of(n)))
        if tt in FLOATS:
            if op == "/":
                if a.cat == "x" or b.cat == "x":
                    raise TranslateError("division of possibly non-finite values (line %s)" % line_of(n))
                return V("x", "xdivq %s %s" % (paren(as_q(a)), paren(as_q(b))), tt)
            if a.cat == "x" or b.cat == "x":
                f = {"+": "xadd", "-": "xsub"}.get(op)
                if not f:
                    raise TranslateError("product with a possibly non-finite value (line %s)" % line_of(n))
                return V("x", "%s %s %s" % (f, paren(as_x(a)), paren(as_x(b))), tt)
            return V("q", "(%s %s %s)%%Qc" % (paren(as_q(a)), op, paren(as_q(b))), tt)
        if tt in INT_RANGE:
            if op == "/":
                # unsigned: both operands non-negative, C truncation = floor; signed: truncation towards zero
                if tt == "unsigned int":
                    return V("z", "wrap32 (%s / %s)" % (paren(as_z(a)), paren(as_z(b))), tt)
                return V("z", "Z.quot %s %s" % (paren(as_z(a)), paren(as_z(b))), tt)
            s = "%s %s %s" % (paren(as_z(a)), op, paren(as_z(b)))
            if tt == "unsigned int":
                return V("z", "wrap32 (%s)" % s, tt)
            return V("z", "(%s)" % s, tt)
        raise TranslateError("arithmetic in type %s (line %s)" % (tt, line_of(n)))

    def call(self, n):
        ks = kids(n)
        callee = self.peel(ks[0])
        nm = refname(callee) if callee.get("kind") == "DeclRefExpr" else None
        args = ks[1:]
        tt = ty(n)
        if nm in ("min", "max") and len(args) == 2:
            a, b = self.ex(args[0]), self.ex(args[1])
            if tt in FLOATS:
                return V("x", "x%s %s %s" % (nm, paren(as_x(a)), paren(as_x(b))), tt, tag="minmax")
            if tt in INT_RANGE:
                return V("z", "Z.%s %s %s" % (nm, paren(as_z(a)), paren(as_z(b))), tt)
            raise TranslateError("std::%s on %s" % (nm, tt))
        if nm == "floor" and len(args) == 1:
            a = self.ex(args[0])
            if a.cat == "fz":
                return a
            return V("fz", "Qcfloor %s" % paren(as_q(a)), tt)
        if nm == "modf" and len(args) == 2:
            a = self.ex(args[0])
            p = self.peel(args[1])
            if p.get("kind") != "UnaryOperator" or p.get("opcode") != "&":
                raise TranslateError("second argument of modf is not &variable")
            tgt = self.peel(kids(p)[0])
            if tgt.get("kind") != "DeclRefExpr":
                raise TranslateError("second argument of modf is not &variable")
            self.bind(refname(tgt), V("fz", "Qctrunc %s" % paren(as_q(a)), "float"))
            return V("q", "Qcfrac %s" % paren(as_q(a)), tt)
        if nm == "move" and len(args) == 1:
            return self.ex(args[0])
        raise TranslateError("%s: call of %s not understood (line %s)" % (self.name, nm, line_of(n)))

    def subscript(self, base, idx, n):
        b = self.ex(base)
        if b.cat != "arr":
            raise TranslateError("subscript of something that is not an array (line %s)" % line_of(n))
        i = self.ex(idx)
        self.use(b.s)
        return V(b.elem, "%s %s" % (b.s, paren(as_z(i))), "float" if b.elem == "q" else "hi")

    def ex(self, n):
        k = n.get("kind")
        if k in WRAPPERS:
            ks = kids(n)
            if len(ks) != 1:
                raise TranslateError("wrapper %s with %d children" % (k, len(ks)))
            return self.ex(ks[0])
        if k in ("ImplicitCastExpr", "CXXStaticCastExpr", "CStyleCastExpr", "CXXFunctionalCastExpr"):
            return self.cast(n)
        if k == "IntegerLiteral":
            return V("z", str(int(n["value"])), ty(n), True)
        if k == "FloatingLiteral":
            q = Fraction(n["value"])
            if q.denominator == 1:
                return V("fz", str(q.numerator) if q >= 0 else "(%d)" % q.numerator, ty(n), True)
            return V("q", "Q2Qc (%d # %d)" % (q.numerator, q.denominator), ty(n), True)
        if k == "DeclRefExpr":
            nm = refname(n)
            if nm in self.env:
                v = self.env[nm]
                if v is None:
                    raise TranslateError("%s: %s is read before it is assigned (line %s)" % (self.name, nm, line_of(n)))
                return v
            if nm in self.members:
                v = self.members[nm]
                if v.cat not in ("arr", "obj"):
                    self.use(v.s)
                return v
            raise TranslateError("%s: unknown variable %s (line %s)" % (self.name, nm, line_of(n)))
        if k == "MemberExpr":
            return self.member(n)
        if k == "UnaryOperator":
            op = n.get("opcode")
            a = self.ex(kids(n)[0])
            if op == "-":
                if a.cat == "z":
                    return V("z", "(- %s)" % paren(a.s), a.cty)
                if a.cat == "x":
                    return V("x", "xneg %s" % paren(a.s), a.cty)
                return V("q", "(- %s)%%Qc" % paren(as_q(a)), a.cty)
            if op == "+":
                return a
            raise TranslateError("unary operator %s (line %s)" % (op, line_of(n)))
        if k == "BinaryOperator":
            a, b = kids(n)
            return self.binop(n["opcode"], self.ex(a), self.ex(b), ty(n) if n["opcode"] in "+-*/" else "", n)
        if k == "CallExpr":
            return self.call(n)
        if k == "ArraySubscriptExpr":
            a, b = kids(n)
            return self.subscript(a, b, n)
        if k == "CXXOperatorCallExpr":
            ks = kids(n)
            op = refname(self.peel(ks[0]))
            if op == "operator[]" and len(ks) == 3:
                return self.subscript(ks[1], ks[2], n)
            r = self.member_calls(n, self) if self.member_calls else None
            if r is not None:
                return r
            raise TranslateError("%s: operator call %s not understood (line %s)" % (self.name, op, line_of(n)))
        if k == "CXXMemberCallExpr":
            r = self.member_calls(n, self) if self.member_calls else None
            if r is not None:
                return r
            raise TranslateError("%s: member call not understood (line %s)" % (self.name, line_of(n)))
        if k == "CXXConstructExpr":
            ks = kids(n)
            if len(ks) == 1:
                return self.ex(ks[0])
            raise TranslateError("constructor call with %d arguments" % len(ks))
        raise TranslateError("%s: expression kind %s (line %s)" % (self.name, k, line_of(n)))

    # ---- statements
    def lhs_name(self, n):
        p = self.peel(n)
        if p.get("kind") == "DeclRefExpr":
            nm = refname(p)
            if nm not in self.env:
                raise TranslateError("%s: assignment to %s, which is not a local variable" % (self.name, nm))
            return nm
        if p.get("kind") == "MemberExpr":
            b = self.peel(kids(p)[0]) if kids(p) else {}
            if b.get("kind") == "DeclRefExpr" and refname(b) == "pos" and p.get("name") in ("x", "y"):
                return "pos." + p["name"]
        raise TranslateError("%s: assignment to something that is neither a local nor pos.x / pos.y (line %s)" % (self.name, line_of(n)))

    def assign(self, target, v, n):
        if target.startswith("pos.") and v.cat == "x" and v.tag == "minmax":
            v = self.make_clamp(target, n, v)
        self.bind(target, v)

    def make_clamp(self, target, n, v):
        """the right-hand side is a nest of std::min/std::max: exactly one leaf depends on the particle (locals,
        pos.*), the others on members and literals only.  The nest becomes a function of that leaf."""
        rhs = self.peel(kids(n)[1]) if n.get("kind") == "BinaryOperator" else None
        if rhs is None:
            raise TranslateError("clamp is not a plain assignment")
        leaves = []

        def nest(m):
            m = self.peel(m)
            if m.get("kind") == "CallExpr":
                ks = kids(m)
                nm = refname(self.peel(ks[0]))
                if nm in ("min", "max") and len(ks) == 3 and ty(m) in FLOATS:
                    return "(x%s %s %s)" % (nm, nest(ks[1]), nest(ks[2]))
            dep = any(x.get("kind") == "DeclRefExpr" and (refname(x) in self.env or refname(x) == "pos") for x in walk(m))
            val = self.ex(m)
            if dep:
                leaves.append(val)
                return "v"
            return paren(as_x(val))
        body = nest(rhs)
        if len(leaves) != 1:
            raise TranslateError("%s: the clamp of %s has %d particle-dependent arguments (expected exactly one) (line %s)" %
                                 (self.name, target, len(leaves), line_of(n)))
        cname = "%s_clamp" % self.name
        if any(c[0] == cname for c in self.clamps):
            cname = "%s_clamp%d" % (self.name, len(self.clamps) + 1)
        if body.startswith("(") and body.endswith(")"):
            body = body[1:-1]
        self.clamps.append([cname, None, body])
        return V("x", "%s CLAMPARGS %s" % (cname, paren(as_x(leaves[0]))), "float", tag="clamp:" + cname)

    def stmt(self, n):
        k = n.get("kind")
        if k in WRAPPERS:
            return self.stmt(kids(n)[0])
        if k == "CompoundStmt":
            for c in kids(n):
                self.stmt(c)
            return
        if k == "NullStmt":
            return
        if k == "DeclStmt":
            for vd in kids(n):
                if vd.get("kind") != "VarDecl":
                    raise TranslateError("declaration of kind %s" % vd.get("kind"))
                ini = kids(vd)
                if not ini:
                    self.env[vd["name"]] = None
                    continue
                v = self.ex(ini[-1])
                if v.cat == "z":
                    v = V("z", v.s, ty(vd), v.const)
                self.bind(vd["name"], v)
            return
        if k == "BinaryOperator" and n.get("opcode") == "=":
            a, b = kids(n)
            tgt = self.lhs_name(a)
            v = self.ex(b)
            if v.cat == "z":
                v = V("z", v.s, ty(a), v.const)
            self.assign(tgt, v, n)
            return
        if k == "CompoundAssignOperator":
            a, b = kids(n)
            tgt = self.lhs_name(a)
            op = n["opcode"][0]
            cur = self.env[tgt]
            if cur is None:
                raise TranslateError("%s: %s updated before it is assigned" % (self.name, tgt))
            ctype = (n.get("computeResultType") or {}).get("qualType") or ty(a)
            v = self.binop(op, cur, self.ex(b), ctype.replace("const ", ""), n)
            self.bind(tgt, v)
            return
        if k == "IfStmt":
            ks = kids(n)
            if len(ks) != 2:
                raise TranslateError("%s: `if` with an else branch or an init statement (line %s)" % (self.name, line_of(n)))
            c = self.ex(ks[0])
            if c.cat != "b":
                raise TranslateError("%s: condition is not a comparison" % self.name)
            cn = self.fresh("guard")
            self.lets.append((cn, c.s))
            before = dict(self.env)
            self.stmt(ks[1])
            for key, v in list(self.env.items()):
                old = before.get(key)
                if key not in before:
                    del self.env[key]          # block-local
                    continue
                if v is old:
                    continue
                if old is None or v is None or old.cat in ("arr", "obj"):
                    raise TranslateError("%s: %s is first assigned inside a condition" % (self.name, key))
                if v.cat == "x" or old.cat == "x":
                    s = "if %s then %s else %s" % (cn, as_x(v), as_x(old))
                    cat = "x"
                elif v.cat == old.cat:
                    s, cat = "if %s then %s else %s" % (cn, v.s, old.s), v.cat
                else:
                    s, cat = "if %s then %s else %s" % (cn, as_q(v), as_q(old)), "q"
                self.env[key] = old
                self.bind(key, V(cat, s, old.cty))
            return
        if k == "ForStmt":
            return self.loop(n)
        raise TranslateError("%s: statement kind %s (line %s)" % (self.name, k, line_of(n)))

    def loop(self, n):
        """for (T j = 0; j < BOUND; j++) { locals; acc += E; ... } -> acc := acc + qsum (map (fun j => E) (zrange BOUND))"""
        init, _, cond, inc, body = (n.get("inner") + [None] * 5)[:5]
        vds = [c for c in kids(init or {}) if c.get("kind") == "VarDecl"]
        if len(vds) != 1 or not kids(vds[0]):
            raise TranslateError("%s: loop without a single initialised loop variable" % self.name)
        jn = vds[0]["name"]
        j0 = self.ex(kids(vds[0])[-1])
        if not (j0.const and j0.s == "0"):
            raise TranslateError("%s: loop over %s does not start at 0" % (self.name, jn))
        c = self.peel(cond)
        if c.get("kind") != "BinaryOperator" or c.get("opcode") != "<":
            raise TranslateError("%s: loop condition is not `%s < bound`" % (self.name, jn))
        l = self.peel_any(kids(c)[0])
        if l.get("kind") != "DeclRefExpr" or refname(l) != jn:
            raise TranslateError("%s: loop condition does not test %s" % (self.name, jn))
        outer_env = dict(self.env)
        bound = self.ex(kids(c)[1])
        i = self.peel(inc)
        if not (i.get("kind") == "UnaryOperator" and i.get("opcode") == "++" and refname(self.peel(kids(i)[0])) == jn):
            raise TranslateError("%s: loop increment is not %s++" % (self.name, jn))
        # symbolic body in a scratch executor state
        saved_lets = self.lets
        self.lets = []
        jv = self.fresh(jn)
        self.env[jn] = V("z", jv, ty(vds[0]))
        accs = []          # (target, term with the body's lets)
        stmts = kids(body) if body.get("kind") == "CompoundStmt" else [body]
        for s in stmts:
            sk = s.get("kind")
            if sk == "DeclStmt":
                self.stmt(s)
            elif sk == "CompoundAssignOperator" and s.get("opcode") == "+=":
                a, b = kids(s)
                tgt = self.lhs_name(a)
                if tgt not in outer_env or outer_env[tgt] is None:
                    raise TranslateError("%s: the loop accumulates into %s, which is not initialised before the loop" % (self.name, tgt))
                if any(t == tgt for t, _ in accs):
                    raise TranslateError("%s: two accumulations into %s in one loop" % (self.name, tgt))
                for x in walk(b):
                    if x.get("kind") == "DeclRefExpr" and refname(x) in [t for t, _ in accs] + [tgt]:
                        raise TranslateError("%s: a loop term reads an accumulator" % self.name)
                v = self.ex(b)
                term = as_q(v)
                for nm, t in reversed(self.lets):
                    if re.search(r"(?<![A-Za-z0-9_'])%s(?![A-Za-z0-9_'])" % re.escape(nm), term):
                        term = "let %s := %s in %s" % (nm, t, term)
                accs.append((tgt, term))
            else:
                raise TranslateError("%s: statement of kind %s in a summation loop (line %s)" % (self.name, sk, line_of(s)))
        self.lets = saved_lets
        self.env = outer_env
        if not accs:
            raise TranslateError("%s: loop without accumulation" % self.name)
        for tgt, term in accs:
            cur = self.env[tgt]
            s = "qsum (map (fun %s => %s) (zrange %s))" % (jv, term, paren(as_z(bound)))
            if not (cur.const and cur.s == "0"):
                s = "(%s + %s)%%Qc" % (paren(as_q(cur)), s)
            self.bind(tgt, V("q", s, "float"))


# ------------------------------------------------------------------------------------------- shared call hooks

def axis_call(n, fn, what):
    """_axis[k]->what()  ->  k, or None"""
    if n.get("kind") != "CXXMemberCallExpr":
        return None
    me = kids(n)[0]
    if me.get("kind") != "MemberExpr" or me.get("name") != what:
        return None
    ax = [m for m in walk(me) if m.get("kind") == "MemberExpr" and m.get("name") == "_axis"]
    if len(ax) != 1:
        return None
    lits = [m for m in walk(me) if m.get("kind") == "IntegerLiteral"]
    if len(lits) != 1:
        raise TranslateError("_axis[...]->%s() with a non-literal axis number" % what)
    return int(lits[0]["value"])


def find_method(docs, name):
    for d in docs:
        if d.get("kind") == "CXXMethodDecl" and d.get("name") == name:
            for c in d.get("inner", []):
                if c.get("kind") == "CompoundStmt":
                    return d, c
    raise TranslateError("no definition of %s found" % name)


def emit_fn(fn, params, result, doc):
    """Definition text of an executed function; `params`: ordered (name, type) candidates, all emitted (so that the
    signature does not change with the source) - unused ones are simply not mentioned in the body"""
    out = []
    cl_params = [p for p in params if p[1] == "Z" and p[0] not in ("ip",)]
    for c in fn.clamps:
        ps = [p for p in cl_params if re.search(r"(?<![A-Za-z0-9_'])%s(?![A-Za-z0-9_'])" % p[0], c[2])]
        c[1] = ps
    def fix(s):
        for c in fn.clamps:
            s = s.replace("%s CLAMPARGS" % c[0], " ".join([c[0]] + [p[0] for p in cl_params]))
        return s
    for c in fn.clamps:
        out.append("Definition %s %s (v : xval) : xval :=\n  %s." % (c[0], " ".join("(%s : %s)" % p for p in cl_params), c[2]))
    sig = " ".join("(%s : %s)" % p for p in params)
    body = "".join("  let %s := %s in\n" % (nm, fix(t)) for nm, t in fn.lets)
    out.append("(** %s *)\nDefinition %s %s (x y : Qc) : xval * xval :=\n%s  (%s, %s)." %
               (doc, fn.name, sig, body, fix(as_x(result[0])), fix(as_x(result[1]))))
    return "\n".join(out)


# ------------------------------------------------------------------------------------------- KickMap::applyTo

def kick_members():
    return {"_offset": V("arr", "offs", elem="q"), "_meshsize_pd": V("z", "pd", "unsigned int"),
            "_meshsize_kd": V("z", "kd", "unsigned int")}


def tr_kick():
    docs = ast_of("src/SM/KickMap.cpp", "vfps::KickMap::applyTo")
    _, body = find_method(docs, "applyTo")
    sts = kids(body)
    if len(sts) != 1 or sts[0].get("kind") != "IfStmt" or len(kids(sts[0])) != 3:
        raise TranslateError("KickMap::applyTo is not a single `if (_kickdirection == Axis::..) {..} else {..}`")
    cond, bthen, belse = kids(sts[0])
    c = cond
    while c.get("kind") in WRAPPERS + ("ImplicitCastExpr",):
        c = kids(c)[0]
    if c.get("kind") != "BinaryOperator" or c.get("opcode") not in ("==", "!="):
        raise TranslateError("direction test is not an (in)equality")
    names = [refname(m) or m.get("name") for m in walk(c) if m.get("kind") in ("DeclRefExpr", "MemberExpr")]
    if "_kickdirection" not in names or not ({"x", "y"} & set(names)):
        raise TranslateError("direction test does not compare _kickdirection with Axis::x / Axis::y")
    first = "x" if "x" in names else "y"
    if c.get("opcode") == "!=":
        first = "y" if first == "x" else "x"
    blocks = {first: bthen, ("y" if first == "x" else "x"): belse}
    params = [("pd", "Z"), ("kd", "Z"), ("offs", "Z -> Qc")]
    out = []
    for d in ("x", "y"):
        fn = Fn("gen_kick_" + d, kick_members(), None)
        fn.env["pos.x"] = V("q", "x", "float")
        fn.env["pos.y"] = V("q", "y", "float")
        fn.stmt(blocks[d])
        moved = "pos." + d
        other = "pos." + ("y" if d == "x" else "x")
        if (fn.env[moved].tag or "").startswith("clamp:") is False and not fn.clamps:
            raise TranslateError("KickMap::applyTo, branch Axis::%s: %s does not end in a std::min/std::max clamp" % (d, moved))
        if len(fn.clamps) != 1:
            raise TranslateError("KickMap::applyTo, branch Axis::%s: %d clamps" % (d, len(fn.clamps)))
        # the last binding of the moved coordinate must be the clamp
        last = [t for nm, t in fn.lets if nm.startswith("pos_" + d)][-1]
        if fn.clamps[0][0] not in last:
            raise TranslateError("KickMap::applyTo, branch Axis::%s: the clamp is not the last assignment of %s" % (d, moved))
        if fn.env[other].s != ("y" if d == "x" else "x"):
            raise TranslateError("KickMap::applyTo, branch Axis::%s also changes %s" % (d, other))
        out.append(emit_fn(fn, params, (fn.env["pos.x"], fn.env["pos.y"]),
                           "KickMap::applyTo, branch `_kickdirection == Axis::%s`" % d))
    return "\n\n".join(out)


# ------------------------------------------------------------------------------------------- FokkerPlanckMap::applyTo

def fp_members():
    return {"_hinfo": V("arr", "H", elem="hi"), "_ysize": V("z", "n", "unsigned int"),
            "_xsize": V("z", "nx", "unsigned int"), "_ip": V("z", "ip", "unsigned char"),
            "_dampdecr": V("q", "e1", "float")}


def fp_calls(n, fn):
    k = n.get("kind")
    if k == "CXXMemberCallExpr":
        me = kids(n)[0]
        nm = me.get("name")
        if nm == "getData":
            return V("arr", "D", elem="q")
        if nm == "nMeshCells":
            a = fn.ex(kids(n)[1])
            if not a.const or a.s not in ("0", "1"):
                raise TranslateError("nMeshCells with a non-literal axis")
            fn.use("nx" if a.s == "0" else "n")
            return V("z", "nx" if a.s == "0" else "n", "unsigned int")
        for what, pre in (("zerobin", "zb"),):
            ax = axis_call(n, fn, what)
            if ax is not None:
                if ax not in (0, 1):
                    raise TranslateError("axis %d" % ax)
                fn.use("%s%d" % (pre, ax))
                return V("q", "%s%d" % (pre, ax), "float")
    if k == "CXXOperatorCallExpr":
        ks = kids(n)
        op = refname(fn.peel(ks[0]))
        if op == "operator()" and len(ks) == 3:
            names = [m.get("name") for m in walk(n) if m.get("kind") == "MemberExpr"]
            if "_normdist" in names and "_prng" in names:
                fn.noise_draws += 1
                if fn.noise_draws > 1:
                    raise TranslateError("the stochastic model draws more than one number per particle")
                fn.use("noise")
                return V("q", "noise", "float")
    return None


FP_PARAMS = [("n", "Z"), ("nx", "Z"), ("ip", "Z"), ("H", "Z -> Z * Qc"), ("D", "Z -> Qc"), ("e1", "Qc"),
             ("zb0", "Qc"), ("zb1", "Qc"), ("noise", "Qc")]


def tr_fp():
    docs = ast_of("src/SM/FokkerPlanckMap.cpp", "vfps::FokkerPlanckMap::applyTo")
    _, body = find_method(docs, "applyTo")
    sts = kids(body)
    if len(sts) != 1 or sts[0].get("kind") != "SwitchStmt":
        raise TranslateError("FokkerPlanckMap::applyTo is not a single switch statement")
    sw = kids(sts[0])
    names = [m.get("name") for m in walk(sw[0]) if m.get("kind") == "MemberExpr"]
    if names != ["_fptrack"]:
        raise TranslateError("the switch is not over _fptrack")
    comp = sw[-1]
    if comp.get("kind") != "CompoundStmt":
        raise TranslateError("switch body is not a block")
    groups = []          # (labels, statements)
    cur = None
    for s in kids(comp):
        labels = []
        while s.get("kind") in ("CaseStmt", "DefaultStmt"):
            if s["kind"] == "CaseStmt":
                ks = kids(s)
                ce = ks[0]
                val = ce.get("value")
                en = [refname(m) for m in walk(ce) if m.get("kind") == "DeclRefExpr"]
                if val is None or len(en) != 1:
                    raise TranslateError("case label is not an enumerator of FPTracking")
                labels.append((int(val), en[0]))
                s = ks[-1]
            else:
                labels.append(("default", "default"))
                s = kids(s)[-1]
        if labels:
            if cur is not None and not cur[2]:
                raise TranslateError("case %s falls through into the next case" % (cur[0],))
            cur = [labels, [], False]
            groups.append(cur)
        if cur is None:
            raise TranslateError("statement before the first case label")
        if cur[2]:
            raise TranslateError("statement after `break` in case %s" % (cur[0],))
        if s.get("kind") == "BreakStmt":
            cur[2] = True
        else:
            cur[1].append(s)
    if groups and not groups[-1][2] and groups[-1][1]:
        pass          # the last case may end without break
    out = []
    disp = []
    default_fn = None
    seen = set()
    for labels, stmts, _ in groups:
        ens = [l for l in labels if l[0] != "default"]
        name = "gen_fp_" + (ens[0][1] if ens else "default")
        fn = Fn(name, fp_members(), fp_calls)
        fn.env["pos.x"] = V("q", "x", "float")
        fn.env["pos.y"] = V("q", "y", "float")
        for s in stmts:
            fn.stmt(s)
        changed = [c for c in ("x", "y") if fn.env["pos." + c].s != c]
        if changed:
            if changed != ["y"]:
                raise TranslateError("FokkerPlanckMap::applyTo, case %s changes pos.x" % name)
            if len(fn.clamps) != 1:
                raise TranslateError("FokkerPlanckMap::applyTo, case %s: %d clamps of pos.y (expected one)" % (name, len(fn.clamps)))
            last = [t for nm, t in fn.lets if nm.startswith("pos_y")][-1]
            if fn.clamps[0][0] not in last:
                raise TranslateError("FokkerPlanckMap::applyTo, case %s: the clamp is not the last assignment of pos.y" % name)
        out.append(emit_fn(fn, FP_PARAMS, (fn.env["pos.x"], fn.env["pos.y"]),
                           "FokkerPlanckMap::applyTo, case %s" % ", ".join(str(l[1]) for l in labels)))
        for v, en in ens:
            if v in seen:
                raise TranslateError("duplicate case value %d" % v)
            seen.add(v)
            disp.append((v, name))
        if any(l[0] == "default" for l in labels):
            default_fn = name
    args = " ".join(p[0] for p in FP_PARAMS)
    d = "Definition gen_fp_applyTo (fptrack : Z) %s (x y : Qc) : xval * xval :=\n" % " ".join("(%s : %s)" % p for p in FP_PARAMS)
    for v, name in disp:
        d += "  if fptrack =? %d then %s %s x y else\n" % (v, name, args)
    d += "  %s." % (("%s %s x y" % (default_fn, args)) if default_fn else "(XF x, XF y)")
    out.append("(** dispatch of the switch over _fptrack (enum values as clang evaluates them; other values: %s) *)\n%s" %
               ("the `default` label" if default_fn else "no case, nothing happens", d))
    out.append("Definition gen_fp_enum : list (Z * nat) := [%s]." % "; ".join(
        "(%d, %d%%nat)" % (v, {"none": 0, "approximation1": 1, "approximation2": 2, "stochastic": 3}.get(en, 99))
        for labels, _, _ in groups for v, en in labels if v != "default"))
    return "\n\n".join(out)


# ------------------------------------------------------------------------------------------- PhaseSpace::x/y/q/p

def ps_calls(n, fn):
    for what, pre in (("min", "amin"), ("delta", "adelta"), ("max", "amax")):
        ax = axis_call(n, fn, what)
        if ax is not None:
            fn.use("%s%d" % (pre, ax))
            return V("q", "%s%d" % (pre, ax), "float")
    return None


PS_PARAMS = [("nx", "Z"), ("ny", "Z"), ("amin0", "Qc"), ("adelta0", "Qc"), ("amin1", "Qc"), ("adelta1", "Qc")]


def tr_ps():
    out = []
    for nm in ("x", "y"):
        docs = ast_of("src/IO/HDF5File.cpp", "vfps::PhaseSpace::" + nm)
        d, body = find_method(docs, nm)
        prm = [c for c in d.get("inner", []) if c.get("kind") == "ParmVarDecl"]
        sts = kids(body)
        if len(prm) != 1 or len(sts) != 1 or sts[0].get("kind") != "ReturnStmt":
            raise TranslateError("PhaseSpace::%s is not `return <expression of one parameter>`" % nm)
        fn = Fn("gen_ps_" + nm, {"_nmeshcellsX": V("z", "nx", "unsigned int"), "_nmeshcellsY": V("z", "ny", "unsigned int")}, ps_calls)
        fn.env[prm[0]["name"]] = V("q", "c", "float")
        v = fn.ex(kids(sts[0])[0])
        if "amax0" in fn.params_used or "amax1" in fn.params_used:
            raise TranslateError("PhaseSpace::%s uses the axis maximum" % nm)
        out.append("(** PhaseSpace::%s: physical coordinate -> grid coordinate (tracking file -> particle) *)\n"
                   "Definition gen_ps_%s %s (c : Qc) : xval :=\n  %s." %
                   (nm, nm, " ".join("(%s : %s)" % p for p in PS_PARAMS), as_x(v)))
    ax = {}
    docs = ast_of("src/IO/HDF5File.cpp", "vfps::PhaseSpace::_qp")
    d, body = find_method(docs, "_qp")
    prm = [c["name"] for c in d.get("inner", []) if c.get("kind") == "ParmVarDecl"]
    sts = kids(body)
    ok = len(prm) == 2 and len(sts) == 1 and sts[0].get("kind") == "ReturnStmt"
    if ok:
        call = kids(sts[0])[0]
        while call.get("kind") in WRAPPERS + ("ImplicitCastExpr",):
            call = kids(call)[0]
        ok = call.get("kind") == "CXXMemberCallExpr" and kids(call)[0].get("name") == "at"
        if ok:
            axrefs = [refname(m) for m in walk(kids(call)[0]) if m.get("kind") == "DeclRefExpr" and refname(m) in prm]
            argrefs = [refname(m) for m in walk(kids(call)[1]) if m.get("kind") == "DeclRefExpr" and refname(m) in prm]
            ok = axrefs == [prm[0]] and argrefs == [prm[1]] and \
                any(m.get("name") == "_axis" for m in walk(kids(call)[0]))
    if not ok:
        raise TranslateError("PhaseSpace::_qp is not `return _axis[axis]->at(n)`")
    for nm in ("q", "p"):
        docs = ast_of("src/IO/HDF5File.cpp", "vfps::PhaseSpace::" + nm)
        d, body = find_method(docs, nm)
        prm = [c["name"] for c in d.get("inner", []) if c.get("kind") == "ParmVarDecl"]
        sts = kids(body)
        if len(prm) != 1 or len(sts) != 1 or sts[0].get("kind") != "ReturnStmt":
            raise TranslateError("PhaseSpace::%s is not a single return" % nm)
        call = kids(sts[0])[0]
        while call.get("kind") in WRAPPERS + ("ImplicitCastExpr",):
            call = kids(call)[0]
        if call.get("kind") != "CXXMemberCallExpr" or kids(call)[0].get("name") != "_qp" or len(kids(call)) != 3:
            raise TranslateError("PhaseSpace::%s does not return _qp(axis, index)" % nm)
        a = call["inner"][1]
        lit = [m for m in walk(a) if m.get("kind") == "IntegerLiteral"]
        ref = [refname(m) for m in walk(call["inner"][2]) if m.get("kind") == "DeclRefExpr"]
        if len(lit) != 1 or ref != prm:
            raise TranslateError("PhaseSpace::%s: _qp is not called with (literal axis, the parameter)" % nm)
        ax[nm] = int(lit[0]["value"])
    out.append("(** PhaseSpace::q / p -> _qp(axis, n) -> _axis[axis]->at(n): the axis array each lookup reads *)\n"
               "Definition gen_axis_of (f : axfn) : Z := match f with AxQ => %d | AxP => %d end." % (ax["q"], ax["p"]))
    return "\n\n".join(out)


# ------------------------------------------------------------------------------------------- appendTracks, main()

def position_list(n, objname, fnmap, what):
    """InitListExpr {obj->F(a), obj->G(b)} -> [(F, argument node), (G, argument node)]"""
    il = [m for m in walk(n) if m.get("kind") == "InitListExpr" and "Position" in ty(m)]
    if len(il) != 1 or len(kids(il[0])) != 2:
        raise TranslateError("%s: expected one initialiser list {.., ..} of a Position" % what)
    res = []
    for e in kids(il[0]):
        c = e
        while c.get("kind") in WRAPPERS + ("ImplicitCastExpr",):
            c = kids(c)[0]
        if c.get("kind") != "CXXMemberCallExpr" or len(kids(c)) != 2:
            raise TranslateError("%s: list element is not a member call with one argument" % what)
        me = kids(c)[0]
        objs = [m.get("name") or refname(m) for m in walk(me) if m.get("kind") in ("MemberExpr", "DeclRefExpr")
                and not (refname(m) or "").startswith("operator")]
        names = objname if isinstance(objname, (set, frozenset, list, tuple)) else (objname,)
        if me.get("name") not in fnmap or not any(o in objs for o in names):
            raise TranslateError("%s: list element calls %s on %s" % (what, me.get("name"), objs))
        res.append((fnmap[me["name"]], kids(c)[1]))
    return res


def tr_append():
    docs = ast_of("src/IO/HDF5File.cpp", "vfps::HDF5File::appendTracks")
    d, body = find_method(docs, "appendTracks")
    prm = [c["name"] for c in d.get("inner", []) if c.get("kind") == "ParmVarDecl"]
    loops = [m for m in walk(body) if m.get("kind") in ("CXXForRangeStmt", "ForStmt", "WhileStmt")]
    if len(prm) != 1:
        raise TranslateError("appendTracks: expected one parameter")
    # names for the phase space: the member _ps and locals bound to it (`const PhaseSpace& grid = *_ps;`)
    psnames = {"_ps"}
    for c in walk(body):
        if c.get("kind") == "VarDecl" and "PhaseSpace" in ty(c) and "Position" not in ty(c) and kids(c) and \
                any(m.get("kind") == "MemberExpr" and m.get("name") == "_ps" for m in walk(kids(c)[-1])):
            psnames.add(c["name"])
    cand = {}
    if not loops:
        # std::transform(p.begin(), p.end(), std::back_inserter(physcords), [..](const Position& pos) { return Position{..}; })
        tf = [m for m in walk(body) if m.get("kind") == "CallExpr" and kids(m) and any(x.get("kind") == "DeclRefExpr" and refname(x) == "transform" for x in walk(kids(m)[0]))]
        if len(tf) != 1:
            raise TranslateError("appendTracks: expected one loop over the parameter (or one std::transform of it)")
        args = kids(tf[0])[1:]
        lam = [m for m in walk(tf[0]) if m.get("kind") == "LambdaExpr"]
        ends = [m.get("name") for a in args[:2] for m in walk(a) if m.get("kind") == "MemberExpr"]
        srcs = [refname(m) for a in args[:2] for m in walk(a) if m.get("kind") == "DeclRefExpr" and refname(m) == prm[0]]
        if len(args) != 4 or len(lam) != 1 or sorted(x for x in ends if x in ("begin", "end", "cbegin", "cend"))[:1] not in (["begin"], ["cbegin"]) \
                or len(srcs) != 2 or not any(refname(m) == "back_inserter" for m in walk(args[2]) if m.get("kind") == "DeclRefExpr"):
            raise TranslateError("appendTracks: std::transform is not (p.begin(), p.end(), back_inserter(..), lambda)")
        meth = [m for m in walk(lam[0]) if m.get("kind") == "CXXMethodDecl" and m.get("name") == "operator()"]
        lp = [c for c in kids(meth[0]) if c.get("kind") == "ParmVarDecl"] if meth else []
        rets = [m for m in walk(meth[0]) if m.get("kind") == "ReturnStmt"] if meth else []
        if len(lp) != 1 or "Position" not in ty(lp[0]) or len(rets) != 1:
            raise TranslateError("appendTracks: the lambda of std::transform is not `(Position) -> one return`")
        cand[lp[0]["name"]] = True
        pb = rets
    else:
        if len(loops) != 1:
            raise TranslateError("appendTracks: expected one parameter and one loop over it")
        pb = [m for m in walk(loops[0]) if m.get("kind") == "CXXMemberCallExpr" and kids(m)[0].get("name") in ("push_back", "emplace_back")]
        if len(pb) != 1:
            raise TranslateError("appendTracks: expected one push_back in the loop")
        # the particle of the current iteration: a local of type Position declared inside the loop from the parameter
        for c in walk(loops[0]):
            if c.get("kind") == "VarDecl" and not c["name"].startswith("__") and "Position" in ty(c) and "vector" not in ty(c) and "iterator" not in ty(c):
                refs = [refname(m) for m in walk(c) if m.get("kind") == "DeclRefExpr"]
                if prm[0] in refs or any((r or "").startswith("__") for r in refs):
                    cand[c["name"]] = True
    ents = []
    for f, arg in position_list(pb[0], psnames, {"q": "AxQ", "p": "AxP"}, "appendTracks"):
        a = arg
        conv = None
        while a.get("kind") in WRAPPERS + ("ImplicitCastExpr", "CXXStaticCastExpr"):
            if a.get("castKind") == "FloatingToIntegral":
                conv = ty(a)
            elif a.get("kind") != "ParenExpr" and a.get("castKind") not in PASS_CASTS and a.get("kind") not in WRAPPERS:
                raise TranslateError("appendTracks: argument conversion %s" % a.get("castKind"))
            a = kids(a)[0]
        if conv != "unsigned int":
            raise TranslateError("appendTracks: the coordinate is not converted from float to unsigned int (but %s)" % conv)
        if a.get("kind") != "MemberExpr" or a.get("name") not in ("x", "y") or refname(kids(a)[0]) not in cand:
            raise TranslateError("appendTracks: the argument is not a plain coordinate of the particle of this iteration")
        ents.append((f, "CX" if a["name"] == "x" else "CY"))
    return ("(** HDF5File::appendTracks: physcords.push_back({_ps->F(pos.c), _ps->G(pos.d)}) with the float -> unsigned conversion\n"
            "    of the argument ([f2u (Qctrunc c)], see [append_entry]) *)\n"
            "Definition gen_append_first : axfn * coord := (%s, %s).\nDefinition gen_append_second : axfn * coord := (%s, %s)." %
            (ents[0] + ents[1]))


def member_call(n):
    if n.get("kind") != "CXXMemberCallExpr":
        return None
    me = kids(n)[0]
    if me.get("kind") != "MemberExpr":
        return None
    names = [refname(m) for m in walk(me) if m.get("kind") == "DeclRefExpr" and refname(m) and not refname(m).startswith("operator")]
    return me.get("name"), (names[0] if len(names) == 1 else None)


TRACKED = []        # (kind of map, class main() stores in a variable it calls ->applyToAll(trackme) on); filled by tr_main


def tr_main():
    import steporder2coq as so
    del TRACKED[:]
    docs = ast_of("src/main.cpp", "main")
    _, body = body_of(docs, "main")
    # ---- loading
    pbs = [m for m in walk(body) if m.get("kind") == "CXXMemberCallExpr" and member_call(m) == ("push_back", "trackme")]
    if len(pbs) != 1:
        raise TranslateError("main(): expected exactly one trackme.push_back(...), found %d" % len(pbs))
    wl = [m for m in walk(body) if m.get("kind") == "WhileStmt" and any(x is pbs[0] for x in walk(m))]
    if not wl:
        raise TranslateError("main(): trackme.push_back is not inside a while loop")
    w = wl[-1]
    cvars = [refname(m) for m in walk(kids(w)[0]) if m.get("kind") == "DeclRefExpr" and not (refname(m) or "").startswith("operator")]
    if len(cvars) != 3:
        raise TranslateError("main(): the loading loop's condition is not `file >> a >> b`: %s" % cvars)
    col = {cvars[1]: "Col1", cvars[2]: "Col2"}
    grid = None
    ents = []
    il = [m for m in walk(pbs[0]) if m.get("kind") == "InitListExpr" and "Position" in ty(m)]
    if len(il) != 1 or len(kids(il[0])) != 2:
        raise TranslateError("main(): trackme.push_back does not take a {.., ..} list")
    for e in kids(il[0]):
        c = e
        while c.get("kind") in WRAPPERS + ("ImplicitCastExpr",):
            c = kids(c)[0]
        mc = member_call(c)
        if not mc or mc[0] not in ("x", "y") or len(kids(c)) != 2:
            raise TranslateError("main(): a loaded coordinate is not grid->x(..) / grid->y(..)")
        grid = grid or mc[1]
        if mc[1] != grid:
            raise TranslateError("main(): the two coordinates are converted by different grids")
        a = kids(c)[1]
        while a.get("kind") in WRAPPERS + ("ImplicitCastExpr",):
            if a.get("castKind") not in PASS_CASTS + (None,):
                raise TranslateError("main(): loaded coordinate is converted (%s)" % a.get("castKind"))
            a = kids(a)[0]
        if a.get("kind") != "DeclRefExpr" or refname(a) not in col:
            raise TranslateError("main(): the argument of %s() is not one of the two numbers read" % mc[0])
        ents.append(("LdX" if mc[0] == "x" else "LdY", col[refname(a)]))
    # ---- per-step calls
    loops = []
    for s in kids(body):
        if s.get("kind") == "WhileStmt":
            cn = [refname(m) for m in walk(kids(s)[0]) if m.get("kind") == "DeclRefExpr"]
            if "simulationstep" in cn and "laststep" in cn:
                loops.append(s)
    if len(loops) != 1:
        raise TranslateError("main(): expected one simulation loop, found %d" % len(loops))
    comp = kids(loops[0])[-1]
    cls = so.var_kinds(body)
    evs = []
    for s in kids(comp):
        st = s
        while st.get("kind") in WRAPPERS:
            st = kids(st)[0]
        mc = member_call(st)
        if mc and mc[0] in ("apply", "applyToAll") and mc[1]:
            kind = so.kind_of(mc[1], cls)
            if mc[0] == "applyToAll":
                args = [refname(m) for m in walk(kids(st)[1]) if m.get("kind") == "DeclRefExpr"]
                if args != ["trackme"]:
                    raise TranslateError("main(): applyToAll is not called on trackme")
                evs.append("TTrack " + kind)
                for c in sorted(cls.get(mc[1], set())):
                    if (kind, c) not in TRACKED:
                        TRACKED.append((kind, c))
            else:
                evs.append("TApply " + kind)
            continue
        for m in walk(s):
            mc = member_call(m)
            if mc and mc[0] in ("apply", "applyToAll") and mc[1] and so.CLASS_RE and \
                    any(c in so.KIND for c in cls.get(mc[1], set())):
                raise TranslateError("main(): %s() of a source map inside a nested statement of the loop body" % mc[0])
    if not evs:
        raise TranslateError("main(): no apply()/applyToAll() in the loop body")
    return ("(** main(): `trackme.push_back({%s->F(a), %s->G(b)})` in `while (file >> a >> b)` *)\n"
            "Definition gen_load_first : ldfn * fcol := (%s, %s).\nDefinition gen_load_second : ldfn * fcol := (%s, %s).\n\n"
            "(** main(), simulation loop: the apply() / applyToAll(trackme) statements in program order *)\n"
            "Definition gen_track_events : list tevent := [%s]." % ((grid, grid) + ents[0] + ents[1] + ("; ".join(evs),)))


# ------------------------------------------------------------------------------------------- DynamicRFKickMap

def _names(n):
    return [m.get("name") for m in walk(n) if m.get("kind") == "MemberExpr"]


def _is_front(n):
    """the expression is `_next_modulation.front()` (possibly moved / copied / bound to a reference)"""
    return _names(n) == ["front", "_next_modulation"] and not any(m.get("kind") in ("IntegerLiteral", "ArraySubscriptExpr") for m in walk(n))


def _src_text(n, src_rel):
    r = n.get("range", {})
    b, e = r.get("begin", {}), r.get("end", {})
    if "offset" not in b or "offset" not in e:
        return ""
    with open(os.path.join(REPO, src_rel), "rb") as f:
        data = f.read()
    return data[b["offset"]:e["offset"] + e.get("tokLen", 0)].decode("utf-8", "replace")


def tr_dyn():
    SRC = "src/SM/DynamicRFKickMap.cpp"
    docs = ast_of(SRC, "vfps::DynamicRFKickMap::apply")
    _, body = find_method(docs, "apply")
    acts = []
    alias = {}          # local name -> number of pops seen when it was bound to front()
    pops = 0
    for s in kids(body):
        st = s
        while st.get("kind") in WRAPPERS:
            st = kids(st)[0]
        if st.get("kind") == "DeclStmt":
            # a local copy of / reference to the front entry
            for vd in kids(st):
                if vd.get("kind") != "VarDecl" or not kids(vd) or not _is_front(kids(vd)[-1]):
                    raise TranslateError("DynamicRFKickMap::apply: local declaration that is not a copy of _next_modulation.front()")
                alias[vd["name"]] = pops
            continue
        if st.get("kind") == "IfStmt" and len(kids(st)) == 2:
            # if (!_next_modulation.empty()) _calcKick();
            c, b = kids(st)
            while c.get("kind") in WRAPPERS + ("ImplicitCastExpr",):
                c = kids(c)[0]
            inner = kids(b) if b.get("kind") == "CompoundStmt" else [b]
            ok = c.get("kind") == "UnaryOperator" and c.get("opcode") == "!" and _names(c) == ["empty", "_next_modulation"] and \
                len(inner) == 1 and inner[0].get("kind") == "CXXMemberCallExpr" and kids(inner[0])[0].get("name") == "_calcKick" and \
                len(_names(kids(inner[0])[0])) == 1
            if not ok:
                raise TranslateError("DynamicRFKickMap::apply: conditional statement that is not `if (!_next_modulation.empty()) _calcKick();`")
            acts.append("DCalcKickIfMore")
            continue
        if st.get("kind") != "CXXMemberCallExpr":
            raise TranslateError("DynamicRFKickMap::apply: statement of kind %s" % st.get("kind"))
        me = kids(st)[0]
        nm = me.get("name")
        objs = _names(me)[1:]
        if nm == "_calcKick" and not objs and len(kids(st)) == 1:
            acts.append("DCalcKick")
        elif nm == "apply" and not objs:
            base = [ty(m) for m in walk(me) if m.get("castKind") in ("UncheckedDerivedToBase", "DerivedToBase")]
            if not base or "KickMap" not in base[0] or "RFKickMap" in base[0]:
                raise TranslateError("DynamicRFKickMap::apply calls apply() of %s, not KickMap::apply" % (base or ["itself"]))
            acts.append("DKickApply")
        elif nm in ("emplace_back", "push_back") and objs == ["_past_modulation"] and len(kids(st)) == 2:
            arg = kids(st)[1]
            refs = [refname(m) for m in walk(arg) if m.get("kind") == "DeclRefExpr" and refname(m) in alias]
            if _is_front(arg):
                pass
            elif len(refs) == 1 and not _names(arg):
                if alias[refs[0]] != pops:
                    raise TranslateError("DynamicRFKickMap::apply: the copy of the front entry is stored after a pop()")
            else:
                raise TranslateError("DynamicRFKickMap::apply: _past_modulation.%s does not take the front entry of _next_modulation" % nm)
            acts.append("DPushPast")
        elif nm == "pop" and objs == ["_next_modulation"]:
            acts.append("DPop")
            pops += 1
        else:
            raise TranslateError("DynamicRFKickMap::apply: call of %s on %s not understood" % (nm, objs))
    docs = ast_of(SRC, "vfps::DynamicRFKickMap::_calcKick")
    _, body = find_method(docs, "_calcKick")
    env = {}            # local -> "front" | component number

    def value(n):
        while n.get("kind") in WRAPPERS + ("ImplicitCastExpr", "CXXStaticCastExpr"):
            n = kids(n)[0]
        if n.get("kind") == "DeclRefExpr" and refname(n) in env:
            return env[refname(n)]
        if _is_front(n):
            return "front"
        if n.get("kind") == "CXXOperatorCallExpr" and len(kids(n)) == 3 and refname(strip_casts(kids(n)[0])) == "operator[]":
            lit = strip_casts(kids(n)[2])
            if value(kids(n)[1]) == "front" and lit.get("kind") == "IntegerLiteral":
                return int(lit["value"])
        if n.get("kind") == "CallExpr" and len(kids(n)) == 2 and refname(strip_casts(kids(n)[0])) == "get":
            m = re.search(r"get\s*<\s*(\d+)\s*>", _src_text(strip_casts(kids(n)[0]), SRC))
            if m and value(kids(n)[1]) == "front":
                return int(m.group(1))
        if n.get("kind") == "CXXMemberCallExpr" and kids(n)[0].get("name") == "at" and len(kids(n)) == 2:
            lit = strip_casts(kids(n)[1])
            if value(kids(kids(n)[0])[0]) == "front" and lit.get("kind") == "IntegerLiteral":
                return int(lit["value"])
        raise TranslateError("DynamicRFKickMap::_calcKick: expression that is not a component of _next_modulation.front() (line %s)" % line_of(n))

    def strip_casts(n):
        while n.get("kind") in WRAPPERS + ("ImplicitCastExpr", "CXXStaticCastExpr"):
            n = kids(n)[0]
        return n

    call = None
    for s in kids(body):
        st = s
        while st.get("kind") in WRAPPERS:
            st = kids(st)[0]
        if st.get("kind") == "DeclStmt":
            for vd in kids(st):
                if vd.get("kind") != "VarDecl" or not kids(vd):
                    raise TranslateError("DynamicRFKickMap::_calcKick: uninitialised local")
                env[vd["name"]] = value(kids(vd)[-1])
        elif st.get("kind") == "CXXMemberCallExpr" and call is None:
            call = st
        else:
            raise TranslateError("DynamicRFKickMap::_calcKick: statement of kind %s" % st.get("kind"))
    if call is None or kids(call)[0].get("name") != "_calcKick" or len(kids(call)) != 3 or \
            not any("RFKickMap" in ty(m) for m in walk(kids(call)[0]) if m.get("castKind") in ("UncheckedDerivedToBase", "DerivedToBase")):
        raise TranslateError("DynamicRFKickMap::_calcKick does not call RFKickMap::_calcKick(phase, ampl)")
    comps = [value(a) for a in kids(call)[1:]]
    if any(not isinstance(c, int) for c in comps):
        raise TranslateError("DynamicRFKickMap::_calcKick hands over a whole queue entry")
    return ("(** DynamicRFKickMap::apply: its statements in program order *)\n"
            "Definition gen_dyn_apply : list dynstmt := [%s].\n"
            "(** DynamicRFKickMap::_calcKick: RFKickMap::_calcKick(front()[%d], front()[%d]) - components handed over as (phase, amplitude) *)\n"
            "Definition gen_dyn_calckick_args : Z * Z := (%d, %d)." % ("; ".join(acts), comps[0], comps[1], comps[0], comps[1]))


# ------------------------------------------------------------------------------------------- which applyTo runs

READ_BODIES = ("KickMap", "FokkerPlanckMap", "Identity")    # applyTo bodies this translator reads (Identity: checked to be empty)
ROOT = "SourceMap"


def _record(header_rel, name):
    """the complete CXXRecordDecl of vfps::<name> as declared in its header"""
    for d in ast_of(header_rel, "vfps::" + name):
        if d.get("kind") == "CXXRecordDecl" and d.get("name") == name and d.get("completeDefinition"):
            return d
    raise TranslateError("%s does not define class vfps::%s" % (header_rel, name))


def tr_dispatch():
    """class hierarchy below SourceMap (inc/SM/*.hpp) and, per class, the class whose applyTo body a virtual call runs.
    SourceMap::applyToAll calls the virtual applyTo: the body that moves the particles of `<map>->applyToAll(trackme)` is the one
    of the nearest class on the way from the object's class up to SourceMap that declares applyTo.  Every class main() tracks
    particles through must end at a body this translator reads."""
    import glob
    hdrs = sorted(glob.glob(os.path.join(REPO, "inc", "SM", "*.hpp")))
    if not hdrs:
        raise TranslateError("no headers under inc/SM")
    cre = re.compile(r"^\s*(?:class|struct)\s+(\w+)\b[^;{]*?:\s*(?:public|protected|private|virtual)?\s*([\w:]+)", re.M)
    names = {}
    for h in hdrs:
        base = os.path.basename(h)[:-4]
        text = re.sub(r"/\*.*?\*/|//[^\n]*", "", open(h, encoding="utf-8", errors="replace").read(), flags=re.S)
        found = [m.group(1) for m in cre.finditer(text)]
        if re.search(r"^\s*class\s+%s\b[^;]*\{" % base, text, re.M | re.S) is None:
            raise TranslateError("inc/SM/%s.hpp does not declare class %s" % (base, base))
        for f in found:
            if f != base:
                raise TranslateError("inc/SM/%s.hpp declares a second derived class %s (the translator reads one class per header)" % (base, f))
        names[base] = os.path.relpath(h, REPO)
    # a source map declared outside inc/SM would be missed
    for h in glob.glob(os.path.join(REPO, "inc", "**", "*.hpp"), recursive=True):
        if os.path.dirname(h) == os.path.join(REPO, "inc", "SM"):
            continue
        text = re.sub(r"/\*.*?\*/|//[^\n]*", "", open(h, encoding="utf-8", errors="replace").read(), flags=re.S)
        for m in cre.finditer(text):
            if m.group(2).split("::")[-1] in names:
                raise TranslateError("%s declares class %s derived from %s outside inc/SM" % (os.path.relpath(h, REPO), m.group(1), m.group(2)))
    parent, declares, where = {}, {}, {}
    for c, h in sorted(names.items()):
        rec = _record(h, c)
        bases = [b.get("type", {}).get("qualType", "").split("::")[-1] for b in rec.get("bases", [])]
        smb = [b for b in bases if b in names]
        if c == ROOT:
            if smb:
                raise TranslateError("SourceMap has a source-map base class")
        elif len(smb) != 1 or len(bases) != 1:
            if not smb:
                continue            # not a source map (helper class in inc/SM)
            raise TranslateError("class %s has %d base classes (%s): expected single inheritance below SourceMap" % (c, len(bases), ", ".join(bases)))
        parent[c] = smb[0] if smb else None
        ms = [m for m in rec.get("inner", []) if m.get("kind") in ("CXXMethodDecl", "FunctionTemplateDecl", "UsingDecl")
              and (m.get("name") or "").split("::")[-1] == "applyTo" and not m.get("isImplicit")]
        if any(m.get("kind") != "CXXMethodDecl" for m in ms) or len(ms) > 1:
            raise TranslateError("class %s declares applyTo %d times / as a template / by a using-declaration" % (c, len(ms)))
        if ms:
            m = ms[0]
            if c == ROOT:
                if not (m.get("virtual") and m.get("pure")):
                    raise TranslateError("SourceMap::applyTo is not pure virtual: classes without their own applyTo would run it")
                continue
            declares[c] = m
            where[c] = "%s:%s" % (h, line_of(m))
    if ROOT not in parent:
        raise TranslateError("SourceMap not found under inc/SM")

    def chain(c):
        seen = []
        while c is not None:
            if c in seen:
                raise TranslateError("cyclic inheritance at %s" % c)
            seen.append(c)
            if c not in parent:
                return None
            c = parent[c]
        return seen if seen[-1] == ROOT else None

    table = []
    for c in sorted(parent):
        if c == ROOT:
            continue
        ch = chain(c)
        if ch is None:
            continue
        tgt = [k for k in ch if k in declares]
        if not tgt:
            raise TranslateError("class %s: no class on the way up to SourceMap declares applyTo" % c)
        table.append((c, tgt[0]))
    disp = dict(table)
    # Identity::applyTo must do nothing
    if "Identity" in declares:
        body = [k for k in kids(declares["Identity"]) if k.get("kind") == "CompoundStmt"]
        if len(body) != 1 or any(not (k.get("kind") == "ReturnStmt" and not kids(k)) and k.get("kind") != "NullStmt" for k in kids(body[0])):
            raise TranslateError("Identity::applyTo is not an empty body in the header")
    if not TRACKED:
        raise TranslateError("main(): no class found behind the variables applyToAll(trackme) is called on")
    for kind, c in TRACKED:
        if c not in disp:
            raise TranslateError("main() tracks particles through %s, which is not a class below SourceMap in inc/SM" % c)
        b = disp[c]
        if b not in READ_BODIES:
            others = sorted(k for k, v in disp.items() if v == b and k != b)
            raise TranslateError("%s::applyTo (%s) is the body `->applyToAll(trackme)` runs for objects of class %s, and this translator does "
                                 "not read it (it reads %s): the particles of %s are no longer moved by KickMap::applyTo / "
                                 "FokkerPlanckMap::applyTo as modelled" % (b, where.get(b, "?"), ", ".join([b] + others), ", ".join(
                                     "%s::applyTo" % r for r in READ_BODIES), "a " + c))
    q = lambda x: '"%s"' % x
    return ("(** class hierarchy below SourceMap as declared in inc/SM/*.hpp: (class, the class whose applyTo body the virtual call in\n"
            "    SourceMap::applyToAll runs for an object of that class) - the nearest class on the way up to SourceMap that declares applyTo *)\n"
            "Definition gen_applyTo_dispatch : list (string * string) :=\n  [%s]%%string.\n"
            "(** main(): the classes it stores in the variables it calls `->applyToAll(trackme)` on, with the kind of the variable *)\n"
            "Definition gen_tracked_classes : list (smap * string) :=\n  [%s]%%string.\n"
            "(** the applyTo bodies this file holds: KickMap::applyTo (gen_kick_x, gen_kick_y), FokkerPlanckMap::applyTo (gen_fp_applyTo),\n"
            "    Identity::applyTo (checked: empty body) *)\n"
            "Definition gen_applyTo_read : list string := [%s]%%string." % (
                "; ".join("(%s, %s)" % (q(a), q(b)) for a, b in table), "; ".join("(%s, %s)" % (k, q(c)) for k, c in TRACKED),
                "; ".join(q(r) for r in READ_BODIES)))


def translate():
    parts = [tr_kick(), tr_fp(), tr_ps(), tr_append(), tr_main(), tr_dyn(), tr_dispatch()]
    head = ("(* GENERATED on every run by translate/track2coq.py from KickMap::applyTo, FokkerPlanckMap::applyTo,\n"
            "   PhaseSpace::x/y/q/p/_qp, HDF5File::appendTracks, main(), DynamicRFKickMap::apply/_calcKick and the class\n"
            "   declarations of inc/SM/*.hpp (which applyTo a virtual call runs) of the repository's working tree.  Do not edit.  Vocabulary: Model/TrackX.v. *)\n"
            "From Coq Require Import List ZArith QArith Qcanon Bool String.\n"
            "From Inovesa Require Import Base.FieldKit Base.Float32 Model.Kick Model.Tracking Model.StepKinds Model.TrackX.\n"
            "Import ListNotations.\nLocal Open Scope Z_scope.\n\n")
    return head + "\n\n".join(parts) + "\n"


if __name__ == "__main__":
    dst = sys.argv[1] if len(sys.argv) > 1 else os.path.join(VERIF, "coq", "Gen", "Gen_Track.v")
    try:
        text = translate()
    except TranslateError as e:
        print("TRANSLATE-ERROR Gen_Track: %s" % e)
        sys.exit(2)
    ch = write_if_changed(dst, text)
    print("Gen_Track.v %s" % ("regenerated" if ch else "unchanged"))
