#!/usr/bin/env python3
# GEN: Gen_FPEnv
"""Gen_FPEnv.v: every place in the repository that can change the floating-point ENVIRONMENT the simulation's arithmetic
runs under (C12; strengthening driven by seed C12-J: ElectricField::updateCSR - called only from the output block - switched
MXCSR to flush-to-zero / denormals-are-zero and never restored it, so runs that write differ from the run that never does).

The determinism / observer statements of C12 are about a program whose arithmetic is ONE function of its operands.  That
holds as long as nothing changes rounding mode, denormal handling, exception trapping or the compiler's licence to
re-associate while the program runs - a process-wide side channel no data-flow argument about `main()` sees.  This
translator makes the assumption a statement about a generated list:

 * `fpenv_sites`: a lexical scan of ALL files under src/ and inc/ (comments, string and character literals and `#include`
   lines removed; preprocessor conditionals are NOT evaluated: code of disabled branches is listed too) for
     - the names of the functions / macros that write the FP control state (FPFUNCS below: <cfenv> writers, the SSE
       control-register intrinsics and macros, the x87 / MSVC / BSD control-word functions), as a call or a mention
       (a function pointer taken is a way to call it), unless reached through `.`/`->` or qualified by anything but
       `std::` / `::`;
     - `#pragma` lines that change FP semantics (STDC FENV_ACCESS / FENV_ROUND / FP_CONTRACT, float_control, fenv_access,
       fp_contract, `clang fp`, `GCC optimize` / `GCC push_options`+optimize, `omp simd`-free: see PRAGMAS);
     - `__attribute__((optimize(...)))` / `[[gnu::optimize(...)]]`;
     - inline assembly that loads a control word (`ldmxcsr`, `vldmxcsr`, `fldcw`, `fldenv`, `frstor`, `fxrstor`, `xrstor`) -
       searched in the text WITH string literals (the mnemonic sits in the asm string);
   and of CMakeLists.txt and cmake/**/*.cmake for compiler options that change FP semantics globally (BUILDFLAGS:
   -ffast-math, -Ofast, -funsafe-math-optimizations, -ffinite-math-only, -fassociative-math, -freciprocal-math,
   -fno-signed-zeros, -frounding-math, -mdaz-ftz, -ffp-model / -fp-model / /fp:, -ffp-contract=fast, -mfpmath,
   -ffloat-store, -fexcess-precision, -fno-trapping-math ... ).
   Each hit becomes (file, line, name, kind) with kind in FCall | FMention | FPragma | FAttr | FAsm | FBuildFlag.
 * `fpenv_files_scanned`: number of files read.

Reading the FP state (fegetround, fetestexcept, _mm_getcsr, ...) and clearing/raising exception FLAGS (feclearexcept,
feraiseexcept, fesetexceptflag: they do not change any result) are not listed.  Fails loudly (TranslateError) when no
source file is found.  What the list must look like is NOT decided here but in Props/Properties_C12.v
(C12_no_site_changes_fp_environment: the list is empty)."""
import sys, os, re, glob
sys.path.insert(0, os.path.dirname(os.path.abspath(__file__)))
from cxx_ast import *
from signals2coq import strip_code

FPFUNCS = ("fesetenv", "feupdateenv", "fesetround", "feholdexcept", "feenableexcept", "fedisableexcept", "fesetmode",
           "_mm_setcsr", "_MM_SET_FLUSH_ZERO_MODE", "_MM_SET_DENORMALS_ZERO_MODE", "_MM_SET_ROUNDING_MODE",
           "_MM_SET_EXCEPTION_MASK", "_MM_SET_EXCEPTION_STATE", "__builtin_ia32_ldmxcsr", "_mm512_setcsr", "_fpreset",
           "_controlfp", "_controlfp_s", "_control87", "__control87_2", "_clearfp", "fpsetround", "fpsetmask", "fpsetprec",
           "__setfpucw", "_FPU_SETCW", "fesetprec", "__builtin_set_fpscr_rn", "__set_FPSCR", "__builtin_aarch64_set_fpcr",
           "_mm_setcsr_x", "__builtin_ia32_fldcw")
PRAGMAS = (r"STDC\s+FENV_ACCESS", r"STDC\s+FENV_ROUND", r"STDC\s+FP_CONTRACT", r"float_control", r"fenv_access", r"fp_contract",
           r"clang\s+fp\b", r"GCC\s+optimize", r"GCC\s+target", r"optimize\s*\(", r"intel\s+optimization_parameter")
ASMWORDS = ("ldmxcsr", "vldmxcsr", "fldcw", "fldenv", "frstor", "fxrstor", "xrstor")
BUILDFLAGS = (r"-ffast-math", r"-Ofast", r"-funsafe-math-optimizations", r"-ffinite-math-only", r"-fassociative-math",
              r"-freciprocal-math", r"-fno-signed-zeros", r"-frounding-math", r"-mdaz-ftz", r"-ffp-model", r"-fp-model",
              r"/fp:", r"-ffp-contract=fast", r"-mfpmath", r"-ffloat-store", r"-fexcess-precision", r"-fno-trapping-math",
              r"-fno-math-errno", r"-fcx-limited-range", r"-fcx-fortran-rules", r"-fsingle-precision-constant", r"-ftz", r"-no-ftz",
              r"-fimf-", r"-menable-unsafe-fp-math", r"-fdenormal-fp-math", r"/Qftz", r"-mrecip", r"-fapprox-func", r"-funsafe-fp")


def strip_comments_only(text):
    """comments blanked, string literals kept (for the mnemonics inside asm strings)"""
    text = re.sub(r"/\*.*?\*/", lambda m: re.sub(r"[^\n]", " ", m.group(0)), text, flags=re.S)
    return re.sub(r"//[^\n]*", lambda m: " " * len(m.group(0)), text)


def scan_source(path):
    """[(line, name, kind)]"""
    text = open(path, errors="replace").read()
    res = []
    # pragmas first (strip_code keeps preprocessor lines other than #include)
    nocom = strip_comments_only(text)
    for m in re.finditer(r"(?m)^[ \t]*#[ \t]*pragma\b([^\n]*)|_Pragma\s*\(([^\n]*)", nocom):
        body = (m.group(1) or m.group(2) or "")
        for p in PRAGMAS:
            if re.search(p, body):
                res.append((nocom[:m.start()].count("\n") + 1, "pragma " + re.sub(r"\s+", " ", body.strip())[:60], "FPragma"))
                break
    for m in re.finditer(r"\boptimize\s*\(", nocom):
        before = nocom[max(0, m.start() - 40):m.start()]
        if re.search(r"(__attribute__\s*\(\s*\(|\[\[\s*(gnu|clang)\s*::)\s*$", before):
            res.append((nocom[:m.start()].count("\n") + 1, "attribute optimize", "FAttr"))
    for m in re.finditer(r"\b(%s)\b" % "|".join(ASMWORDS), nocom):
        # only inside an asm statement: look back for asm / __asm__ within the statement
        stmt_start = max(nocom.rfind(";", 0, m.start()), nocom.rfind("{", 0, m.start()), nocom.rfind("}", 0, m.start()))
        if re.search(r"\b(asm|__asm__|__asm)\b", nocom[stmt_start + 1:m.start()]):
            res.append((nocom[:m.start()].count("\n") + 1, "asm " + m.group(1), "FAsm"))
    code = strip_code(text)
    for m in re.finditer(r"[A-Za-z_][A-Za-z_0-9]*", code):
        name = m.group(0)
        if name not in FPFUNCS:
            continue
        before = code[:m.start()].rstrip()
        if before.endswith(".") or before.endswith("->"):
            continue
        if before.endswith("::"):
            q = re.search(r"([A-Za-z_][A-Za-z_0-9]*)?\s*::$", before)
            if q and q.group(1) not in (None, "std"):
                continue
        after = code[m.end():].lstrip()
        res.append((code[:m.start()].count("\n") + 1, name, "FCall" if after.startswith("(") else "FMention"))
    return sorted(set(res))


def scan_cmake(path):
    text = open(path, errors="replace").read()
    text = re.sub(r"(?m)#[^\n]*", lambda m: " " * len(m.group(0)), text)      # cmake comments
    res = []
    for f in BUILDFLAGS:
        for m in re.finditer(re.escape(f) + r"[A-Za-z0-9_=:-]*", text):
            res.append((text[:m.start()].count("\n") + 1, m.group(0), "FBuildFlag"))
    return sorted(set(res))


def cs(s):
    return '"%s"' % s.replace("\\", "/").replace('"', "'")


def translate():
    srcs = sorted(glob.glob(os.path.join(REPO, "src", "**", "*.cpp"), recursive=True) +
                  glob.glob(os.path.join(REPO, "src", "**", "*.c"), recursive=True) +
                  glob.glob(os.path.join(REPO, "src", "**", "*.cl"), recursive=True) +
                  glob.glob(os.path.join(REPO, "inc", "**", "*.hpp"), recursive=True) +
                  glob.glob(os.path.join(REPO, "inc", "**", "*.h"), recursive=True) +
                  glob.glob(os.path.join(REPO, "*.hpp.in")))
    cm = sorted(glob.glob(os.path.join(REPO, "CMakeLists.txt")) + glob.glob(os.path.join(REPO, "cmake", "**", "*.cmake"), recursive=True) +
                glob.glob(os.path.join(REPO, "src", "**", "CMakeLists.txt"), recursive=True))
    if len(srcs) < 10 or not cm:
        raise TranslateError("only %d source files and %d cmake files found under %s" % (len(srcs), len(cm), REPO))
    sites = []
    for p in srcs:
        for (line, name, kind) in scan_source(p):
            sites.append("mkfpsite %s %d %s %s" % (cs(os.path.relpath(p, REPO)), line, cs(name), kind))
    for p in cm:
        for (line, name, kind) in scan_cmake(p):
            sites.append("mkfpsite %s %d %s %s" % (cs(os.path.relpath(p, REPO)), line, cs(name), kind))
    out = []
    out.append("(* GENERATED on every run by translate/fpenv2coq.py: lexical scan of %d source files under src/ and inc/ and of %d" % (len(srcs), len(cm)))
    out.append("   CMake files for code, pragmas, attributes, inline assembly and compiler options that change the floating-point")
    out.append("   environment (rounding mode, flush-to-zero / denormals-are-zero, exception trapping, fast-math licences).")
    out.append("   Do not edit. *)")
    out.append("From Coq Require Import List ZArith String.")
    out.append("From Inovesa Require Import Model.FPEnv.")
    out.append("Import ListNotations.")
    out.append("Local Open Scope string_scope.")
    out.append("Local Open Scope Z_scope.")
    out.append("Definition fpenv_sites : list fpsite :=\n  [%s]." % ";\n   ".join(sites))
    out.append("Definition fpenv_files_scanned : Z := %d." % (len(srcs) + len(cm)))
    return "\n".join(out) + "\n", dict(sites=sites, files=len(srcs) + len(cm))


if __name__ == "__main__":
    dst = sys.argv[1] if len(sys.argv) > 1 else os.path.join(VERIF, "coq", "Gen", "Gen_FPEnv.v")
    try:
        txt, _ = translate()
    except TranslateError as e:
        print("TRANSLATE-ERROR Gen_FPEnv: %s" % e)
        sys.exit(2)
    ch = write_if_changed(dst, txt)
    print("Gen_FPEnv.v %s" % ("regenerated" if ch else "unchanged"))
