#!/usr/bin/env python3
# GEN: Gen_Identity
"""Gen_Identity.v: the copy Identity::apply performs (inc/SM/Identity.hpp, CPU branch), read from the clang JSON AST
of /repo's working tree: exactly one copy from `_in->getData()` to `_out->getData()` (std::copy_n, std::copy or a
counting loop; the pointers may go through locals - the idiom recogniser is the one of wakeupdate2coq.py).  Emitted: the
element count as a function of (nb, nxy) and the source/destination index of the i-th copied element.  Anything else in
the function body fails loudly."""
import sys, os
sys.path.insert(0, os.path.dirname(os.path.abspath(__file__)))
from cxx_ast import *
import wakeupdate2coq as wu


def translate():
    d, body = wu.method_body("src/SM/Identity.cpp", "Identity::apply", "apply")
    env = {"nb": ("var", "nb"), "nxy": ("var", "nxy"), "nx": ("var", "nx"), "ny": ("var", "ny"), "nxyb": ("var", "nxyb")}
    ev, cnt, isrc, idst = wu.copy_idiom(wu.flatten(body), env, ("_in", "getData"), ("_out", "getData"), None)
    if ev != ["copy"]:
        raise TranslateError("Identity::apply: expected exactly one copy, found %s" % ev)
    out = ["(* GENERATED on every run by translate/identity2coq.py from Identity::apply (inc/SM/Identity.hpp). Do not edit.",
           "   nxy = nx*ny cells per bunch, nxyb = nb*nx*ny (PhaseSpace's static sizes). *)",
           "From Coq Require Import ZArith.", "Local Open Scope Z_scope.",
           "Definition id_count (nb nx ny nxy nxyb : Z) : Z := %s." % wu.zcoq(cnt),
           "Definition id_src_idx (nb nx ny nxy nxyb i : Z) : Z := %s." % wu.zcoq(isrc),
           "Definition id_dst_idx (nb nx ny nxy nxyb i : Z) : Z := %s." % wu.zcoq(idst)]
    return "\n".join(out) + "\n"


if __name__ == "__main__":
    dst = sys.argv[1] if len(sys.argv) > 1 else os.path.join(VERIF, "coq", "Gen", "Gen_Identity.v")
    try:
        text = translate()
    except TranslateError as e:
        print("TRANSLATE-ERROR Gen_Identity: %s" % e)
        sys.exit(2)
    except (KeyError, IndexError, TypeError, AttributeError) as e:
        print("TRANSLATE-ERROR Gen_Identity: unexpected AST shape (%s: %s)" % (type(e).__name__, e))
        sys.exit(2)
    ch = write_if_changed(dst, text)
    print("Gen_Identity.v %s" % ("regenerated" if ch else "unchanged"))
