#!/usr/bin/env python3
# GEN: Gen_Moments
"""Gen_Moments.v: closed forms of the loops of src/PS/PhaseSpace.cpp (and the inline members of
inc/PS/PhaseSpace.hpp they use), read from the clang JSON AST of /repo's working tree on every run:

  simpsonWeights   the weight vector (end weights, interior pattern, which axis' spacing)
  updateXProjection, updateYProjection   loop bounds, the cells summed, the weights that multiply them
  integrate        per-bunch charge from the cached x projection, total
  normalize        the factor _filling_set[b]/_filling[b], the empty-bucket branch
  average, variance   loop bounds, axis used for projection / coordinate / spacing, the normalisation by the
                   bunch's own measured charge, the centring of the variance (variance calls average first)
  integrateAndNormalize   the order integrate(); normalize()
  the constructor's tail and operator=   the refresh sequence updateXProjection(); updateYProjection(); integrate()
  createFromProjections   the product of the two projections written to every cell, then the calls that follow
  the constructor without start data (`data == nullptr`)   gen_ctor_fresh = that branch's member calls + the refresh sequence

The loops are executed symbolically (translate/symloops.py: narrow rules, anything else fails loudly), so that
harmless rewrites (an explicit accumulation loop instead of std::inner_product, hoisted or renamed locals,
`!=` loop tests, re-associated products) give the same or a ring-equal closed form, while a changed bound,
index, axis, weight or divisor gives a different one and breaks Proofs/MomentsGenP.v.
Not translated (stated here so that nobody assumes otherwise): `_rms` (sqrt is not a field operation), the
OpenCL branches (not compiled), `Ruler` itself (`getDelta`, `_qp` are followed to `_axis[k]->delta()` /
`_axis[k]->at(i)` and left abstract)."""
import sys, os
sys.path.insert(0, os.path.dirname(os.path.abspath(__file__)))
from cxx_ast import *
from symloops import *

SRC = "src/PS/PhaseSpace.cpp"
STATE = {"_data": 3, "_projection": 3, "_filling": 1, "_integral": 0, "_moment": 3}
FIELD = {"_data": "m_data", "_projection": "m_proj", "_filling": "m_fill", "_integral": "m_int", "_moment": "m_mom"}
SETTER = {"_data": "set_data", "_projection": "set_proj", "_filling": "set_fill", "_integral": "set_int", "_moment": "set_mom"}
CONST = {"_filling_set": "e_fset", "_ws": "e_ws"}
INTM = {"_nmeshcellsX": "nx", "_nmeshcellsY": "ny", "_nbunches": "nb"}
CALLABLE = {"integrate": 0, "normalize": 0, "average": 1, "variance": 1, "updateXProjection": 0, "updateYProjection": 0,
            "integrateAndNormalize": 0, "createFromProjections": 0}
ORDER = ["updateXProjection", "updateYProjection", "integrate", "normalize", "average", "variance", "integrateAndNormalize",
         "createFromProjections"]


def method(docs, name):
    for d in docs:
        if d.get("kind") == "CXXMethodDecl" and d.get("name") == name:
            for c in d.get("inner", []):
                if c.get("kind") == "CompoundStmt":
                    return d, c
    raise TranslateError("definition of PhaseSpace::%s not found" % name)


def axis_hook(exe, n):
    """`_axis[k]->delta()` -> delta(k);  `_axis[k]->at(i)` -> qp(k,i)"""
    if n.get("kind") != "CXXMemberCallExpr":
        return None
    callee = kids(n)[0]
    nm = callee.get("name")
    if nm not in ("delta", "at"):
        return None
    sub = [x for x in walk(callee) if x.get("kind") == "CXXOperatorCallExpr" and refname(strip1(kids(x)[0])) == "operator[]"
           and strip1(kids(x)[1]).get("kind") == "MemberExpr" and strip1(kids(x)[1]).get("name") == "_axis"]
    if len(sub) != 1:
        return None
    k = exe.iexpr(kids(sub[0])[2])
    args = kids(n)[1:]
    if nm == "delta" and not args:
        return ("fn", "e_delta", (k,))
    if nm == "at" and len(args) == 1:
        return ("fn", "e_qp", (k, exe.iexpr(args[0])))
    return None


def extents_from_ctor(docs, exe):
    """array extents from the mem-initialisers of the principal constructor"""
    ext = {}
    inits = None
    for d in docs:
        if d.get("kind") == "CXXConstructorDecl":
            ii = [c for c in d.get("inner", []) if c.get("kind") == "CXXCtorInitializer" and c.get("anyInit")]
            if any(c["anyInit"].get("name") == "_data" for c in ii):
                inits = ii
                ctor = d
    if inits is None:
        raise TranslateError("constructor initialising _data not found")
    for c in inits:
        nm = c["anyInit"].get("name")
        if nm in ("_data", "_projection", "_moment", "_rms"):
            idx = []
            for x in walk(c):
                if x.get("kind") == "CXXOperatorCallExpr" and refname(strip1(kids(x)[0])) == "operator[]":
                    idx.append(x)
            # nested chain: outermost first in a pre-order walk; extents in source order = innermost first
            e = [exe.iexpr(kids(x)[2]) for x in reversed(idx)]
            base = strip1(kids(idx[-1])[1]) if idx else {}
            if refname(base) != "extents":
                raise TranslateError("%s is not sized by boost::extents[..]" % nm)
            ext[nm] = e
        if nm in ("_filling",):
            cs = [x for x in walk(c) if x.get("kind") == "CXXConstructExpr"]
            sz = None
            for x in cs:
                args = [a for a in kids(x) if a.get("kind") != "CXXDefaultArgExpr"]
                if len(args) == 1 and is_int_type(qtype(args[0])):
                    sz = exe.iexpr(args[0])
            if sz is None:
                raise TranslateError("_filling is not constructed with its size")
            ext[nm] = [sz]
        if nm == "_filling_set":
            # copied from the constructor argument `filling`; its length is the number of bunches by contract
            ext[nm] = [("ivar", "nb")]
        if nm == "_ws":
            calls = [x for x in walk(c) if x.get("kind") == "CXXMemberCallExpr" and kids(x)[0].get("name") == "simpsonWeights"]
            if len(calls) != 1 or len(kids(calls[0])) != 1:
                raise TranslateError("_ws is no longer initialised by simpsonWeights()")
            ext["_ws_init"] = True
    for m in ("_data", "_projection", "_moment", "_filling", "_rms"):
        if m not in ext:
            raise TranslateError("extent of %s not found in the constructor" % m)
    if not ext.pop("_ws_init", False):
        raise TranslateError("mem-initialiser of _ws not found")
    ext["_integral"] = []
    return ext, ctor


def call_sequence(body, names):
    """the member calls (of the given names) that are direct statements of a compound statement, in order"""
    seq = []
    for s in kids(body):
        x = s
        while x.get("kind") in WRAPPERS and len(kids(x)) == 1:
            x = kids(x)[0]
        if x.get("kind") == "CXXMemberCallExpr":
            callee = kids(x)[0]
            base = strip1(kids(callee)[0]) if kids(callee) else {}
            if base.get("kind") == "CXXThisExpr" and callee.get("name") in names:
                seq.append(callee.get("name"))
    return seq


def ctor_fresh_sequence(ctor, cbody, names):
    """member calls of the principal constructor's branch for `data == nullptr` (no start data: the Gaussian start
    distribution), in order.  Idiom: one `if` on the parameter `data` compared with nullptr; the branch may contain loops
    whose only member calls are setProjection(..) (they fill `_projection`, which the theorems leave arbitrary) and
    direct member calls of the translated functions."""
    pid = [c["id"] for c in kids(ctor) if c.get("kind") == "ParmVarDecl" and c.get("name") == "data"]
    if len(pid) != 1:
        raise TranslateError("the principal constructor no longer has a parameter `data`")
    hits = []
    for s in kids(cbody):
        if s.get("kind") != "IfStmt":
            continue
        ks = [c for c in s.get("inner", []) if c]
        if not any(x.get("kind") == "DeclRefExpr" and (x.get("referencedDecl") or {}).get("id") == pid[0] for x in walk(ks[0])):
            continue
        c = ks[0]
        while c.get("kind") in WRAPPERS and len(kids(c)) == 1:
            c = kids(c)[0]
        if c.get("kind") != "BinaryOperator" or c.get("opcode") not in ("!=", "==") or \
                not any(x.get("kind") == "CXXNullPtrLiteralExpr" for x in walk(c)):
            raise TranslateError("the constructor's test on `data` is not a comparison with nullptr")
        if c["opcode"] == "!=":
            br = ks[2] if len(ks) > 2 else None
        else:
            br = ks[1]
        hits.append(br)
    if len(hits) != 1:
        raise TranslateError("expected one `if (data != nullptr)` in the principal constructor, found %d" % len(hits))
    br = hits[0]
    if br is None:
        return []
    seq = []
    for s in (kids(br) if br.get("kind") == "CompoundStmt" else [br]):
        x = s
        while x.get("kind") in WRAPPERS and len(kids(x)) == 1:
            x = kids(x)[0]
        if x.get("kind") in ("ForStmt", "CXXForRangeStmt"):
            for m in walk(x):
                if m.get("kind") == "CXXMemberCallExpr" and kids(m)[0].get("kind") == "MemberExpr":
                    base = strip1(kids(kids(m)[0])[0]) if kids(kids(m)[0]) else {}
                    if base.get("kind") == "CXXThisExpr" and kids(m)[0].get("name") not in ("setProjection", "gaus"):
                        raise TranslateError("the start-distribution loop of the constructor calls %s" % kids(m)[0].get("name"))
            continue
        if x.get("kind") == "CXXMemberCallExpr":
            callee = kids(x)[0]
            base = strip1(kids(callee)[0]) if kids(callee) else {}
            if base.get("kind") == "CXXThisExpr" and callee.get("name") in names:
                seq.append(callee.get("name"))
                continue
        if x.get("kind") in ("NullStmt",):
            continue
        raise TranslateError("statement of kind %s in the constructor's branch without start data" % x.get("kind"))
    return seq


def translate():
    docs = ast_of(SRC, "vfps::PhaseSpace::")
    ctx = Ctx()
    ctx.state_arrays = dict(STATE)
    ctx.const_arrays = dict(CONST)
    ctx.int_members = {k: ("ivar", v) for k, v in INTM.items()}
    ctx.ignored_members = {"_rms"}
    ctx.callable = dict(CALLABLE)
    ctx.hooks = [axis_hook]
    for nm in ("getDelta", "_qp"):
        ctx.methods[nm] = method(docs, nm)
    boot = Exec(ctx, "constructor")
    ext, ctor = extents_from_ctor(docs, boot)
    ctx.extents = ext

    def ivar_of(nm):
        return {"nx": "(e_nx E)", "ny": "(e_ny E)", "nb": "(e_nb E)"}.get(nm, nm)

    def fn_of(nm):
        return "%s E" % nm

    def field_of(ref):
        return "%s st%d" % (FIELD[ref[2]], ref[1])
    pr = Printer(field_of, fn_of, ivar_of)
    out = []
    # ---- simpsonWeights: a local vector returned by value
    d, body = method(docs, "simpsonWeights")
    exe = Exec(ctx, "simpsonWeights")
    exe.exec_block(kids(body), top=True)
    layers = exe.local_array_result()
    if layers is None or exe.lets:
        raise TranslateError("simpsonWeights does not return a local vector (or writes members)")
    rvname = exe.result[1]
    size = exe.larr[rvname][1][0]
    if size != ("ivar", "nx"):
        raise TranslateError("the weight vector is not _nmeshcellsX long")
    ctx.extents["_ws"] = [size]
    out.append("  (* simpsonWeights(): the returned vector, as a function of the index (0 outside what is written) *)")
    out.append("  Definition gen_simpsonWeights (E : env K) : Z -> K :=\n    %s." % pr.layers(layers, 1, "(fun _ : Z => 0)"))
    out.append("  (* the constructor's mem-initialiser of _ws *)")
    out.append("  Definition gen_ctor_ws (E : env K) : Z -> K := gen_simpsonWeights E.")
    # ---- state transformers
    for name in ORDER:
        d, body = method(docs, name)
        params = [c for c in d.get("inner", []) if c.get("kind") == "ParmVarDecl"]
        exe = Exec(ctx, name)
        pnames = []
        for p in params:
            if not is_int_type(qtype(p)):
                raise TranslateError("%s has a non-integer parameter" % name)
            exe.env[p["id"]] = ("int", ("ivar", p["name"]))
            pnames.append(p["name"])
        if len(pnames) != CALLABLE[name]:
            raise TranslateError("%s takes %d parameters" % (name, len(pnames)))
        exe.exec_block(kids(body), top=True)
        exe.flush()
        lines = []
        for (ver, kind, payload) in exe.lets:
            prev = "st%d" % (ver - 1)
            if kind == "call":
                cn, args = payload
                lines.append("    let st%d := gen_%s E %s%s in" % (ver, cn, "".join(pr.i(a) + " " for a in args), prev))
            else:
                term = prev
                for m in sorted(payload):
                    fn = pr.layers(payload[m], STATE[m], "%s %s" % (FIELD[m], prev))
                    term = "%s K %s (%s)" % (SETTER[m], fn, term) if term != prev else "%s K %s %s" % (SETTER[m], fn, prev)
                lines.append("    let st%d := %s in" % (ver, term))
        last = "st%d" % (exe.lets[-1][0] if exe.lets else 0)
        out.append("  Definition gen_%s (E : env K) %s(st0 : mst K) : mst K :=\n%s\n    %s." %
                   (name, "".join("(%s : Z) " % p for p in pnames), "\n".join(lines), last))
    # ---- refresh sequences: constructor tail and operator=
    names = ("updateXProjection", "updateYProjection", "integrate", "normalize", "integrateAndNormalize")
    cbody = [c for c in ctor.get("inner", []) if c.get("kind") == "CompoundStmt"]
    if not cbody:
        raise TranslateError("principal constructor without body")
    seq_ctor = call_sequence(cbody[0], names)
    d, body = None, None
    for dd in docs:
        if dd.get("kind") == "CXXMethodDecl" and dd.get("name") == "operator=":
            for c in dd.get("inner", []):
                if c.get("kind") == "CompoundStmt":
                    body = c
    if body is None:
        raise TranslateError("definition of PhaseSpace::operator= not found")
    seq_assign = call_sequence(body, names)
    for nm, seq in (("ctor_refresh", seq_ctor), ("assign_refresh", seq_assign)):
        t = "st"
        for c in seq:
            t = "gen_%s E (%s)" % (c, t) if t != "st" else "gen_%s E st" % c
        out.append("  (* member calls that are direct statements of the %s body, in order *)" %
                   ("principal constructor's" if nm == "ctor_refresh" else "operator='s"))
        out.append("  Definition gen_%s (E : env K) (st : mst K) : mst K := %s." % (nm, t))
    # ---- the constructor's branch without start data (Gaussian start distribution), followed by the refresh sequence
    seq_fresh = ctor_fresh_sequence(ctor, cbody[0], names + ("createFromProjections",))
    t = "st"
    for c in seq_fresh + seq_ctor:
        t = "gen_%s E (%s)" % (c, t) if t != "st" else "gen_%s E st" % c
    out.append("  (* the principal constructor called without start data (data == nullptr), once the projections are set: the member")
    out.append("     calls of that branch, then the refresh sequence *)")
    out.append("  Definition gen_ctor_fresh (E : env K) (st : mst K) : mst K := %s." % t)
    head = ["(* GENERATED on every run by translate/moments2coq.py from src/PS/PhaseSpace.cpp and inc/PS/PhaseSpace.hpp.",
            "   Do not edit.  Closed forms of the loops (see translate/symloops.py for the summarisation rules):",
            "   every written member is a total function of the cell coordinates c0 c1 c2.  `_rms` is not modelled. *)",
            "From Coq Require Import List ZArith Bool.",
            "From Inovesa Require Import Base.FieldKit Base.Sums Model.MomentsIR.",
            "Import ListNotations.",
            "(* extents of the member arrays (constructor mem-initialisers; boost::multi_array is row-major) *)"]
    for m, nm in (("_data", "data"), ("_projection", "projection"), ("_moment", "moment"), ("_rms", "rms"), ("_filling", "filling")):
        head.append("Definition gen_extents_%s (nb nx ny : Z) : list Z := [%s]%%Z." %
                    (nm, "; ".join(Printer(None, None, lambda v: v).i(e) for e in ctx.extents[m])))
    head += ["Section Gen.", "  Variable K : Fld.", "  Local Open Scope F_scope."]
    return "\n".join(head + out + ["End Gen."]) + "\n"


if __name__ == "__main__":
    dst = sys.argv[1] if len(sys.argv) > 1 else os.path.join(VERIF, "coq", "Gen", "Gen_Moments.v")
    try:
        text = translate()
    except TranslateError as e:
        print("TRANSLATE-ERROR Gen_Moments: %s" % e)
        sys.exit(2)
    ch = write_if_changed(dst, text)
    print("Gen_Moments.v %s" % ("regenerated" if ch else "unchanged"))
