#!/usr/bin/env python3
# GEN: Gen_DynQueue
"""Gen_DynQueue.v from src/SM/DynamicRFKickMap.cpp: the modulation queue (C19; strengthening driven by seed C19-G).

Read off the clang JSON AST (syntax of coq/Model/DynQueue.v):
 * `__calcModulation(steps)`: a default-constructed local queue, ONE `for (T i = c; i < B; i++ / ++i / i += c)` and
   `return <the queue>`.  The loop header becomes `dq_for`; the body must be local declarations with initialisers followed
   by exactly one `<queue>.emplace(std::array{{e0, e1}})` / `.push(...)`; e0, e1 are symbolically executed into
   `dq_entry` over a generic field: members `_syncphase _phasenoise _amplnoise _modampl _modtimedelta` are parameters,
   the loop variable is `i` (its conversion to float is exact below 2^24 and not modelled), `std::sin` is abstract,
   the j-th `_dist(_prng)` of an iteration is the parameter dj (exactly two per iteration).
 * both constructors: the initialiser `_next_modulation(__calcModulation(ARG))`; ARG as `BParam name` when it is a
   plain parameter, `BOther text` otherwise  -> `dq_ctor_queue_arg`.
 * `_calcKick()`: `RFKickMap::_calcKick(a, b)` where a, b denote components of `_next_modulation.front()` - written
   directly (`front()[k]`, `.at(k)`, `std::get<k>(..)`) or through locals bound to the front entry / a component of it
   -> `dq_calckick_args = [a0; a1]`.
 * `apply()`: each statement must be one of `_calcKick()`, `KickMap::apply()`,
   `_past_modulation.emplace_back/push_back(x)` with x the front entry (`front()`, `std::move(front())`, a local bound to
   it - not across a pop()), `_next_modulation.pop()`, or a declaration of such a local -> `dq_apply_ops` in source order.
 * `getPastModulation()`: `auto rv = std::move(_past_modulation)` / `= _past_modulation`, `_past_modulation.clear()`,
   `return rv` -> `dq_getpast_ops`.
 * every reference to the member `_next_modulation` in any constructor / method of the class, as (function, use):
   use = the std::queue member function called on it, `init` for the constructor initialiser, `assign` for operator=,
   `other` otherwise -> `dq_queue_refs` (the theorem demands: only front/empty/size, init in constructors, pop in apply).
Fails loudly (TranslateError) on anything else: a second loop, a condition other than `<`, a statement of apply() that
is none of the four (e.g. a refill `if (_next_modulation.empty()) ...`), another member in the entry expressions."""
import sys, os, re
sys.path.insert(0, os.path.dirname(os.path.abspath(__file__)))
from cxx_ast import *

WRAP = ("ImplicitCastExpr", "ParenExpr", "CXXFunctionalCastExpr", "CStyleCastExpr", "CXXStaticCastExpr",
        "ExprWithCleanups", "MaterializeTemporaryExpr", "CXXBindTemporaryExpr", "ConstantExpr")
MEMBERS = ["_syncphase", "_phasenoise", "_amplnoise", "_modampl", "_modtimedelta"]
QUEUE, PAST = "_next_modulation", "_past_modulation"


def uw(n):
    """drop wrappers (also the copy/move construction of a temporary from one argument)"""
    while True:
        k = n.get("kind")
        if k in WRAP and len(kids(n)) == 1:
            n = kids(n)[0]
        elif k == "CXXConstructExpr" and len([c for c in kids(n) if c.get("kind") != "CXXDefaultArgExpr"]) == 1:
            n = [c for c in kids(n) if c.get("kind") != "CXXDefaultArgExpr"][0]
        else:
            return n


def is_this_member(n, name):
    n = uw(n)
    if n.get("kind") != "MemberExpr" or n.get("name") != name:
        return False
    b = kids(n)
    while b and b[0].get("kind") in WRAP:
        b = kids(b[0])
    return bool(b) and b[0].get("kind") == "CXXThisExpr"


def method_call(n):
    """(object expression, method name, args) of a CXXMemberCallExpr, else None"""
    n = uw(n)
    if n.get("kind") != "CXXMemberCallExpr":
        return None
    ks = kids(n)
    callee = ks[0]
    if callee.get("kind") != "MemberExpr":
        return None
    obj = kids(callee)[0] if kids(callee) else None
    args = [c for c in ks[1:] if c.get("kind") != "CXXDefaultArgExpr"]
    return obj, callee.get("name"), args


def std_move_arg(n):
    """argument of std::move(x), or None"""
    n = uw(n)
    if n.get("kind") == "CallExpr":
        ks = kids(n)
        c = uw(ks[0])
        if c.get("kind") == "DeclRefExpr" and c["referencedDecl"].get("name") == "move" and len(ks) == 2:
            return ks[1]
    return None


def is_queue_front(n):
    mc = method_call(n)
    return mc is not None and mc[1] == "front" and mc[0] is not None and is_this_member(mc[0], QUEUE) and not mc[2]


_SRC = [None]


def src_text(n):
    """source text of a node of src/SM/DynamicRFKickMap.cpp (used only to read the index of std::get<k>)"""
    r = n.get("range", {})
    b, e = r.get("begin", {}), r.get("end", {})
    bo = b.get("offset", b.get("expansionLoc", {}).get("offset"))
    eo = e.get("offset", e.get("expansionLoc", {}).get("offset"))
    if bo is None or eo is None:
        return ""
    if _SRC[0] is None:
        _SRC[0] = open(os.path.join(REPO, "src", "SM", "DynamicRFKickMap.cpp"), "rb").read()
    return _SRC[0][bo:eo + e.get("tokLen", 1)].decode(errors="replace")


def symval(n, env):
    """what an expression denotes in terms of the queue: ("front",) = the front entry (value or reference),
    ("comp", k) = its k-th component; None = something else.  env: locals bound to such values."""
    if n is None:
        return None
    if is_queue_front(n):
        return ("front",)
    mv = std_move_arg(n)
    if mv is not None:
        return symval(mv, env)
    u = uw(n)
    k = u.get("kind")
    if k == "DeclRefExpr" and u["referencedDecl"].get("name") in env:
        return env[u["referencedDecl"]["name"]]
    if k == "CXXOperatorCallExpr":
        ks = kids(u)
        c = uw(ks[0])
        if c.get("kind") == "DeclRefExpr" and c["referencedDecl"].get("name") == "operator[]" and len(ks) == 3 and \
                symval(ks[1], env) == ("front",) and uw(ks[2]).get("kind") == "IntegerLiteral":
            return ("comp", int(uw(ks[2])["value"]))
    if k == "CXXMemberCallExpr":
        mc = method_call(u)
        if mc is not None and mc[1] == "at" and len(mc[2]) == 1 and symval(mc[0], env) == ("front",) and uw(mc[2][0]).get("kind") == "IntegerLiteral":
            return ("comp", int(uw(mc[2][0])["value"]))
    if k == "CallExpr":
        ks = kids(u)
        c = uw(ks[0])
        if c.get("kind") == "DeclRefExpr" and c["referencedDecl"].get("name") == "get" and len(ks) == 2 and symval(ks[1], env) == ("front",):
            m = re.search(r"get\s*<\s*(\d+)\s*>", src_text(u))
            if m:
                return ("comp", int(m.group(1)))
    return None


def bind_locals(s, env, what):
    """a declaration statement whose variables are all bound to the front entry or one of its components"""
    for v in kids(s):
        if v.get("kind") != "VarDecl" or not kids(v):
            raise TranslateError("%s: declaration not understood" % what)
        val = symval(kids(v)[0], env)
        if val is None:
            raise TranslateError("%s: local %s is not the front entry of the queue or a component of it: %s" % (what, v.get("name"), text(kids(v)[0])[:120]))
        env[v["name"]] = val


def text(n):
    try:
        import mainloop2coq
        return mainloop2coq.render(n)
    except Exception:
        return n.get("kind", "?")


def base_class_of_this(obj):
    """class the `this` pointer was converted to for a qualified call Base::f(), or None"""
    n = obj
    while n is not None and n.get("kind") in WRAP:
        if n.get("castKind") in ("UncheckedDerivedToBase", "DerivedToBase"):
            return n.get("type", {}).get("qualType", "")
        n = kids(n)[0] if kids(n) else None
    return None


# ------------------------------------------------------------------------------------------------ entry expressions

class Sym:
    def __init__(self, loopvar):
        self.loopvar = loopvar
        self.env = {}
        self.draws = 0

    def ir(self, n):
        n = uw(n)
        k = n.get("kind")
        if k == "IntegerLiteral":
            return ("num", Fraction(int(n["value"])))
        if k == "FloatingLiteral":
            return ("num", Fraction(n["value"]))
        if k == "DeclRefExpr":
            nm = n["referencedDecl"].get("name")
            if nm == self.loopvar:
                return ("var", "i")
            if nm in self.env:
                return self.env[nm]
            raise TranslateError("__calcModulation: unknown variable %s in an entry expression" % nm)
        if k == "MemberExpr":
            nm = n.get("name")
            if nm in MEMBERS:
                return ("var", nm)
            raise TranslateError("__calcModulation: member %s is not one the model knows (%s)" % (nm, ", ".join(MEMBERS)))
        if k == "UnaryOperator" and n.get("opcode") in ("-", "+"):
            a = self.ir(kids(n)[0])
            return ("neg", a) if n["opcode"] == "-" else a
        if k == "BinaryOperator" and n.get("opcode") in ("+", "-", "*", "/"):
            a, b = kids(n)
            return ({"+": "add", "-": "sub", "*": "mul", "/": "div"}[n["opcode"]], self.ir(a), self.ir(b))
        if k == "CallExpr":
            ks = kids(n)
            c = uw(ks[0])
            if c.get("kind") == "DeclRefExpr" and c["referencedDecl"].get("name") in ("sin", "sinf") and len(ks) == 2:
                return ("sin", self.ir(ks[1]))
            raise TranslateError("__calcModulation: call of %s not understood" % text(ks[0]))
        if k == "CXXOperatorCallExpr":
            ks = kids(n)
            c = uw(ks[0])
            if c.get("kind") == "DeclRefExpr" and c["referencedDecl"].get("name") == "operator()" and len(ks) == 3 \
                    and is_this_member(ks[1], "_dist") and is_this_member(ks[2], "_prng"):
                self.draws += 1
                return ("var", "d%d" % (self.draws - 1))
            raise TranslateError("__calcModulation: operator call not understood: %s" % text(n))
        raise TranslateError("__calcModulation: expression kind %s not understood" % k)


def coq(e):
    t = e[0]
    if t == "num":
        return num_coq(e[1])
    if t == "var":
        return e[1]
    if t == "neg":
        return "(- (%s))" % coq(e[1])
    if t == "sin":
        return "(sin %s)" % coq(e[1])
    op = {"add": "+", "sub": "-", "mul": "*", "div": "/"}[t]
    return "(%s %s %s)" % (coq(e[1]), op, coq(e[2]))


def bound_of(n, params):
    u = uw(n)
    if u.get("kind") == "DeclRefExpr" and u["referencedDecl"].get("kind") == "ParmVarDecl" and u["referencedDecl"].get("name") in params:
        return 'BParam "%s"' % u["referencedDecl"]["name"]
    return 'BOther "%s"' % text(n).replace('"', "'")[:120]


def pair_of(n):
    """the two element expressions of a brace-initialised std::array<.,2> value, or None"""
    a = uw(n)
    while a.get("kind") == "InitListExpr" and len(kids(a)) == 1:
        a = uw(kids(a)[0])
    if a.get("kind") == "InitListExpr" and len(kids(a)) == 2:
        return kids(a)[0], kids(a)[1]
    return None


def calcmod(d):
    params = [c["name"] for c in kids(d) if c.get("kind") == "ParmVarDecl"]
    body = [c for c in kids(d) if c.get("kind") == "CompoundStmt"][0]
    st = kids(body)
    loops = [s for s in st if s.get("kind") in ("ForStmt", "WhileStmt", "DoStmt", "CXXForRangeStmt")]
    if len(st) != 3 or len(loops) != 1 or st[1].get("kind") != "ForStmt" or st[0].get("kind") != "DeclStmt" or st[2].get("kind") != "ReturnStmt":
        raise TranslateError("__calcModulation is no longer `queue rv; for (...) {...} return rv;` (%s)" % [s.get("kind") for s in st])
    qv = kids(st[0])
    if len(qv) != 1 or qv[0].get("kind") != "VarDecl" or "queue" not in qv[0].get("type", {}).get("qualType", ""):
        raise TranslateError("__calcModulation: first statement does not declare the local queue")
    qname = qv[0]["name"]
    qinit = kids(qv[0])
    if qinit and (qinit[0].get("kind") != "CXXConstructExpr" or kids(qinit[0])):
        raise TranslateError("__calcModulation: the local queue is not default-constructed")
    r = uw(kids(st[2])[0])
    if r.get("kind") != "DeclRefExpr" or r["referencedDecl"].get("name") != qname:
        raise TranslateError("__calcModulation does not return the local queue")
    f = st[1]
    fk = kids(f)
    if len(fk) != 4:
        raise TranslateError("for statement with %d parts (init; cond; inc; body expected)" % len(fk))
    init, cond, inc, fbody = fk
    iv = kids(init) if init.get("kind") == "DeclStmt" else []
    if len(iv) != 1 or iv[0].get("kind") != "VarDecl" or not kids(iv[0]):
        raise TranslateError("for: init is not one variable declaration with an initialiser")
    lv = iv[0]["name"]
    ltype = iv[0].get("type", {}).get("qualType", "")
    i0 = uw(kids(iv[0])[0])
    if i0.get("kind") != "IntegerLiteral":
        raise TranslateError("for: the loop variable does not start at an integer literal")
    cu = uw(cond)
    if cu.get("kind") != "BinaryOperator" or cu.get("opcode") != "<":
        raise TranslateError("for: condition is not `%s < bound` but %s" % (lv, text(cond)))
    ca, cb = kids(cu)
    if uw(ca).get("kind") != "DeclRefExpr" or uw(ca)["referencedDecl"].get("name") != lv:
        raise TranslateError("for: condition does not test the loop variable: %s" % text(cond))
    iu = uw(inc)
    if iu.get("kind") == "UnaryOperator" and iu.get("opcode") == "++" and uw(kids(iu)[0]).get("kind") == "DeclRefExpr" \
            and uw(kids(iu)[0])["referencedDecl"].get("name") == lv:
        step = 1
    elif iu.get("kind") == "CompoundAssignOperator" and iu.get("opcode") == "+=" and uw(kids(iu)[0]).get("kind") == "DeclRefExpr" \
            and uw(kids(iu)[0])["referencedDecl"].get("name") == lv and uw(kids(iu)[1]).get("kind") == "IntegerLiteral":
        step = int(uw(kids(iu)[1])["value"])
    else:
        raise TranslateError("for: increment not understood: %s" % text(inc))
    sym = Sym(lv)
    entries = []
    pairs = {}
    for s in (kids(fbody) if fbody.get("kind") == "CompoundStmt" else [fbody]):
        if s.get("kind") == "DeclStmt":
            for v in kids(s):
                if v.get("kind") != "VarDecl" or not kids(v):
                    raise TranslateError("__calcModulation: declaration without initialiser in the loop")
                pr = pair_of(kids(v)[0])
                if pr is not None:
                    pairs[v["name"]] = (sym.ir(pr[0]), sym.ir(pr[1]))      # a local (phase, amplitude) pair
                else:
                    sym.env[v["name"]] = sym.ir(kids(v)[0])
            continue
        mc = method_call(s)
        if mc is None or mc[1] not in ("emplace", "push") or uw(mc[0]).get("kind") != "DeclRefExpr" or \
                uw(mc[0])["referencedDecl"].get("name") != qname or len(mc[2]) != 1:
            raise TranslateError("__calcModulation: loop statement not understood: %s" % text(s)[:160])
        a = uw(std_move_arg(mc[2][0]) or mc[2][0])
        if a.get("kind") == "DeclRefExpr" and a["referencedDecl"].get("name") in pairs:
            entries.append(pairs[a["referencedDecl"]["name"]])
            continue
        pr = pair_of(mc[2][0])
        if pr is None:
            raise TranslateError("__calcModulation: the emplaced value is not a pair {{phase, amplitude}}")
        entries.append((sym.ir(pr[0]), sym.ir(pr[1])))
    if len(entries) != 1:
        raise TranslateError("__calcModulation: %d emplace/push statements per iteration (exactly one expected)" % len(entries))
    if sym.draws != 2:
        raise TranslateError("__calcModulation: %d normal variates drawn per iteration (two expected: phase, amplitude)" % sym.draws)
    return dict(init=int(i0["value"]), bound=bound_of(cb, params), step=step, ltype=ltype, entry=entries[0], params=params)


def refs_in(n, fn, acc, parent=None, grand=None):
    """every MemberExpr naming the queue member, classified by what is done with it"""
    if n.get("kind") == "MemberExpr" and n.get("name") == QUEUE and any(c.get("kind") == "CXXThisExpr" for c in kids(n)):
        use = "other"
        if parent is not None and parent.get("kind") == "MemberExpr":
            use = parent.get("name", "other")
        elif parent is not None and parent.get("kind") == "CXXOperatorCallExpr":
            c = uw(kids(parent)[0])
            if c.get("kind") == "DeclRefExpr" and c["referencedDecl"].get("name") == "operator=":
                use = "assign"
        acc.append((fn, use))
    for c in kids(n):
        refs_in(c, fn, acc, n, parent)


def translate():
    docs = ast_of("src/SM/DynamicRFKickMap.cpp", "DynamicRFKickMap")
    defs = [d for d in docs if d.get("kind") in ("CXXMethodDecl", "CXXConstructorDecl", "CXXDestructorDecl")
            and any(c.get("kind") == "CompoundStmt" for c in kids(d))]
    # the class definition holds the bodies of methods defined in the header
    for d in docs:
        if d.get("kind") == "CXXRecordDecl":
            for c in kids(d):
                if c.get("kind") in ("CXXMethodDecl", "CXXConstructorDecl") and any(x.get("kind") == "CompoundStmt" for x in kids(c)):
                    defs.append(c)

    def one(name):
        l = [d for d in defs if d.get("name") == name and d.get("kind") == "CXXMethodDecl"]
        if len(l) != 1:
            raise TranslateError("%d definitions of DynamicRFKickMap::%s" % (len(l), name))
        return l[0]

    cm = calcmod(one("__calcModulation"))
    # constructors
    ctors = [d for d in defs if d.get("kind") == "CXXConstructorDecl"]
    cargs = []
    for d in ctors:
        params = [c["name"] for c in kids(d) if c.get("kind") == "ParmVarDecl"]
        kind = "linear" if "angle" in params else ("sinusoidal" if "V_RF" in params else None)
        if kind is None:
            raise TranslateError("constructor with parameters %s is neither the linear nor the sinusoidal one" % params)
        ini = [c for c in kids(d) if c.get("kind") == "CXXCtorInitializer" and c.get("anyInit", {}).get("name") == QUEUE]
        if len(ini) != 1:
            raise TranslateError("%s constructor: %d initialisers of %s" % (kind, len(ini), QUEUE))
        mc = method_call(kids(ini[0])[0])
        if mc is None or mc[1] != "__calcModulation" or len(mc[2]) != 1:
            raise TranslateError("%s constructor: %s is not initialised by __calcModulation(arg): %s" % (kind, QUEUE, text(kids(ini[0])[0])[:120]))
        cargs.append((kind, bound_of(mc[2][0], params)))
        # the constructor body must not touch the queue
    if sorted(k for k, _ in cargs) != ["linear", "sinusoidal"]:
        raise TranslateError("constructors found: %s" % [k for k, _ in cargs])
    # _calcKick
    ck = one("_calcKick")
    st = kids([c for c in kids(ck) if c.get("kind") == "CompoundStmt"][0])
    env = {}
    for s_ in st[:-1]:
        if s_.get("kind") != "DeclStmt":
            raise TranslateError("_calcKick: statement not understood: %s" % text(s_)[:160])
        bind_locals(s_, env, "_calcKick")
    if not st:
        raise TranslateError("_calcKick is empty")
    mc = method_call(st[-1])
    if mc is None or mc[1] != "_calcKick" or "RFKickMap" not in (base_class_of_this(mc[0]) or "") or len(mc[2]) != 2:
        raise TranslateError("_calcKick does not end in RFKickMap::_calcKick(a, b): %s" % text(st[-1])[:160])
    ckargs = []
    for a in mc[2]:
        v = symval(a, env)
        if v is None or v[0] != "comp":
            raise TranslateError("_calcKick: argument is not a component of _next_modulation.front(): %s" % text(a)[:120])
        ckargs.append(v[1])
    # apply
    ap = one("apply")
    aops = []
    env = {}
    bound_at = {}          # local -> number of pops emitted when it was bound
    for s_ in kids([c for c in kids(ap) if c.get("kind") == "CompoundStmt"][0]):
        if s_.get("kind") == "DeclStmt":
            before = set(env)
            bind_locals(s_, env, "apply()")
            for nm in set(env) - before:
                bound_at[nm] = aops.count("APop")
            continue
        mc = method_call(s_)
        op = None
        if mc is not None:
            obj, name, args = mc
            if name == "_calcKick" and not args and uw(obj).get("kind") == "CXXThisExpr" and base_class_of_this(obj) is None:
                op = "ACalcKick"
            elif name == "apply" and not args and "KickMap" in (base_class_of_this(obj) or "") and "RFKickMap" not in (base_class_of_this(obj) or ""):
                op = "AKickApply"
            elif name in ("emplace_back", "push_back") and is_this_member(obj, PAST) and len(args) == 1:
                if symval(args[0], env) == ("front",):
                    u = uw(std_move_arg(args[0]) or args[0])
                    if u.get("kind") == "DeclRefExpr" and u["referencedDecl"].get("name") in bound_at and \
                            bound_at[u["referencedDecl"]["name"]] != aops.count("APop"):
                        raise TranslateError("apply(): the local %s was bound to the front entry before a pop() and is recorded after it" % u["referencedDecl"]["name"])
                    op = "APushFrontToPast"
            elif name == "pop" and not args and is_this_member(obj, QUEUE):
                op = "APop"
        if op is None:
            raise TranslateError("apply(): statement not understood: %s" % (text(s_)[:200] if s_.get("kind") not in ("IfStmt", "ForStmt", "WhileStmt") else s_.get("kind") + " ..."))
        aops.append(op)
    # getPastModulation
    gp = one("getPastModulation")
    gops = []
    rvname = None
    for s in kids([c for c in kids(gp) if c.get("kind") == "CompoundStmt"][0]):
        k = s.get("kind")
        op = None
        if k == "DeclStmt" and len(kids(s)) == 1 and kids(s)[0].get("kind") == "VarDecl" and kids(kids(s)[0]):
            v = kids(s)[0]
            ini = kids(v)[0]
            a = std_move_arg(ini)
            if a is not None and is_this_member(a, PAST):
                op, rvname = "GMoveOut", v["name"]
            elif is_this_member(ini, PAST):
                op, rvname = "GCopyOut", v["name"]
        elif k == "ReturnStmt" and kids(s):
            r = uw(kids(s)[0])
            if r.get("kind") == "DeclRefExpr" and r["referencedDecl"].get("name") == rvname:
                op = "GReturnRv"
        else:
            mc = method_call(s)
            if mc is not None and mc[1] == "clear" and not mc[2] and is_this_member(mc[0], PAST):
                op = "GClear"
        if op is None:
            raise TranslateError("getPastModulation(): statement not understood: %s" % text(s)[:200])
        gops.append(op)
    # every use of the queue member
    refs = []
    for d in defs:
        fn = "constructor" if d.get("kind") == "CXXConstructorDecl" else d.get("name")
        for c in kids(d):
            if c.get("kind") == "CXXCtorInitializer":
                if c.get("anyInit", {}).get("name") == QUEUE:
                    refs.append((fn, "init"))
                for x in kids(c):
                    refs_in(x, fn, refs)
            elif c.get("kind") == "CompoundStmt":
                refs_in(c, fn, refs)
    out = []
    out.append("(* GENERATED on every run by translate/dynqueue2coq.py from src/SM/DynamicRFKickMap.cpp. Do not edit.")
    out.append("   loop variable of __calcModulation: %s; parameters: %s *)" % (cm["ltype"], ", ".join(cm["params"])))
    out.append("From Coq Require Import List ZArith String.")
    out.append("From Inovesa Require Import Base.FieldKit Model.DynQueue.")
    out.append("Import ListNotations.")
    out.append("Local Open Scope string_scope.")
    out.append("(* for (i = %d; i < bound; i += %d) *)" % (cm["init"], cm["step"]))
    out.append("Definition dq_for : forhdr := mkfor (%d)%%Z (%s) (%d)%%Z." % (cm["init"], cm["bound"], cm["step"]))
    out.append("Section DQEntry.")
    out.append("  Variable K : Fld.")
    out.append("  Variable sin : K -> K.")
    out.append("  Local Open Scope F_scope.")
    out.append("  (* the pair emplaced in the iteration with loop variable i; d0, d1: the first and second `_dist(_prng)` of the iteration *)")
    out.append("  Definition dq_entry (%s d0 d1 i : K) : K * K :=\n    (%s,\n     %s)." % (" ".join(MEMBERS), coq(cm["entry"][0]), coq(cm["entry"][1])))
    out.append("End DQEntry.")
    out.append("(* the argument each constructor hands to __calcModulation in the initialiser of _next_modulation *)")
    out.append("Definition dq_ctor_queue_arg : list (string * bound) :=\n  [%s]." % "; ".join('("%s", %s)' % x for x in sorted(cargs)))
    out.append("(* RFKickMap::_calcKick(_next_modulation.front()[a0], _next_modulation.front()[a1]) *)")
    out.append("Definition dq_calckick_args : list Z := [%s]%%Z." % "; ".join(str(a) for a in ckargs))
    out.append("Definition dq_apply_ops : list aop := [%s]." % "; ".join(aops))
    out.append("Definition dq_getpast_ops : list gop := [%s]." % "; ".join(gops))
    out.append("(* every use of the member _next_modulation: (function, use) *)")
    out.append("Definition dq_queue_refs : list (string * string) :=\n  [%s]." % "; ".join('("%s", "%s")' % x for x in refs))
    return "\n".join(out) + "\n", dict(cm=cm, cargs=cargs, ckargs=ckargs, aops=aops, gops=gops, refs=refs)


if __name__ == "__main__":
    dst = sys.argv[1] if len(sys.argv) > 1 else os.path.join(VERIF, "coq", "Gen", "Gen_DynQueue.v")
    try:
        txt, _ = translate()
    except TranslateError as e:
        print("TRANSLATE-ERROR Gen_DynQueue: %s" % e)
        sys.exit(2)
    ch = write_if_changed(dst, txt)
    print("Gen_DynQueue.v %s" % ("regenerated" if ch else "unchanged"))
