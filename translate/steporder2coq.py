#!/usr/bin/env python3
# GEN: Gen_StepOrder
"""Gen_StepOrder.v from the main simulation loop of main() (src/main.cpp).

Idiom: the last top-level `while (simulationstep<laststep && ...) { ... }` of main().  Its body
is scanned for three kinds of events, which must be *direct* statements of the loop body (the
wake update may sit in an `if (wkm != nullptr)` without else):
  * `<wakemap>->update()`            -> EUpdate     (WakePotentialMap::update: wake from the current projection)
  * `<map>->apply()`                 -> EApply kind (the source maps of one step, in program order)
  * `<grid>->updateXProjection()`    -> EXProj      (projection refreshed for the next step)
The kind of a map variable is not taken from its name but from what main() stores in it
(`new T(..)`, `make_unique<T>`, `.reset(new T(..))`, or another variable): WakePotentialMap /
WakeFunctionMap -> MWake, RFKickMap / DynamicRFKickMap -> MRF, DriftMap -> MDrift,
FokkerPlanckMap -> MFP (`Identity` is the disabled form of a map and is ignored).
Anything else - an apply() inside a condition, a map variable of mixed kinds, a second loop -
is a TranslateError (DESIGN 2.2: fail loudly)."""
import sys, os, re
sys.path.insert(0, os.path.dirname(os.path.abspath(__file__)))
from cxx_ast import *

KIND = {"WakePotentialMap": "MWake", "WakeFunctionMap": "MWake", "RFKickMap": "MRF",
        "DynamicRFKickMap": "MRF", "DriftMap": "MDrift", "FokkerPlanckMap": "MFP"}
CLASS_RE = re.compile(r"\b(WakePotentialMap|WakeFunctionMap|DynamicRFKickMap|RFKickMap|DriftMap|FokkerPlanckMap|Identity)\b")


def walk(n):
    yield n
    for c in kids(n):
        yield from walk(c)


def refname(n):
    """variable a (possibly smart-pointer) object expression refers to"""
    names = [m["referencedDecl"]["name"] for m in walk(n)
             if m.get("kind") == "DeclRefExpr" and "referencedDecl" in m
             and not m["referencedDecl"]["name"].startswith("operator")]
    return names[0] if len(names) == 1 else None


def member_call(n):
    """(method, object variable) of a statement `obj->method(...)`/`obj.method(...)`, else None"""
    n = strip(n)
    if n.get("kind") != "CXXMemberCallExpr":
        return None
    me = kids(n)[0]
    if me.get("kind") != "MemberExpr":
        return None
    return me.get("name"), refname(me)


def stored_classes(n):
    """class names constructed inside an initialiser / right-hand side"""
    res = set()
    for m in walk(n):
        if m.get("kind") in ("CXXNewExpr", "CXXConstructExpr", "CallExpr", "CXXTemporaryObjectExpr"):
            q = m.get("type", {}).get("qualType", "")
            if m.get("kind") == "CallExpr" and "make_" not in "".join(
                    x.get("referencedDecl", {}).get("name", "") for x in walk(kids(m)[0])):
                continue
            res |= set(CLASS_RE.findall(q))
    return res


def var_kinds(body):
    """variable -> set of classes main() stores in it (aliases followed)"""
    cls, alias = {}, {}

    def add(v, rhs):
        cls.setdefault(v, set())
        alias.setdefault(v, set())
        cls[v] |= stored_classes(rhs)
        r = strip_soft(rhs)
        if r is not None and r.get("kind") == "DeclRefExpr" and "referencedDecl" in r:
            alias[v].add(r["referencedDecl"]["name"])

    for n in walk(body):
        k = n.get("kind")
        if k == "VarDecl" and kids(n):
            add(n["name"], kids(n)[-1])
        elif k == "BinaryOperator" and n.get("opcode") == "=":
            lhs, rhs = kids(n)
            l = strip_soft(lhs)
            if l is not None and l.get("kind") == "DeclRefExpr":
                add(l["referencedDecl"]["name"], rhs)
        elif k == "CXXOperatorCallExpr":
            ks = kids(n)
            op = [m["referencedDecl"]["name"] for m in walk(ks[0]) if m.get("kind") == "DeclRefExpr" and "referencedDecl" in m]
            if op == ["operator="] and len(ks) == 3:
                l = strip_soft(ks[1])
                if l is not None and l.get("kind") == "DeclRefExpr":
                    add(l["referencedDecl"]["name"], ks[2])
        elif k == "CXXMemberCallExpr":
            mc = member_call(n)
            if mc and mc[0] == "reset" and mc[1] and len(kids(n)) > 1:
                add(mc[1], kids(n)[1])
    # follow aliases to a fixed point
    changed = True
    while changed:
        changed = False
        for v, als in alias.items():
            for a in als:
                new = cls.get(a, set()) - cls[v]
                if new:
                    cls[v] |= new
                    changed = True
    return cls


def strip_soft(n):
    try:
        while True:
            m = strip(n)
            if m.get("kind") in ("CXXConstructExpr",) and len(kids(m)) == 1:
                n = kids(m)[0]
                continue
            return m
    except TranslateError:
        return None


def kind_of(v, cls):
    ks = {KIND[c] for c in cls.get(v, set()) if c in KIND}
    if len(ks) != 1:
        raise TranslateError("map variable `%s` holds %s: not exactly one kind of source map" % (v, sorted(cls.get(v, set()))))
    return ks.pop()


def translate():
    docs = ast_of("src/main.cpp", "main")
    decl, body = body_of(docs, "main")
    loops = []
    for s in kids(body):
        if s.get("kind") == "WhileStmt":
            cn = [m["referencedDecl"]["name"] for m in walk(kids(s)[0]) if m.get("kind") == "DeclRefExpr" and "referencedDecl" in m]
            if "simulationstep" in cn and "laststep" in cn:
                loops.append(s)
    if len(loops) != 1:
        raise TranslateError("expected exactly one `while (simulationstep<laststep ...)` at the top level of main(), found %d" % len(loops))
    comp = kids(loops[0])[-1]
    if comp.get("kind") != "CompoundStmt":
        raise TranslateError("loop body is not a compound statement")
    cls = var_kinds(body)
    events = []
    interesting = ("apply", "update", "updateXProjection")

    def event_of(stmt):
        mc = member_call(stmt)
        if not mc or mc[0] not in interesting or mc[1] is None:
            return None
        meth, v = mc
        if meth == "apply":
            return ("EApply", kind_of(v, cls))
        if meth == "update":
            if kind_of(v, cls) != "MWake":
                raise TranslateError("update() called on `%s`, which is not the wake map" % v)
            return ("EUpdate", None)
        return ("EXProj", None)

    for s in kids(comp):
        ev = event_of(s)
        if ev:
            events.append(ev)
            continue
        if s.get("kind") == "IfStmt":
            parts = kids(s)
            cn = [m["referencedDecl"]["name"] for m in walk(parts[0]) if m.get("kind") == "DeclRefExpr" and "referencedDecl" in m]
            inner = []
            for p in parts[1:]:
                for st in (kids(p) if p.get("kind") == "CompoundStmt" else [p]):
                    e = event_of(st)
                    if e:
                        inner.append(e)
            if inner:
                guard_ok = len(parts) == 2 and len(set(cn)) == 1 and cn and kind_of(cn[0], cls) == "MWake" \
                    and inner == [("EUpdate", None)]
                if not guard_ok:
                    raise TranslateError("conditional map event in the loop body (line %s): %s" %
                                         (s.get("range", {}).get("begin", {}).get("line"), inner))
                events += inner
                continue
        # nothing of interest may hide deeper
        for m in walk(s):
            if m is s:
                continue
            mc = member_call(m) if m.get("kind") == "CXXMemberCallExpr" else None
            if mc and mc[0] in ("apply", "updateXProjection"):
                raise TranslateError("nested %s() call inside the loop body" % mc[0])
            if mc and mc[0] == "update" and mc[1] and cls.get(mc[1]) and any(c in KIND and KIND[c] == "MWake" for c in cls[mc[1]]):
                raise TranslateError("nested wake update() call inside the loop body")
    order = [k for e, k in events if e == "EApply"]
    if not order:
        raise TranslateError("no apply() call found in the loop body")

    def ev_coq(e):
        return "EApply %s" % e[1] if e[0] == "EApply" else e[0]
    out = ["(* GENERATED on every run by translate/steporder2coq.py from src/main.cpp",
           "   (main simulation loop of main()). Do not edit. *)",
           "From Coq Require Import List.",
           "From Inovesa Require Import Model.StepKinds.",
           "Import ListNotations.",
           "Definition step_events : list sevent := [%s]." % "; ".join(ev_coq(e) for e in events),
           "Definition step_order : list smap := [%s]." % "; ".join(order)]
    return "\n".join(out) + "\n", events


if __name__ == "__main__":
    dst = sys.argv[1] if len(sys.argv) > 1 else os.path.join(VERIF, "coq", "Gen", "Gen_StepOrder.v")
    try:
        text, _ = translate()
    except TranslateError as e:
        print("TRANSLATE-ERROR Gen_StepOrder: %s" % e)
        sys.exit(2)
    ch = write_if_changed(dst, text)
    print("Gen_StepOrder.v %s" % ("regenerated" if ch else "unchanged"))
