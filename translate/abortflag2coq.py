#!/usr/bin/env python3
# GEN: Gen_AbortFlag
"""Gen_AbortFlag.v: every place in the repository's sources that names the interrupt flag `Display::abort`
(C14; strengthening driven by seed F8-I: SourceMap::applyToAll left its particle loop once the flag was set).

The driver model (Model/Driver.v) lets NOTHING but main()'s loop condition and the closing `if` read the flag, and nothing but a
delivered SIGINT (and the HDF5 error handler of the set-up) set it: the kernels are functions of the state without the flag.
translate/mainloop2coq.py checks that for main() (clang AST; `abort_refs`).  This translator makes it a statement about ALL
sources: a lexical scan (like Gen_Signals) of every file under src/ and inc/ - comments, string and character literals,
`#include` lines blanked; preprocessor conditionals NOT evaluated (disabled branches are listed too, with the stack of
conditions they stand under) - for the identifier `abort`:

 * not the flag (`KNotFlag`): `std::abort`, `::abort`, `X::abort` for a qualifier other than Display, `abort(`/`.abort(`/`->abort(`
   (a call of a function of that name);
 * the flag otherwise - `Display::abort`, `vfps::Display::abort`, a bare `abort`, `obj.abort` - classified by what follows /
   precedes it: declaration (`bool ... abort;`), definition (`bool ... Display::abort(false)`; KDef true iff the initial value is
   `false`), `= true` (KWriteTrue), any other assignment / increment (KWriteOther), address taken (KAddr), else a read (KRead);
 * where: for src/main.cpp from the clang AST of main() - the condition of the top-level `while` (WLoopCond), the condition of
   an `if` (WIfCond after_the_loop), inside a catch block (WCatch), elsewhere in the file (WMainOther); in any file inside the
   body of a function called SIGINT_handler (WSigHandler); otherwise WElsewhere.

What the list must look like is decided by `abort_ok` (Model/AbortFlag.v; per-run obligation Proofs/AbortFlagMainP.v,
theorem C14_abort_flag_accesses).  Fails loudly when main() cannot be found or does not have exactly one top-level while loop after the statement that prints
"Starting the simulation." (the simulation loop, as in mainloop2coq.py)."""
import sys, os, re, glob
sys.path.insert(0, os.path.dirname(os.path.abspath(__file__)))
from cxx_ast import *
from signals2coq import strip_code

MAIN = os.path.join("src", "main.cpp")
ASSIGN = re.compile(r"^(=(?!=)|\+=|-=|\*=|/=|%=|\|=|&=|\^=|<<=|>>=|\+\+|--)")


def off(loc, end=False):
    for src in (loc, loc.get("expansionLoc", {}), loc.get("spellingLoc", {})):
        if "offset" in src:
            return src["offset"] + (src.get("tokLen", 1) if end else 0)
    return None


def rng(n):
    r = n.get("range", {})
    return off(r.get("begin", {})), off(r.get("end", {}), True)


def main_regions():
    """byte ranges inside main(): [(kind, begin, end)], kind in loopcond / ifcond-before / ifcond-after / catch"""
    docs = ast_of("src/main.cpp", "main")
    mains = [x for x in docs if x.get("kind") == "FunctionDecl" and x.get("name") == "main"]
    if len(mains) != 1:
        raise TranslateError("%d definitions of main" % len(mains))
    _, body = body_of(mains, "main")
    top = kids(body)
    def has_str(n, txt):
        if n.get("kind") == "StringLiteral" and txt in n.get("value", ""):
            return True
        return any(has_str(c, txt) for c in kids(n))
    idx = [i for i, s in enumerate(top) if has_str(s, "Starting the simulation")]
    if len(idx) != 1:
        raise TranslateError("marker statement 'Starting the simulation.' found %d times at top level of main()" % len(idx))
    loops = [s for s in top[idx[0] + 1:] if s.get("kind") == "WhileStmt"]
    if len(loops) != 1:
        raise TranslateError("main() has %d top-level while loops after 'Starting the simulation.'" % len(loops))
    lb, le = rng(loops[0])
    res = []
    cb, ce = rng(kids(loops[0])[0])
    res.append(("loopcond", cb, ce))

    def visit(n):
        k = n.get("kind")
        if k == "IfStmt":
            ks = [c for c in n.get("inner", []) if c]
            b, e = rng(ks[0])
            if b is not None and e is not None:
                res.append(("ifcond-after" if (le is not None and b >= le) else "ifcond-before", b, e))
        if k == "CXXCatchStmt":
            b, e = rng(n)
            if b is not None and e is not None:
                res.append(("catch", b, e))
        for c in kids(n):
            visit(c)
    visit(body)
    mb, me = rng(body)
    return res, (mb, me)


def guards_by_line(code):
    """line number -> list of preprocessor conditions the line stands under (outermost first)"""
    stack, res = [], {}
    for i, line in enumerate(code.split("\n"), 1):
        m = re.match(r"^\s*#\s*(if|ifdef|ifndef|elif|else|endif)\b(.*)$", line)
        if m:
            d, rest = m.group(1), re.sub(r"\s+", " ", m.group(2)).strip()
            if d == "if":
                stack.append(rest)
            elif d == "ifdef":
                stack.append("defined(%s)" % rest)
            elif d == "ifndef":
                stack.append("!defined(%s)" % rest)
            elif d == "elif" and stack:
                stack[-1] = "elif " + rest
            elif d == "else" and stack:
                stack[-1] = "!(%s)" % stack[-1]
            elif d == "endif" and stack:
                stack.pop()
        res[i] = list(stack)
    return res


def handler_ranges(code):
    res = []
    for m in re.finditer(r"\bSIGINT_handler\s*\(", code):
        j = m.end()
        depth = 1
        while j < len(code) and depth:
            depth += {"(": 1, ")": -1}.get(code[j], 0)
            j += 1
        k = j
        while k < len(code) and (code[k].isspace() or code[k:k + 8] == "noexcept"):
            k += 8 if code[k:k + 8] == "noexcept" else 1
        if k < len(code) and code[k] == "{":
            depth, e = 1, k + 1
            while e < len(code) and depth:
                depth += {"{": 1, "}": -1}.get(code[e], 0)
                e += 1
            res.append((k, e))
    return res


def scan(rel, regions, mainrange):
    text = open(os.path.join(REPO, rel), "rb").read().decode("latin-1")     # one character per byte: clang's offsets apply
    code = strip_code(text)
    guards = guards_by_line(code)
    hr = handler_ranges(code)
    sites = []
    for m in re.finditer(r"[A-Za-z_][A-Za-z_0-9]*", code):
        if m.group(0) != "abort":
            continue
        b, e = m.start(), m.end()
        line = code.count("\n", 0, b) + 1
        before = code[:b].rstrip()
        after = code[e:].lstrip()
        stmt_start = max(before.rfind(";"), before.rfind("{"), before.rfind("}")) + 1
        stmt_before = before[stmt_start:]
        snippet = re.sub(r"\s+", " ", text.split("\n")[line - 1]).strip()[:100]
        call = after.startswith("(")
        q = re.search(r"((?:[A-Za-z_][A-Za-z_0-9]*)?(?:\s*::\s*[A-Za-z_][A-Za-z_0-9]*)*)\s*::$", before)
        member = before.endswith(".") or before.endswith("->")
        kind = None
        if q is not None:
            qual = re.sub(r"\s+", "", q.group(1))
            if qual.split("::")[-1] != "Display":
                kind = "KNotFlag"
            prefix = before[:q.start()].rstrip()
        else:
            prefix = before
            if call:
                kind = "KNotFlag"
        if kind is None:
            # a declaration / definition: nothing but type words and qualifiers before the name (`volatile static bool`,
            # `volatile bool vfps::Display::`); `T& r = Display::abort` is an access, not a declaration of the flag
            has_type = re.search(r"\bbool\b", stmt_before) is not None and not member and \
                re.match(r"^[\sA-Za-z_0-9:]*$", stmt_before) is not None
            if has_type and after.startswith(";"):
                kind = "KDecl"
            elif has_type and (after.startswith("(") or after.startswith("{") or re.match(r"^=(?!=)", after)):
                init = re.match(r"^(?:\(|\{|=)\s*([^;)}]*)", after)
                kind = "(KDef %s)" % ("true" if init and init.group(1).strip() == "false" else "false")
            elif re.match(r"^=\s*true\s*;", after):
                kind = "KWriteTrue"
            elif ASSIGN.match(after) or prefix.endswith("++") or prefix.endswith("--"):
                kind = "KWriteOther"
            elif prefix.endswith("&") and not prefix.endswith("&&"):
                kind = "KAddr"
            else:
                kind = "KRead"
        where = "WElsewhere"
        if any(hb <= b < he for hb, he in hr):
            where = "WSigHandler"
        elif rel == MAIN:
            if mainrange[0] is not None and mainrange[0] <= b < mainrange[1]:
                where = "WMainOther"
                for k, rb, re_ in regions:
                    if rb <= b < re_:
                        where = {"loopcond": "WLoopCond", "ifcond-after": "(WIfCond true)", "ifcond-before": "(WIfCond false)",
                                 "catch": "WCatch"}[k]
                        if k != "catch":
                            break
        sites.append((rel, line, kind, where, guards.get(line, []), snippet))
    return sites


def cs(s):
    return '"%s"' % s.replace("\\", "/").replace('"', "'")


def translate():
    regions, mainrange = main_regions()
    files = sorted(glob.glob(os.path.join(REPO, "src", "**", "*.cpp"), recursive=True) +
                   glob.glob(os.path.join(REPO, "src", "**", "*.c"), recursive=True) +
                   glob.glob(os.path.join(REPO, "inc", "**", "*.hpp"), recursive=True) +
                   glob.glob(os.path.join(REPO, "inc", "**", "*.h"), recursive=True))
    sites = []
    for p in files:
        sites += scan(os.path.relpath(p, REPO), regions, mainrange)
    out = ["(* GENERATED on every run by translate/abortflag2coq.py: lexical scan of %d files under src/ and inc/ for the identifier" % len(files),
           "   `abort`; the regions of main() (loop condition, if conditions, catch blocks) from the clang AST. Do not edit. *)",
           "From Coq Require Import List ZArith String.",
           "From Inovesa Require Import Model.AbortFlag.",
           "Import ListNotations.",
           "Local Open Scope string_scope.",
           "Local Open Scope Z_scope.",
           "Definition abort_sites : list asite :=\n  [%s]." % ";\n   ".join(
               "mkasite %s %d %s %s [%s] %s" % (cs(f), ln, k, w, "; ".join(cs(g) for g in gs), cs(sn)) for f, ln, k, w, gs, sn in sites),
           "Definition abort_files_scanned : Z := %d." % len(files)]
    return "\n".join(out) + "\n", dict(sites=sites, files=len(files))


if __name__ == "__main__":
    dst = sys.argv[1] if len(sys.argv) > 1 else os.path.join(VERIF, "coq", "Gen", "Gen_AbortFlag.v")
    try:
        txt, _ = translate()
    except TranslateError as e:
        print("TRANSLATE-ERROR Gen_AbortFlag: %s" % e)
        sys.exit(2)
    ch = write_if_changed(dst, txt)
    print("Gen_AbortFlag.v %s" % ("regenerated" if ch else "unchanged"))
