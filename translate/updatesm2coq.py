#!/usr/bin/env python3
# GEN: Gen_UpdateSM
"""Gen_UpdateSM.v: the per-offset body of KickMap::updateSM (src/SM/KickMap.cpp), read from the clang JSON AST of
/repo's working tree by symbolic execution of one iteration of the loop over `_offset`, with the C++ arithmetic as it is.

What is executed (everything else raises TranslateError - the translator fails loudly, DESIGN 2.2):
  * the statements in front of the loop that declare locals (`new T[_it]` scratch arrays, `const` integers);
  * `for (T i = 0; i < _offset.size(); i++)` (also `++i`, `i += 1`): the body once, `i` symbolic;
  * declarations and assignments of float / integer locals; `x = std::modf(p, &q)`; `calcCoefficiants(arr, f, n)`;
    `arr[e].index = ..`, `arr[e].weight = ..`, `arr[e] = {a, b}` on a scratch array of `hi`; `if / else`;
    `for (T j = 0; j < _it; j++)` loops around writes `_hinfo[S] = arr[e]` (or field by field, or a braced pair);
  * expressions: integer arithmetic with clang's own types (unsigned wrap-around at the width clang computed, signed
    arithmetic only where an interval analysis excludes overflow, `/` of `int` truncating), binary32 arithmetic (every
    operation and every integer -> float conversion rounds), comparisons, `&&`, `||`, `!`, `?:`, float -> unsigned
    conversions (recorded with the branch condition they are executed under).

The result must have the shape "guard on the float integer part; inside: one conversion to the unsigned origin jd, one
calcCoefficiants, one loop over the stencil points with ONE range test on ONE unsigned source index; outside: one loop
writing a constant entry".  Emitted (vocabulary: coq/Model/UsmOps.v), each expression as written after inlining locals:
  usm_ip_of / usm_it_of        what the KickMap constructor hands to SourceMap for `_ip` / `_it`
  usm_gen_bound, usm_gen_offset_index   loop bound, the `_offset` entry iteration i reads
  usm_poffs                    the float sum (the size is halved in unsigned arithmetic first, then converted)
  usm_qpint / usm_xip          the float whose conversion gives the stencil origin (integer part of poffs: std::modf, floor or
                               trunc) / the offset handed to calcCoefficiants (the fractional part of std::modf in the source)
  usm_guard                    the guard as a function of the size and the float integer part
  usm_jd, usm_jd_defined, usm_conv_ok    the float -> unsigned conversion, its defined domain, and whether it is executed
                               under the guard only
  usm_smc                      which coefficients the scratch array holds
  usm_in_count, usm_j0 (before wrap-around), usm_j0_bits, usm_j0_test, usm_in_index/_weight (test true),
  usm_out_index/_weight (test false), usm_in_slot (before wrap-around), usm_slot_bits
  usm_off_count, usm_off_index/_weight, usm_off_slot
  usm_entry, usm_row, usm_update    the assembled entry function and the loops
Proofs/UpdateSMGenP.v proves each piece equal to the model's (`lia`/`ring`/case analysis): renamed locals, a hoisted
`(_it-1)/2`, `std::size_t` instead of `unsigned`, `++j1`, a re-associated sum do not matter; a changed centre, bound,
fallback, guard, halving or slot does."""
import sys, os, struct
sys.path.insert(0, os.path.dirname(os.path.abspath(__file__)))
from cxx_ast import *
import wakeupdate2coq as wu

CT = {"unsigned int": ("u", 32), "int": ("s", 32), "unsigned long": ("u", 64), "long": ("s", 64),
      "unsigned char": ("u", 8), "signed char": ("s", 8), "char": ("s", 8), "unsigned short": ("u", 16),
      "short": ("s", 16), "unsigned long long": ("u", 64), "long long": ("s", 64), "float": ("f", 32),
      "double": ("f", 64), "bool": ("b", 1), "_Bool": ("b", 1)}
F32 = ("f", 32)
BOOL = ("b", 1)
PASS_CASTS = ("NoOp", "LValueToRValue", "FunctionToPointerDecay", "ArrayToPointerDecay", "UncheckedDerivedToBase",
              "DerivedToBase")
CAST_KINDS = ("ImplicitCastExpr", "CStyleCastExpr", "CXXStaticCastExpr", "CXXFunctionalCastExpr")
WRAPPERS = ("ParenExpr", "ExprWithCleanups", "MaterializeTemporaryExpr", "CXXBindTemporaryExpr", "ConstantExpr")
MEMBERS = {"_meshsize_kd": "kd", "_it": "it", "_ip": "ip"}


def qual(n):
    t = n.get("type") or {}
    q = t.get("desugaredQualType") or t.get("qualType") or ""
    for w in ("const ", "volatile "):
        q = q.replace(w, "")
    return q.replace("&", "").strip()


def ctype(n):
    q = qual(n)
    if q in CT:
        return CT[q]
    raise TranslateError("type not understood: %s" % q)


def rng_of(ty):
    k, b = ty
    return (0, 2 ** b - 1) if k == "u" else (-2 ** (b - 1), 2 ** (b - 1) - 1)


class V:
    """a symbolic value: C type, IR, and for integers whether the IR is the value itself (`exact`, then `iv` may bound
    it) or only congruent to it modulo 2^modw (an unsigned expression before its reduction)"""
    def __init__(self, ty, e, exact=True, iv=None, modw=None):
        self.ty, self.e, self.exact, self.iv, self.modw = ty, e, exact, iv, modw


def unwrap(n):
    while True:
        k = n.get("kind")
        if k in WRAPPERS or (k in CAST_KINDS and n.get("castKind") in PASS_CASTS):
            ks = kids(n)
            if len(ks) != 1:
                raise TranslateError("wrapper with %d children: %s" % (len(ks), k))
            n = ks[0]
        else:
            return n


def num(v):
    return ("num", Fraction(v))


def force_exact(v):
    """IR of the value itself"""
    if v.exact:
        return v.e
    return ("wrap", v.modw, v.e)


def exact_val(v):
    if v.exact:
        return v
    return V(v.ty, ("wrap", v.modw, v.e), True, (0, 2 ** v.modw - 1))


def fits(iv, ty):
    lo, hi = rng_of(ty)
    return iv is not None and lo <= iv[0] and iv[1] <= hi


def convert(v, ty):
    """integer conversion (C rules) of an integer value to the integer type ty"""
    if v.ty[0] == "b" and ty[0] in "us":
        raise TranslateError("bool used as an integer")
    if v.ty[0] not in "us" or ty[0] not in "us":
        raise TranslateError("conversion %s -> %s not understood" % (v.ty, ty))
    if ty[0] == "s":
        if v.exact and fits(v.iv, ty):
            return V(ty, v.e, True, v.iv)
        raise TranslateError("conversion to a signed type of a value that may not fit")
    w = ty[1]
    if v.exact:
        if fits(v.iv, ty):
            return V(ty, v.e, True, v.iv)
        return V(ty, v.e, False, None, w)
    if w <= v.modw:
        return V(ty, v.e, False, None, w)
    return V(ty, ("wrap", v.modw, v.e), True, (0, 2 ** v.modw - 1))


def iv_op(op, a, b):
    if a is None or b is None:
        return None
    c = [x for x in ((a[0], b[0]), (a[0], b[1]), (a[1], b[0]), (a[1], b[1]))]
    if op == "add":
        return (a[0] + b[0], a[1] + b[1])
    if op == "sub":
        return (a[0] - b[1], a[1] - b[0])
    if op == "mul":
        p = [x * y for x, y in c]
        return (min(p), max(p))
    if op in ("div", "quot"):
        if b[0] <= 0 <= b[1]:
            return None
        tq = lambda x, y: abs(x) // abs(y) * (1 if (x >= 0) == (y > 0) else -1)
        p = [tq(x, y) for x, y in c]
        return (min(p), max(p))
    if op == "mod":
        if b[0] <= 0:
            return None
        return (0, b[1] - 1)
    return None


class St:
    def __init__(self):
        self.env = {}        # local name -> V | ('coefarr', fIR, itIR) | ('hiarr',) | ('fltarr',)
        self.decl = {}       # local name -> declared C type
        self.store = {}      # (array, key, field) -> V
        self.pc = []         # [(cond id, cond IR, polarity)]
        self.loop = None     # (loop id, count IR) of the inner loop being executed
        self.writes = []     # (pc, loop, slot V, field, V) in program order
        self.convs = []      # (pc, bits, float IR)
        self.ifs = []        # (cond id, cond IR, loop id or None, depth)
        self.offidx = []     # subscripts of _offset read
        self.coefcalls = []  # (pc, fIR, itIR)
        self.nid = 0
        self.pre_loop = set()   # locals declared in front of the loop over _offset: read-only inside it
        self.loop_outer = set() # locals of the enclosing scope while a stencil loop is executed: read-only inside it

    def fresh(self):
        self.nid += 1
        return self.nid


def idx_key(e):
    p = wu.poly(e)
    return repr(e) if p is None else repr(sorted(p.items()))


# ---------------------------------------------------------------------------------------- expressions

def is_f32_exact(q):
    try:
        return Fraction(struct.unpack("f", struct.pack("f", float(q)))[0]) == q
    except (OverflowError, struct.error):
        return False


def ev(n, st):
    n = unwrap(n)
    k = n.get("kind")
    if k in CAST_KINDS:
        ck = n.get("castKind")
        ks = kids(n)
        if len(ks) != 1:
            raise TranslateError("cast with %d operands" % len(ks))
        v = ev(ks[0], st)
        ty = ctype(n)
        if ck == "IntegralCast":
            return convert(v, ty)
        if ck == "IntegralToFloating":
            if ty != F32:
                raise TranslateError("double arithmetic in updateSM")
            e = force_exact(v)
            if e[0] == "num" and abs(e[1]) <= 2 ** 24:
                return V(F32, ("fq", e[1]))
            return V(F32, ("i2f", e))
        if ck == "FloatingToIntegral":
            if v.ty != F32 or ty[0] != "u":
                raise TranslateError("float -> %s conversion not modelled" % (ty,))
            st.convs.append((list(st.pc), ty[1], v.e))
            return V(ty, ("f2u", ty[1], v.e), True, rng_of(ty))
        if ck == "FloatingCast":
            if ty == v.ty:
                return v
            raise TranslateError("double arithmetic in updateSM")
        raise TranslateError("cast %s not understood" % ck)
    if k == "IntegerLiteral":
        v = int(n["value"])
        return V(ctype(n), num(v), True, (v, v))
    if k == "FloatingLiteral":
        ty = ctype(n)
        q = Fraction(n["value"])
        if ty != F32:
            raise TranslateError("double literal in updateSM")
        if not is_f32_exact(q):
            raise TranslateError("float literal %s is not a binary32 value" % n["value"])
        return V(F32, ("fq", q))
    if k == "CXXBoolLiteralExpr":
        return V(BOOL, ("true",) if n.get("value") else ("false",))
    if k == "DeclRefExpr":
        nm = n["referencedDecl"]["name"]
        v = st.env.get(nm)
        if isinstance(v, V):
            return v
        if v is None and nm in st.decl:
            raise TranslateError("local %s is read before it is assigned" % nm)
        raise TranslateError("variable %s not understood here" % nm)
    if k == "MemberExpr":
        nm = n.get("name")
        ks = kids(n)
        base = unwrap(ks[0]) if ks else {}
        if base.get("kind") == "CXXThisExpr" and nm in MEMBERS:
            ty = ctype(n)
            if ty[0] != "u":
                raise TranslateError("member %s is not unsigned" % nm)
            return V(ty, ("var", MEMBERS[nm]), True, rng_of(ty))
        if nm in ("index", "weight") and base.get("kind") == "ArraySubscriptExpr":
            arr, key = hi_elem(base, st)
            v = st.store.get((arr, key, nm))
            if v is None:
                raise TranslateError("%s[..].%s is read before it is written" % (arr, nm))
            return v
        raise TranslateError("member %s not understood" % nm)
    if k == "UnaryOperator":
        op = n.get("opcode")
        a = ev(kids(n)[0], st)
        if op == "!":
            return V(BOOL, ("not", as_bool(a)))
        if op == "-" and a.ty == F32:
            return V(F32, ("fneg", a.e))
        if op == "+":
            return a
        if op == "-" and a.ty[0] == "s":
            iv = iv_op("sub", (0, 0), a.iv)
            if not fits(iv, a.ty):
                raise TranslateError("signed negation may overflow")
            return V(a.ty, ("neg", a.e), True, iv)
        raise TranslateError("unary %s on %s" % (op, a.ty))
    if k == "BinaryOperator":
        op = n.get("opcode")
        if op in ("&&", "||"):
            a, b = [as_bool(ev(c, st)) for c in kids(n)]
            return V(BOOL, ("and" if op == "&&" else "or", a, b))
        if op in ("<", "<=", ">", ">=", "==", "!="):
            a, b = [ev(c, st) for c in kids(n)]
            return compare(op, a, b)
        if op in ("+", "-", "*", "/", "%"):
            a, b = [ev(c, st) for c in kids(n)]
            return arith(op, ctype(n), a, b)
        raise TranslateError("binary operator %s in an expression" % op)
    if k == "ConditionalOperator":
        c, a, b = kids(n)
        cv = as_bool(ev(c, st))
        return merge(("c", cv), ev(a, st), ev(b, st))
    if k == "ArraySubscriptExpr":
        base, idx = kids(n)
        b = unwrap(base)
        if b.get("kind") == "DeclRefExpr":
            nm = b["referencedDecl"]["name"]
            arr = st.env.get(nm)
            if isinstance(arr, tuple) and arr[0] == "coefarr":
                i = force_exact(ev(idx, st))
                return V(F32, ("coef", arr[1], arr[2], i))
            if isinstance(arr, tuple) and arr[0] == "fltarr":
                raise TranslateError("%s[..] is read before calcCoefficiants filled it" % nm)
        raise TranslateError("array element not understood")
    if k == "CXXOperatorCallExpr":
        ks = kids(n)
        callee = unwrap(ks[0])
        if (callee.get("referencedDecl") or {}).get("name") == "operator[]" and len(ks) == 3:
            base = unwrap(ks[1])
            if base.get("kind") == "MemberExpr" and base.get("name") == "_offset":
                st.offidx.append(force_exact(ev(ks[2], st)))
                return V(F32, ("fvar", "o"))
        raise TranslateError("operator call not understood")
    if k == "CXXMemberCallExpr":
        ks = kids(n)
        me = unwrap(ks[0])
        if me.get("kind") == "MemberExpr" and me.get("name") == "size" and len(ks) == 1:
            base = unwrap(kids(me)[0])
            if base.get("kind") == "MemberExpr" and base.get("name") == "_offset":
                ty = ctype(n)
                return V(ty, ("var", "offset_size"), True, rng_of(ty))
        raise TranslateError("member call not understood")
    if k == "CallExpr":
        ks = kids(n)
        fn = (unwrap(ks[0]).get("referencedDecl") or {}).get("name")
        if fn in ("modf", "modff") and len(ks) == 3:
            p = ev(ks[1], st)
            if p.ty != F32 or ctype(n) != F32:
                raise TranslateError("modf is not the binary32 overload")
            a = unwrap(ks[2])
            tgt = unwrap(kids(a)[0]) if a.get("kind") == "UnaryOperator" and a.get("opcode") == "&" else {}
            if tgt.get("kind") != "DeclRefExpr" or st.decl.get(tgt["referencedDecl"]["name"]) != F32:
                raise TranslateError("second argument of modf is not the address of a float local")
            st.env[tgt["referencedDecl"]["name"]] = V(F32, ("modf_int", p.e))
            return V(F32, ("modf_frac", p.e))
        if fn in ("floor", "floorf", "trunc", "truncf") and len(ks) == 2:
            p = ev(ks[1], st)
            if p.ty != F32 or ctype(n) != F32:
                raise TranslateError("%s is not the binary32 overload" % fn)
            return V(F32, ("ffloor" if fn.startswith("floor") else "ftrunc", p.e))
        raise TranslateError("call of %s not understood" % fn)
    raise TranslateError("expression kind %s" % k)


def as_bool(v):
    if v.ty != BOOL:
        raise TranslateError("a non-boolean value is used as a condition")
    return v.e


def compare(op, a, b):
    if a.ty == F32 and b.ty == F32:
        x, y = a.e, b.e
        tag = {"<": "flt", "<=": "fle", ">": "flt", ">=": "fle", "==": "feq", "!=": "feq"}[op]
        if op in (">", ">="):
            x, y = y, x
        e = (tag, x, y)
    elif a.ty[0] in "us" and a.ty == b.ty:
        x, y = force_exact(a), force_exact(b)
        tag = {"<": "zlt", "<=": "zle", ">": "zlt", ">=": "zle", "==": "zeq", "!=": "zeq"}[op]
        if op in (">", ">="):
            x, y = y, x
        e = (tag, x, y)
    else:
        raise TranslateError("comparison of %s with %s" % (a.ty, b.ty))
    return V(BOOL, ("not", e) if op == "!=" else e)


def arith(op, ty, a, b):
    if ty == F32:
        if a.ty != F32 or b.ty != F32:
            raise TranslateError("mixed float arithmetic")
        if op == "%":
            raise TranslateError("% on floats")
        return V(F32, ({"+": "fadd", "-": "fsub", "*": "fmul", "/": "fdiv"}[op], a.e, b.e))
    if ty[0] == "f":
        raise TranslateError("double arithmetic in updateSM")
    if ty[0] not in "us" or a.ty != ty or b.ty != ty:
        raise TranslateError("integer arithmetic on %s, %s in type %s" % (a.ty, b.ty, ty))
    tag = {"+": "add", "-": "sub", "*": "mul", "/": "div", "%": "mod"}[op]
    if ty[0] == "s":
        if tag == "div":
            tag = "quot"
        if tag == "mod":
            raise TranslateError("signed remainder")
        iv = iv_op(tag, a.iv, b.iv)
        if not (a.exact and b.exact and fits(iv, ty)):
            raise TranslateError("signed arithmetic that may overflow (or divide by zero)")
        return V(ty, (tag, a.e, b.e), True, iv)
    if tag in ("div", "mod"):
        a, b = exact_val(a), exact_val(b)
        iv = iv_op(tag, a.iv, b.iv)
        if iv is None:
            raise TranslateError("unsigned division by a value that may be zero")
        return V(ty, (tag, a.e, b.e), True, iv)
    if a.exact and b.exact:
        iv = iv_op(tag, a.iv, b.iv)
        if fits(iv, ty):
            return V(ty, (tag, a.e, b.e), True, iv)
    return V(ty, (tag, a.e, b.e), False, None, ty[1])


def merge(cond, a, b):
    """value after `if (cond) a else b` / of `cond ? a : b`"""
    if a.ty != b.ty:
        raise TranslateError("branches give values of different types")
    if a.ty[0] in "us":
        x, y = exact_val(a), exact_val(b)
        if x.e == y.e:
            return x
        iv = None if x.iv is None or y.iv is None else (min(x.iv[0], y.iv[0]), max(x.iv[1], y.iv[1]))
        return V(a.ty, ("ite", cond, x.e, y.e), True, iv)
    if a.e == b.e:
        return a
    return V(a.ty, ("ite", cond, a.e, b.e))


def hi_elem(sub, st):
    """(array name, index key) of `arr[e]` where arr is a scratch array of hi"""
    base, idx = kids(sub)
    b = unwrap(base)
    if b.get("kind") == "DeclRefExpr":
        nm = b["referencedDecl"]["name"]
        if st.env.get(nm) == ("hiarr",):
            return nm, idx_key(force_exact(ev(idx, st)))
    raise TranslateError("element of a scratch array expected")


def hinfo_slot(sub, st):
    """slot V of `_hinfo[S]`, None when the subscripted array is not _hinfo"""
    base, idx = kids(sub)
    b = unwrap(base)
    if b.get("kind") == "MemberExpr" and b.get("name") == "_hinfo":
        return ev(idx, st)
    return None


# ---------------------------------------------------------------------------------------- statements

def struct_value(n, st):
    """{'index': V, 'weight': V} of an rvalue of type hi"""
    m = unwrap(n)
    while m.get("kind") in ("CXXConstructExpr",) and len(kids(m)) == 1:
        m = unwrap(kids(m)[0])
    if m.get("kind") == "ArraySubscriptExpr":
        arr, key = hi_elem(m, st)
        out = {}
        for f in ("index", "weight"):
            v = st.store.get((arr, key, f))
            if v is None:
                raise TranslateError("%s[..].%s is copied before it is written" % (arr, f))
            out[f] = v
        return out
    if m.get("kind") == "InitListExpr" and len(kids(m)) == 2:
        a, b = [ev(c, st) for c in kids(m)]
        if a.ty[0] != "u" or b.ty != F32:
            raise TranslateError("braced hi value with unexpected member types")
        return {"index": a, "weight": b}
    raise TranslateError("value of type hi not understood (%s)" % m.get("kind"))


def table_write(st, slot, field, v):
    st.writes.append((list(st.pc), st.loop, slot, field, v))


def assign(lhs, rhs_node, st):
    l = unwrap(lhs)
    k = l.get("kind")
    if k == "DeclRefExpr":
        nm = l["referencedDecl"]["name"]
        if nm not in st.decl or not isinstance(st.env.get(nm, V(None, None)), V):
            raise TranslateError("assignment to %s not understood" % nm)
        if st.loop is not None and nm in st.loop_outer:
            raise TranslateError("local %s of the enclosing scope is assigned inside the stencil loop" % nm)
        if nm in st.pre_loop:
            raise TranslateError("local %s declared in front of the loop over _offset is assigned inside it (loop-carried state)" % nm)
        v = ev(rhs_node, st)
        st.env[nm] = bind(v, st.decl[nm])
        return
    if k == "MemberExpr" and l.get("name") in ("index", "weight"):
        sub = unwrap(kids(l)[0])
        if sub.get("kind") != "ArraySubscriptExpr":
            raise TranslateError("field assignment not understood")
        v = ev(rhs_node, st)
        fty = ctype(l)
        v = bind(v, fty)
        slot = hinfo_slot(sub, st)
        if slot is not None:
            table_write(st, slot, l["name"], v)
        else:
            arr, key = hi_elem(sub, st)
            st.store[(arr, key, l["name"])] = v
        return
    if k == "ArraySubscriptExpr":
        sv = struct_value(rhs_node, st)
        slot = hinfo_slot(l, st)
        if slot is not None:
            for f in ("index", "weight"):
                table_write(st, slot, f, sv[f])
        else:
            arr, key = hi_elem(l, st)
            for f in ("index", "weight"):
                st.store[(arr, key, f)] = sv[f]
        return
    raise TranslateError("assignment target %s" % k)


def bind(v, ty):
    """value stored into a variable / field of type ty: integers are reduced at this point"""
    if ty == F32:
        if v.ty != F32:
            raise TranslateError("non-float value stored into a float")
        return v
    if ty[0] in "us":
        if v.ty[0] not in "us":
            raise TranslateError("non-integer value stored into an integer")
        return exact_val(convert(v, ty))
    raise TranslateError("variable of type %s" % (ty,))


def loop_header(f, st):
    """(loop variable, its type, bound V) of `for (T v = 0; v < B; v++)`"""
    ks = f.get("inner", [])
    if len(ks) != 5 or ks[0] is None or ks[2] is None or ks[3] is None or ks[4] is None or ks[1]:
        raise TranslateError("loop header not understood")
    vd = [q for q in kids(ks[0]) if q.get("kind") == "VarDecl"]
    if ks[0].get("kind") != "DeclStmt" or len(vd) != 1 or not kids(vd[0]):
        raise TranslateError("loop does not declare one counter")
    ty = ctype(vd[0])
    if ty[0] != "u":
        raise TranslateError("loop counter %s is not unsigned" % vd[0]["name"])
    iv = ev(kids(vd[0])[0], st)
    if force_exact(iv) != num(0):
        raise TranslateError("loop %s does not start at 0" % vd[0]["name"])
    name = vd[0]["name"]
    inc = unwrap(ks[3])
    ok = False
    if inc.get("kind") == "UnaryOperator" and inc.get("opcode") == "++":
        t = unwrap(kids(inc)[0])
        ok = t.get("kind") == "DeclRefExpr" and t["referencedDecl"]["name"] == name
    elif inc.get("kind") == "CompoundAssignOperator" and inc.get("opcode") == "+=":
        t, s = kids(inc)
        t = unwrap(t)
        st2 = St()
        ok = t.get("kind") == "DeclRefExpr" and t["referencedDecl"]["name"] == name and force_exact(ev(s, st2)) == num(1)
    if not ok:
        raise TranslateError("loop %s does not step by one" % name)
    return name, ty, ks[2], ks[4]


def exec_stmt(s, st, lvname):
    s = unwrap(s)
    k = s.get("kind")
    if k == "CompoundStmt":
        for c in kids(s):
            exec_stmt(c, st, lvname)
        return
    if k == "NullStmt" or k == "CXXDeleteExpr":
        return
    if k == "DeclStmt":
        for vd in kids(s):
            if vd.get("kind") != "VarDecl":
                raise TranslateError("declaration of a %s" % vd.get("kind"))
            declare(vd, st)
        return
    if k == "BinaryOperator" and s.get("opcode") == "=":
        l, r = kids(s)
        assign(l, r, st)
        return
    if k == "CXXOperatorCallExpr":
        ks = kids(s)
        if (unwrap(ks[0]).get("referencedDecl") or {}).get("name") == "operator=" and len(ks) == 3:
            assign(ks[1], ks[2], st)
            return
        raise TranslateError("operator call statement not understood")
    if k == "CallExpr":
        ks = kids(s)
        fn = (unwrap(ks[0]).get("referencedDecl") or {}).get("name")
        if fn == "calcCoefficiants" and len(ks) == 4:
            a = unwrap(ks[1])
            nm = a["referencedDecl"]["name"] if a.get("kind") == "DeclRefExpr" else None
            if nm is None or not (isinstance(st.env.get(nm), tuple) and st.env[nm][0] in ("fltarr", "coefarr")):
                raise TranslateError("first argument of calcCoefficiants is not a scratch array of floats")
            f = ev(ks[2], st)
            it = ev(ks[3], st)
            if f.ty != F32 or it.ty[0] not in "us":
                raise TranslateError("arguments of calcCoefficiants have unexpected types")
            st.env[nm] = ("coefarr", f.e, force_exact(it))
            st.coefcalls.append((list(st.pc), f.e, force_exact(it)))
            return
        raise TranslateError("call of %s as a statement" % fn)
    if k == "IfStmt":
        ks = kids(s)
        if len(ks) not in (2, 3) or s.get("hasInit") or s.get("hasVar"):
            raise TranslateError("if statement not understood")
        c = as_bool(ev(ks[0], st))
        cid = st.fresh()
        st.ifs.append((cid, c, st.loop[0] if st.loop else None, len(st.pc)))
        env0, store0 = dict(st.env), dict(st.store)
        st.pc.append((cid, c, True))
        exec_stmt(ks[1], st, lvname)
        st.pc.pop()
        env1, store1 = st.env, st.store
        st.env, st.store = dict(env0), dict(store0)
        st.pc.append((cid, c, False))
        if len(ks) == 3:
            exec_stmt(ks[2], st, lvname)
        st.pc.pop()
        env2, store2 = st.env, st.store
        st.env, st.store = {}, {}
        for nm in set(env1) | set(env2):
            a, b = env1.get(nm), env2.get(nm)
            if isinstance(a, V) and isinstance(b, V):
                st.env[nm] = merge(("c", cid, c), a, b)
            elif a == b:
                st.env[nm] = a
            elif isinstance(a, tuple) and isinstance(b, tuple):
                st.env[nm] = ("fltarr",) if "fltarr" in (a[0], b[0]) or a[0] == "coefarr" else a
            # a local declared in one branch only is out of scope afterwards
        for key in set(store1) | set(store2):
            a, b = store1.get(key), store2.get(key)
            if a is not None and b is not None:
                st.store[key] = merge(("c", cid, c), a, b)
        return
    if k == "ForStmt":
        if st.loop is not None:
            raise TranslateError("nested loops inside the stencil loop")
        name, ty, condn, body = loop_header(s, st)
        env0, store0 = dict(st.env), dict(st.store)
        st.env[name] = V(ty, ("var", "j1"), True, rng_of(ty))
        st.decl[name] = ty
        cnd = as_bool(ev(condn, st))
        if cnd[0] != "zlt" or cnd[1] != ("var", "j1"):
            raise TranslateError("stencil loop condition is not `j1 < count`")
        if "j1" in free_vars(cnd[2]):
            raise TranslateError("stencil loop bound depends on the counter")
        st.loop = (st.fresh(), cnd[2])
        st.loop_outer = set(n_ for n_, v in env0.items() if isinstance(v, V))
        exec_stmt(body, st, lvname)
        st.loop = None
        st.env, st.store = env0, store0      # nothing the loop body assigned is used afterwards (checked in assign)
        return
    raise TranslateError("statement kind %s in updateSM" % k)


def declare(vd, st):
    nm = vd["name"]
    q = qual(vd)
    init = kids(vd)[0] if kids(vd) else None
    if q.endswith("*"):
        elem = q[:-1].strip()
        i = unwrap(init) if init is not None else {}
        if i.get("kind") != "CXXNewExpr" or not i.get("isArray"):
            raise TranslateError("pointer local %s is not a `new T[n]` scratch array" % nm)
        if elem.endswith("hi"):
            st.env[nm] = ("hiarr",)
        elif CT.get(elem) == F32 or elem.endswith("interpol_t"):
            st.env[nm] = ("fltarr",)
        else:
            raise TranslateError("scratch array of %s" % elem)
        return
    ty = ctype(vd)
    if ty[0] not in "usf" or ty == ("f", 64):
        raise TranslateError("local %s of type %s" % (nm, q))
    st.decl[nm] = ty
    if init is None:
        st.env.pop(nm, None)
        return
    v = ev(init, st)
    st.env[nm] = bind(v, ty)


# ---------------------------------------------------------------------------------------- IR utilities

def subterms(e):
    if isinstance(e, tuple):
        yield e
        for x in e[1:]:
            if isinstance(x, tuple):
                yield from subterms(x)


def free_vars(e):
    return set(t[1] for t in subterms(e) if t[0] in ("var", "fvar"))


def subst(e, m):
    """replace sub-terms by the mapping m (term -> term), outermost first"""
    if not isinstance(e, tuple):
        return e
    if e in m:
        return m[e]
    return tuple(subst(x, m) if isinstance(x, tuple) else x for x in e)


def resolve(e, cid, pol):
    """the value under the assumption that the `if` with id cid took the branch pol"""
    if not isinstance(e, tuple):
        return e
    if e[0] == "ite" and e[1][0] == "c" and len(e[1]) == 3 and e[1][1] == cid:
        return resolve(e[2] if pol else e[3], cid, pol)
    return tuple(resolve(x, cid, pol) if isinstance(x, tuple) else x for x in e)


def zc(e):
    t = e[0]
    if t == "num":
        if e[1].denominator != 1:
            raise TranslateError("non-integer literal in integer arithmetic")
        return str(e[1].numerator) if e[1] >= 0 else "(%d)" % e[1].numerator
    if t == "var":
        return e[1]
    if t == "neg":
        return "(- %s)" % zc(e[1])
    if t in ("add", "sub", "mul", "div", "mod"):
        return "(%s %s %s)" % (zc(e[1]), {"add": "+", "sub": "-", "mul": "*", "div": "/", "mod": "mod"}[t], zc(e[2]))
    if t == "quot":
        return "(Z.quot %s %s)" % (zc(e[1]), zc(e[2]))
    if t == "wrap":
        return "(wrapu %d %s)" % (e[1], zc(e[2]))
    if t == "f2u":
        return "(fcvt_val %d %s)" % (e[1], fc(e[2]))
    if t == "ite":
        return "(if %s then %s else %s)" % (bc(cond_ir(e[1])), zc(e[2]), zc(e[3]))
    if t == "app":
        return "(%s)" % e[1]
    raise TranslateError("integer term %s cannot be printed" % t)


def fc(e):
    t = e[0]
    if t == "fvar":
        return e[1]
    if t == "fq":
        q = e[1]
        if q.denominator == 1:
            return "(Qcz %s)" % (str(q.numerator) if q >= 0 else "(%d)" % q.numerator)
        return "(Q2Qc (%d # %d))" % (q.numerator, q.denominator)
    if t == "i2f":
        return "(i2f32 %s)" % zc(e[1])
    if t in ("fadd", "fsub", "fmul", "fdiv"):
        return "(f32%s %s %s)" % (t[1:], fc(e[1]), fc(e[2]))
    if t == "fneg":
        return "(f32neg %s)" % fc(e[1])
    if t in ("modf_int", "modf_frac", "ffloor", "ftrunc"):
        return "(%s %s)" % (t, fc(e[1]))
    if t == "smc":
        return "(smc %s)" % zc(e[1])
    if t == "ite":
        return "(if %s then %s else %s)" % (bc(cond_ir(e[1])), fc(e[2]), fc(e[3]))
    if t == "app":
        return "(%s)" % e[1]
    raise TranslateError("float term %s cannot be printed" % t)


def cond_ir(c):
    return c[-1] if c[0] == "c" else c


def bc(e):
    t = e[0]
    if t == "true":
        return "true"
    if t == "false":
        return "false"
    if t == "and":
        return "(%s && %s)" % (bc(e[1]), bc(e[2]))
    if t == "or":
        return "(%s || %s)" % (bc(e[1]), bc(e[2]))
    if t == "not":
        return "(negb %s)" % bc(e[1])
    if t in ("zlt", "zle", "zeq"):
        return "(%s %s %s)" % (zc(e[1]), {"zlt": "<?", "zle": "<=?", "zeq": "=?"}[t], zc(e[2]))
    if t in ("flt", "fle", "feq"):
        return "(%s %s %s)" % (t, fc(e[1]), fc(e[2]))
    raise TranslateError("condition %s cannot be printed" % t)


def only_vars(e, allowed, what):
    bad = free_vars(e) - set(allowed)
    if bad:
        raise TranslateError("%s depends on %s" % (what, ", ".join(sorted(bad))))


# ---------------------------------------------------------------------------------------- the constructor

def ctor_ip_it():
    """what KickMap's constructor hands to SourceMap for _ip and _it, as IR over the parameter `it`"""
    d, body = wu.method_body("src/SM/KickMap.cpp", "KickMap::KickMap", "KickMap")
    ini = wu.ctor_inits(d)
    base = [k for k in ini if k.startswith("base:") and "SourceMap" in k]
    if len(base) != 1:
        raise TranslateError("KickMap constructor has no SourceMap base initialiser")
    args = wu.construct_args(ini[base[0]])
    docs = ast_of("src/SM/SourceMap.cpp", "SourceMap::SourceMap")
    for sd in docs:
        if sd.get("kind") != "CXXConstructorDecl" or not any(c.get("kind") == "CompoundStmt" for c in kids(sd)):
            continue
        params = [c["name"] for c in kids(sd) if c.get("kind") == "ParmVarDecl"]
        if len(params) != len(args):
            continue
        sini = wu.ctor_inits(sd)
        out = {}
        for m in ("_ip", "_it"):
            if m not in sini or sini[m] is None:
                raise TranslateError("SourceMap constructor does not initialise %s" % m)
            r = unwrap(sini[m])
            while r.get("kind") in CAST_KINDS and len(kids(r)) == 1:
                r = unwrap(kids(r)[0])
            nm = (r.get("referencedDecl") or {}).get("name")
            if r.get("kind") != "DeclRefExpr" or nm not in params:
                raise TranslateError("SourceMap constructor does not initialise %s from a parameter" % m)
            a = unwrap(args[params.index(nm)])
            while a.get("kind") in CAST_KINDS and len(kids(a)) == 1:
                a = unwrap(kids(a)[0])
            if a.get("kind") != "DeclRefExpr" or (a.get("referencedDecl") or {}).get("kind") != "ParmVarDecl" \
                    or a["referencedDecl"]["name"] != "it":
                raise TranslateError("KickMap does not hand its parameter `it` to SourceMap for %s" % m)
            out[m] = ("var", "it")
        return out
    raise TranslateError("no SourceMap constructor with %d parameters" % len(args))


# ---------------------------------------------------------------------------------------- updateSM

def find_loop(body):
    """the compound statement that holds the loop over _offset, the statements in front of it, the loop"""
    cur = body
    while True:
        stmts = kids(cur)
        fors = [i for i, c in enumerate(stmts) if c.get("kind") == "ForStmt"]
        if len(fors) == 1:
            i = fors[0]
            for c in stmts[i + 1:]:
                if unwrap(c).get("kind") not in ("CXXDeleteExpr", "NullStmt"):
                    raise TranslateError("statement after the loop over _offset: %s" % c.get("kind"))
            return stmts[:i], stmts[i]
        if len(fors) > 1:
            raise TranslateError("more than one top-level loop in updateSM")
        if len(stmts) == 1 and stmts[0].get("kind") == "IfStmt" and len(kids(stmts[0])) == 2:
            c, then = kids(stmts[0])
            names = set(m.get("name") for m in wu.find(c, lambda q: q.get("kind") == "MemberExpr", []))
            if names != {"_oclh"} or then.get("kind") != "CompoundStmt":
                raise TranslateError("updateSM is wrapped in a test of something else than _oclh")
            cur = then
            continue
        raise TranslateError("no loop over _offset found in updateSM")


def same_slot(ws, what):
    if not ws:
        raise TranslateError("%s: no table write" % what)
    s0 = ws[0][2]
    for w in ws[1:]:
        s = w[2]
        if s.ty != s0.ty or s.exact != s0.exact or s.modw != s0.modw or idx_key(s.e) != idx_key(s0.e):
            raise TranslateError("%s: writes go to different table slots" % what)
    if s0.ty[0] != "u":
        raise TranslateError("%s: table subscript is not unsigned" % what)
    return s0


def prefetch():
    """the three AST dumps in parallel (cached on disk by ast_of; a cold cache costs one clang run per place)"""
    from concurrent.futures import ThreadPoolExecutor
    places = [("src/SM/KickMap.cpp", "KickMap::updateSM"), ("src/SM/KickMap.cpp", "KickMap::KickMap"),
              ("src/SM/SourceMap.cpp", "SourceMap::SourceMap")]
    with ThreadPoolExecutor(max_workers=3) as ex:
        list(ex.map(lambda a: ast_of(*a), places))


def translate():
    prefetch()
    cip = ctor_ip_it()
    d, body = wu.method_body("src/SM/KickMap.cpp", "KickMap::updateSM", "updateSM")
    pre, loop = find_loop(body)
    st = St()
    for s in pre:
        exec_stmt(s, st, None)
    st.pre_loop = set(st.decl)
    name, ty, condn, lbody = loop_header(loop, st)
    st.env[name] = V(ty, ("var", "i"), True, rng_of(ty))
    st.decl[name] = ty
    c = as_bool(ev(condn, st))
    if c[0] != "zlt" or c[1] != ("var", "i"):
        raise TranslateError("outer loop condition is not `i < bound`")
    bound = c[2]
    only_vars(bound, ("offset_size", "ip", "it"), "bound of the loop over _offset")
    exec_stmt(lbody, st, name)

    # ---- the offset read
    if not st.offidx or any(idx_key(e) != idx_key(st.offidx[0]) for e in st.offidx):
        raise TranslateError("iteration i does not read exactly one entry of _offset")
    offidx = st.offidx[0]
    only_vars(offidx, ("i",), "subscript of _offset")

    # ---- the guard: every table write is under the same outermost `if`
    if not st.writes:
        raise TranslateError("no write to _hinfo found")
    if any(not w[0] for w in st.writes):
        raise TranslateError("a table write outside the guard on the integer part")
    gid = st.writes[0][0][0][0]
    if any(w[0][0][0] != gid for w in st.writes) or any(w[1] is None for w in st.writes):
        raise TranslateError("table writes are not all inside one if/else, each in a loop over the stencil points")
    G = st.writes[0][0][0][1]
    grp = {True: [w for w in st.writes if w[0][0][2]], False: [w for w in st.writes if not w[0][0][2]]}
    tested = set(t[2] for t in st.ifs if t[2] is not None)
    deep = [p for p in (True, False) if any(w[1][0] in tested for w in grp[p])]
    if len(deep) != 1:
        raise TranslateError("expected the range test on the source index in exactly one branch of the guard")
    pin = deep[0]
    win, woff = grp[pin], grp[not pin]
    if not woff:
        raise TranslateError("one branch of the guard writes no table entry")
    guard = G if pin else ("not", G)
    for ws, what in ((win, "in-range branch"), (woff, "out-of-range branch")):
        if len(set(w[1][0] for w in ws)) != 1:
            raise TranslateError("%s: more than one stencil loop" % what)
    if any(len(w[0]) != 1 for w in woff):
        raise TranslateError("out-of-range branch: conditional table writes")
    # ---- in-range branch: one range test inside the loop
    lid = win[0][1][0]
    tests = [t for t in st.ifs if t[2] == lid]
    if len(tests) != 1 or tests[0][3] != 1:
        raise TranslateError("expected exactly one `if` inside the stencil loop of the in-range branch, found %d" % len(tests))
    tid, T = tests[0][0], tests[0][1]
    if any(len(w[0]) > 2 or (len(w[0]) == 2 and w[0][1][0] != tid) for w in win):
        raise TranslateError("in-range branch: table writes under further conditions")
    ent = {}
    for pol in (True, False):
        for f in ("index", "weight"):
            cand = [w for w in win if w[3] == f and (len(w[0]) == 1 or w[0][1][2] == pol)]
            if not cand:
                raise TranslateError("in-range branch: no %s written when the range test is %s" % (f, pol))
            v = cand[-1][4]
            ent[(pol, f)] = resolve(v.e if f == "weight" else force_exact(v), tid, pol)
    off = {}
    for f in ("index", "weight"):
        cand = [w for w in woff if w[3] == f]
        if not cand:
            raise TranslateError("out-of-range branch: no %s written" % f)
        v = cand[-1][4]
        off[f] = v.e if f == "weight" else force_exact(v)
    slot_in, slot_off = same_slot(win, "in-range branch"), same_slot(woff, "out-of-range branch")
    if slot_in.ty != slot_off.ty:
        raise TranslateError("the two branches subscript _hinfo in different types")
    slot_bits = slot_in.ty[1]
    cnt_in, cnt_off = win[0][1][1], woff[0][1][1]

    # ---- conversions and calcCoefficiants
    if len(st.convs) != 1:
        raise TranslateError("expected exactly one float -> unsigned conversion, found %d" % len(st.convs))
    cpc, cbits, carg = st.convs[0]
    if not (cpc == [] or (len(cpc) == 1 and cpc[0][0] == gid and cpc[0][2] == pin)):
        raise TranslateError("the float -> unsigned conversion is executed under an unexpected condition")
    conv_guarded = bool(cpc)
    calls = [c_ for c_ in st.coefcalls]
    if len(calls) != 1 or not (len(calls[0][0]) >= 1 and calls[0][0][0][0] == gid and calls[0][0][0][2] == pin
                               and all(p[0] in (gid,) for p in calls[0][0])):
        raise TranslateError("expected exactly one unconditional calcCoefficiants call in the in-range branch")
    cf, cit = calls[0][1], calls[0][2]

    # ---- naming: q = the float whose conversion gives the origin (integer part of the float sum poffs), xip = the
    #      offset handed to calcCoefficiants, jd, j0
    INTPART = ("modf_int", "ffloor", "ftrunc")
    if carg[0] not in INTPART:
        raise TranslateError("the converted float is not the integer part (std::modf / floor / trunc) of a float sum")
    Q, P = carg, carg[1]
    only_vars(P, ("kd", "o"), "the float sum poffs")
    if any(t[0] in INTPART + ("modf_frac", "f2u", "coef") for t in subterms(P)):
        raise TranslateError("the float sum poffs is not a plain arithmetic expression")
    only_vars(cf, ("kd", "o"), "the offset handed to calcCoefficiants")
    if any(t[0] in ("f2u", "coef") for t in subterms(cf)):
        raise TranslateError("the offset handed to calcCoefficiants is not a float expression of the row's offset")
    qp_text = fc(subst(Q, {P: ("app", "usm_poffs kd o")}))
    xip_text = fc(subst(cf, {P: ("app", "usm_poffs kd o")}))
    m1 = {Q: ("fvar", "q"), cf: ("fvar", "xip")}
    guard, T, carg, cf, cit = [subst(e, m1) for e in (guard, T, carg, cf, cit)]
    ent = {k: subst(e, m1) for k, e in ent.items()}
    off = {k: subst(e, m1) for k, e in off.items()}
    only_vars(carg, ("q", "kd"), "the converted value")
    jd_term = ("f2u", cbits, carg)
    m2 = {jd_term: ("var", "jd")}
    T = subst(T, m2)
    ent = {k: subst(e, m2) for k, e in ent.items()}
    guard_p = subst(guard, {jd_term: ("app", "usm_jd kd q")})
    only_vars(guard_p, ("kd", "q"), "the guard")
    only_vars(cf, ("xip",), "the offset handed to calcCoefficiants")
    only_vars(cit, ("it", "ip"), "the order handed to calcCoefficiants")
    if "ip" in free_vars(cit):
        cit = subst(cit, {("var", "ip"): ("var", "it")}) if cip["_ip"] == cip["_it"] else cit
    only_vars(cit, ("it",), "the order handed to calcCoefficiants")
    m3 = {}
    for e in list(ent.values()):
        for t in subterms(e):
            if t[0] == "coef":
                if t[1] != cf or t[2] != calls[0][2]:
                    raise TranslateError("weights read an array another call filled")
                m3[t] = ("smc", subst(subst(t[3], m1), m2))
    ent = {k: subst(e, m3) for k, e in ent.items()}
    if any(t[0] == "coef" for e in off.values() for t in subterms(e)):
        raise TranslateError("the out-of-range branch reads interpolation coefficients")
    inner = [T] + list(ent.values())
    wr = set()
    for e in inner:
        for t in subterms(e):
            if t[0] == "wrap" and not any(u[0] == "wrap" for u in list(subterms(t[2]))):
                wr.add(t)
    wr = set(t for t in wr if "jd" in free_vars(t))
    if len(wr) != 1:
        raise TranslateError("expected ONE unsigned source index built from the converted integer part, found %d" % len(wr))
    j0t = wr.pop()
    j0_bits, j0_e = j0t[1], j0t[2]
    only_vars(j0_e, ("kd", "it", "jd", "j1"), "the source index j0")
    if "j1" not in free_vars(j0_e):
        raise TranslateError("the source index does not depend on the stencil point")
    m4 = {j0t: ("var", "j0")}
    T = subst(T, m4)
    ent = {k: subst(e, m4) for k, e in ent.items()}
    only_vars(T, ("kd", "it", "j0", "j1"), "the range test")
    if "j0" not in free_vars(T):
        raise TranslateError("the range test does not test the source index")
    for (pol, f), e in ent.items():
        only_vars(e, ("kd", "it", "j0", "j1"), "the %s written when the range test is %s" % (f, pol))
    for f, e in off.items():
        only_vars(e, ("kd", "it", "j1"), "the %s written outside the guard" % f)
    for s_, what in ((slot_in, "in-range"), (slot_off, "out-of-range")):
        only_vars(s_.e, ("ip", "it", "i", "j1"), "the table slot of the %s branch" % what)
    only_vars(cnt_in, ("ip", "it"), "the stencil loop bound")
    only_vars(cnt_off, ("ip", "it"), "the stencil loop bound")

    out = ["(* GENERATED on every run by translate/updatesm2coq.py from KickMap::updateSM and the KickMap / SourceMap",
           "   constructors (src/SM/KickMap.cpp, src/SM/SourceMap.cpp). Do not edit.  Vocabulary: Model/UsmOps.v.",
           "   kd: _meshsize_kd; o: _offset[usm_gen_offset_index i]; q / xip: integer / fractional part of std::modf;",
           "   jd: q converted to unsigned; j1: stencil point; j0: the source index AFTER its reduction modulo 2^usm_j0_bits",
           "   (usm_j0 is the expression before the reduction); smc: the array calcCoefficiants filled. *)",
           "From Coq Require Import List ZArith QArith Qcanon Bool.",
           "From Inovesa Require Import Base.FieldKit Base.Float32 Model.UsmOps.",
           "Local Open Scope Z_scope.",
           "(* KickMap constructor: what SourceMap receives for _ip and _it *)",
           "Definition usm_ip_of (it : Z) : Z := %s." % zc(cip["_ip"]),
           "Definition usm_it_of (it : Z) : Z := %s." % zc(cip["_it"]),
           "(* loop over the offsets *)",
           "Definition usm_gen_bound (offset_size ip it : Z) : Z := %s." % zc(bound),
           "Definition usm_gen_offset_index (i : Z) : Z := %s." % zc(offidx),
           "(* poffs and std::modf *)",
           "Definition usm_poffs (kd : Z) (o : Qc) : Qc := %s." % fc(P),
           "Definition usm_qpint (kd : Z) (o : Qc) : Qc := %s." % qp_text,
           "Definition usm_xip (kd : Z) (o : Qc) : Qc := %s." % xip_text,
           "(* the guard; the float -> unsigned conversion and whether it is executed under the guard only *)",
           "Definition usm_jd (kd : Z) (q : Qc) : Z := fcvt_val %d %s." % (cbits, fc(carg)),
           "Definition usm_jd_defined (kd : Z) (q : Qc) : bool := fcvt_ok %d %s." % (cbits, fc(carg)),
           "Definition usm_guard (kd : Z) (q : Qc) : bool := %s." % bc(guard_p),
           "Definition usm_conv_ok (kd : Z) (o : Qc) : bool :=",
           "  let q := usm_qpint kd o in %s." % ("if usm_guard kd q then usm_jd_defined kd q else true" if conv_guarded
                                                  else "usm_jd_defined kd q"),
           "(* calcCoefficiants *)",
           "Definition usm_smc (it : Z) (xip : Qc) (j : Z) : Qc := coefQ %s %s j." % (zc(cit), fc(cf)),
           "(* inside the guard: stencil loop, source index, range test, entry written *)",
           "Definition usm_in_count (ip it : Z) : Z := %s." % zc(cnt_in),
           "Definition usm_j0 (kd it jd j1 : Z) : Z := %s." % zc(j0_e),
           "Definition usm_j0_bits : Z := %d." % j0_bits,
           "Definition usm_j0_test (kd it j0 j1 : Z) : bool := %s." % bc(T),
           "Definition usm_in_index (kd it j0 j1 : Z) : Z := %s." % zc(ent[(True, "index")]),
           "Definition usm_in_weight (smc : Z -> Qc) (kd it j0 j1 : Z) : Qc := %s." % fc(ent[(True, "weight")]),
           "Definition usm_out_index (kd it j0 j1 : Z) : Z := %s." % zc(ent[(False, "index")]),
           "Definition usm_out_weight (smc : Z -> Qc) (kd it j0 j1 : Z) : Qc := %s." % fc(ent[(False, "weight")]),
           "Definition usm_in_slot (ip it i j1 : Z) : Z := %s." % zc(slot_in.e),
           "(* outside the guard *)",
           "Definition usm_off_count (ip it : Z) : Z := %s." % zc(cnt_off),
           "Definition usm_off_index (kd it j1 : Z) : Z := %s." % zc(off["index"]),
           "Definition usm_off_weight (kd it j1 : Z) : Qc := %s." % fc(off["weight"]),
           "Definition usm_off_slot (ip it i j1 : Z) : Z := %s." % zc(slot_off.e),
           "Definition usm_slot_bits : Z := %d." % slot_bits,
           "(* the entry written for offset o and stencil point j1 *)",
           "Definition usm_entry (kd it : Z) (o : Qc) (j1 : Z) : Z * Qc :=",
           "  let q := usm_qpint kd o in",
           "  if usm_guard kd q then",
           "    let smc := usm_smc it (usm_xip kd o) in",
           "    let j0 := wrapu usm_j0_bits (usm_j0 kd it (usm_jd kd q) j1) in",
           "    if usm_j0_test kd it j0 j1 then (usm_in_index kd it j0 j1, usm_in_weight smc kd it j0 j1)",
           "    else (usm_out_index kd it j0 j1, usm_out_weight smc kd it j0 j1)",
           "  else (usm_off_index kd it j1, usm_off_weight kd it j1).",
           "(* one iteration of the loop over the offsets, and the whole loop, on the table h *)",
           "Definition usm_row (kd ip it i : Z) (o : Qc) (h : Z -> Z * Qc) : Z -> Z * Qc :=",
           "  if usm_guard kd (usm_qpint kd o) then",
           "    fold_left (fun h' j1 => usm_upd h' (wrapu usm_slot_bits (usm_in_slot ip it i j1)) (usm_entry kd it o j1))",
           "              (zrange (usm_in_count ip it)) h",
           "  else",
           "    fold_left (fun h' j1 => usm_upd h' (wrapu usm_slot_bits (usm_off_slot ip it i j1)) (usm_entry kd it o j1))",
           "              (zrange (usm_off_count ip it)) h.",
           "Definition usm_update (kd ip it size : Z) (offs : Z -> Qc) (h : Z -> Z * Qc) : Z -> Z * Qc :=",
           "  fold_left (fun h' i => usm_row kd ip it i (offs (usm_gen_offset_index i)) h') (zrange (usm_gen_bound size ip it)) h."]
    return "\n".join(out) + "\n"


if __name__ == "__main__":
    dst = sys.argv[1] if len(sys.argv) > 1 else os.path.join(VERIF, "coq", "Gen", "Gen_UpdateSM.v")
    try:
        text = translate()
    except TranslateError as e:
        print("TRANSLATE-ERROR Gen_UpdateSM: %s" % e)
        sys.exit(2)
    except (KeyError, IndexError, TypeError, AttributeError, ValueError) as e:
        print("TRANSLATE-ERROR Gen_UpdateSM: unexpected AST shape (%s: %s)" % (type(e).__name__, e))
        sys.exit(2)
    ch = write_if_changed(dst, text)
    print("Gen_UpdateSM.v %s" % ("regenerated" if ch else "unchanged"))
