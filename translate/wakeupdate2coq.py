#!/usr/bin/env python3
# GEN: Gen_WakeUpdate
"""Gen_WakeUpdate.v: how the wake kick gets its per-bunch displacement field, read from the clang JSON AST of
/repo's working tree.  Five places are read (each fails loudly when it no longer has the expected shape):

 1. WakePotentialMap::update (src/SM/WakePotentialMap.cpp), CPU branch: the statements in program order; exactly one
    copy of the array `_field->wakePotential()` returns into `_offset` (std::copy_n(src, count, dst), or
    std::copy(src, src+count, dst), or a counting loop `for (i=0; i<count; i++) _offset[E] = wp[E']`; the source
    pointer may go through a local variable) and exactly one call of updateSM().  Emitted: the order of the two
    (`wu_prog`), the element count, and the source/destination index of the i-th copied element.
 2. the KickMap constructor (src/SM/KickMap.cpp): `_xsize` (the SourceMap base argument that initialises it),
    `_meshsize_kd`, `_meshsize_pd` as functions of the kick direction, `_lastbunch`, and the size `_offset` is
    resized to.
 3. the WakeKickMap constructor (src/SM/WakeKickMap.cpp): the kick direction it hands to KickMap.
 4. KickMap::updateSM (src/SM/KickMap.cpp): bound of the loop over offsets, which `_offset` entry iteration i reads
    and which `_hinfo` entry the inner loops write (all writes - also the several of a field-by-field store - must use the same
    index expression, up to `ring` and up to `_ip` = `_it` when the KickMap constructor hands SourceMap the same parameter for both).
 5. ElectricField (src/PS/ElectricField.cpp): the extents `_wakepotential` is constructed with, the loop bounds and the
    subscripts of the read-back loop of wakePotential() that writes it, and that the function returns
    `_wakepotential.data()`.

Index expressions are emitted as written (over Z); Proofs/WakeUpdateP.v proves them equal to the model's by `ring`/`lia`,
so re-associated products or renamed locals do not matter, a changed stride or count does."""
import sys, os
sys.path.insert(0, os.path.dirname(os.path.abspath(__file__)))
from cxx_ast import *
import kickindex2coq as ki

zir = ki.zir
find = ki.find


def zexpr(n, env):
    """index arithmetic over Z; ConditionalOperator on the kick direction becomes ('ifx', a, b)"""
    m = strip(n)
    if m.get("kind") == "ConditionalOperator":
        c, a, b = kids(m)
        pol = axis_test(c)
        ea, eb = zexpr(a, env), zexpr(b, env)
        return ("ifx", ea, eb) if pol else ("ifx", eb, ea)
    if m.get("kind") == "BinaryOperator" and m.get("opcode") in ("+", "-", "*", "/"):
        op = {"+": "add", "-": "sub", "*": "mul", "/": "div"}[m["opcode"]]
        a, b = kids(m)
        return (op, zexpr(a, env), zexpr(b, env))
    if m.get("kind") == "UnaryExprOrTypeTraitExpr" and m.get("name") == "sizeof":
        return ("var", "SIZEOF")
    if m.get("kind") == "CXXMemberCallExpr":
        # _offset.size()
        me = strip(kids(m)[0])
        if me.get("kind") == "MemberExpr" and me.get("name") == "size":
            base = strip(kids(me)[0])
            if base.get("kind") == "MemberExpr" and base.get("name") == "_offset" and "offset_size" in env:
                return env["offset_size"]
        raise TranslateError("call not understood in index arithmetic")
    return ki.expr(m, env)


def zcoq(e):
    if e[0] == "ifx":
        return "(if kdx then %s else %s)" % (zcoq(e[1]), zcoq(e[2]))
    if e[0] in ("add", "sub", "mul", "div"):
        op = {"add": "+", "sub": "-", "mul": "*", "div": "/"}[e[0]]
        return "(%s %s %s)" % (zcoq(e[1]), op, zcoq(e[2]))
    return zir(e)


def axis_test(c):
    """True when the condition is `kd == Axis::x` (or `kd != Axis::y`), False for the opposite polarity"""
    c = strip(c)
    if c.get("kind") != "BinaryOperator" or c.get("opcode") not in ("==", "!="):
        raise TranslateError("condition is not a test of the kick direction")
    names = [((strip(k).get("referencedDecl") or {}).get("name"), (strip(k).get("referencedDecl") or {}).get("kind")) for k in kids(c)]
    par = [nm for nm, kd in names if kd == "ParmVarDecl"]
    enum = [nm for nm, kd in names if kd == "EnumConstantDecl"]
    if par != ["kd"] or len(enum) != 1 or enum[0] not in ("x", "y"):
        raise TranslateError("condition is not `kd == Axis::x|y`")
    return (c["opcode"] == "==") == (enum[0] == "x")


# ---------------------------------------------------------------------------------------- pointers and the copy idiom

def ptr_of(n, locs, env):
    """(root, offset IR) of a pointer-valued expression; root is a tuple of member/method names"""
    n = strip(n)
    k = n.get("kind")
    if k == "DeclRefExpr":
        nm = n["referencedDecl"]["name"]
        if nm in locs:
            return locs[nm]
        raise TranslateError("pointer variable %s is not a recognised local" % nm)
    if k == "CXXMemberCallExpr":
        me = strip(kids(n)[0])
        if me.get("kind") != "MemberExpr" or len(kids(n)) != 1:
            raise TranslateError("pointer call with arguments")
        meth = me.get("name")
        mem = [m.get("name") for m in find(me, lambda q: q.get("kind") == "MemberExpr" and str(q.get("name", "")).startswith("_"), [])]
        if len(mem) != 1:
            raise TranslateError("pointer call is not <member>.%s()" % meth)
        return ((mem[0], meth), ("num", Fraction(0)))
    if k == "BinaryOperator" and n.get("opcode") in ("+", "-"):
        a, b = kids(n)
        ta = strip(a).get("type", {}).get("qualType", "")
        if "*" in ta:
            r, o = ptr_of(a, locs, env)
            return (r, ("add" if n["opcode"] == "+" else "sub", o, zexpr(b, env)))
        if n["opcode"] == "+":
            r, o = ptr_of(b, locs, env)
            return (r, ("add", o, zexpr(a, env)))
    if k == "UnaryOperator" and n.get("opcode") == "&":
        r, idx = elem_of(kids(n)[0], locs, env)
        return (r, idx)
    raise TranslateError("pointer expression kind %s" % k)


def elem_of(n, locs, env):
    """(root, index IR) of an element access p[E] (pointer) or v[E] (std::vector member)"""
    n = strip(n)
    if n.get("kind") == "ArraySubscriptExpr":
        base, idx = kids(n)
        r, o = ptr_of(base, locs, env)
        return (r, ("add", o, zexpr(idx, env)))
    if n.get("kind") == "CXXOperatorCallExpr":
        ks = kids(n)
        callee = strip(ks[0])
        if (callee.get("referencedDecl") or {}).get("name") == "operator[]" and len(ks) == 3:
            base = strip(ks[1])
            if base.get("kind") == "MemberExpr" and str(base.get("name", "")).startswith("_"):
                return ((base["name"], "data"), zexpr(ks[2], env))
    raise TranslateError("element access not understood")


def flatten(stmt):
    out = []
    for c in kids(stmt):
        if c.get("kind") == "CompoundStmt":
            out += flatten(c)
        else:
            out.append(c)
    return out


def simp(e):
    """constant folding of the trivial cases so that `0 + i` prints as `i`"""
    if e[0] in ("add", "sub", "mul", "div"):
        a, b = simp(e[1]), simp(e[2])
        if e[0] == "add" and a == ("num", Fraction(0)):
            return b
        if e[0] in ("add", "sub") and b == ("num", Fraction(0)):
            return a
        return (e[0], a, b)
    return e


def poly(e):
    """polynomial normal form {monomial tuple: coefficient} of an IR without div/min/ifx; None otherwise"""
    t = e[0]
    if t == "num":
        return {(): e[1]} if e[1] != 0 else {}
    if t == "var":
        return {(e[1],): Fraction(1)}
    if t == "neg":
        p = poly(e[1])
        return None if p is None else {m: -c for m, c in p.items()}
    if t in ("add", "sub", "mul"):
        a, b = poly(e[1]), poly(e[2])
        if a is None or b is None:
            return None
        r = {}
        if t == "mul":
            for ma, ca in a.items():
                for mb, cb in b.items():
                    m = tuple(sorted(ma + mb))
                    r[m] = r.get(m, 0) + ca * cb
        else:
            r = dict(a)
            for m, c in b.items():
                r[m] = r.get(m, 0) + (c if t == "add" else -c)
        return {m: c for m, c in r.items() if c != 0}
    return None


def unpoly(p):
    """IR of a polynomial normal form (integer coefficients)"""
    terms = []
    for mono, c in sorted(p.items()):
        if c.denominator != 1:
            raise TranslateError("non-integer coefficient")
        t = None
        for v in mono:
            t = ("var", v) if t is None else ("mul", t, ("var", v))
        if t is None:
            t = ("num", abs(c))
        elif abs(c) != 1:
            t = ("mul", ("num", abs(c)), t)
        terms.append((c < 0, t))
    if not terms:
        return ("num", Fraction(0))
    e = None
    for neg, t in terms:
        if e is None:
            e = ("neg", t) if neg else t
        else:
            e = ("sub" if neg else "add", e, t)
    return e


def bytes_to_count(e):
    """sizeof(T)*count -> count: every monomial of the byte count must contain the sizeof factor exactly once"""
    p = poly(e)
    if p is None or not p:
        raise TranslateError("memcpy: byte count not polynomial")
    q = {}
    for mono, c in p.items():
        if list(mono).count("SIZEOF") != 1:
            raise TranslateError("memcpy: byte count is not sizeof(element) times a count")
        m = list(mono)
        m.remove("SIZEOF")
        q[tuple(m)] = c
    return unpoly(q)


def copy_idiom(stmts, env, want_src, want_dst, other_ok=None):
    """walks a flat statement list; returns (events, count IR, src index IR in `i`, dst index IR in `i`).
    events: list of 'copy' / names returned by other_ok(stmt) for the remaining statements."""
    locs = {}
    events = []
    res = None
    for s in stmts:
        k = s.get("kind")
        if k == "DeclStmt":
            for vd in kids(s):
                if vd.get("kind") != "VarDecl" or not kids(vd):
                    raise TranslateError("declaration without initialiser")
                locs[vd["name"]] = ptr_of(kids(vd)[0], locs, env)
            continue
        if k == "NullStmt":
            continue
        c = strip(s)
        got = None
        if c.get("kind") == "CallExpr":
            fn = (strip(kids(c)[0]).get("referencedDecl") or {}).get("name")
            args = kids(c)[1:]
            if fn == "copy_n" and len(args) == 3:
                rs, os_ = ptr_of(args[0], locs, env)
                rd, od = ptr_of(args[2], locs, env)
                got = (zexpr(args[1], env), rs, os_, rd, od)
            elif fn == "memcpy" and len(args) == 3:
                # std::memcpy(dst, src, sizeof(element)*count): both arrays hold floats (checked through the pointee types)
                for a_ in args[:2]:
                    ty = strip(a_).get("type", {}).get("qualType", "")
                    if "float" not in ty and "meshaxis_t" not in ty and "meshdata_t" not in ty:
                        raise TranslateError("memcpy on pointers of type %s" % ty)
                rd, od = ptr_of(args[0], locs, env)
                rs, os_ = ptr_of(args[1], locs, env)
                got = (bytes_to_count(zexpr(args[2], env)), rs, os_, rd, od)
            elif fn == "copy" and len(args) == 3:
                rs, os_ = ptr_of(args[0], locs, env)
                rl, ol = ptr_of(args[1], locs, env)
                rd, od = ptr_of(args[2], locs, env)
                if rl != rs:
                    raise TranslateError("std::copy: first and last are not the same array")
                got = (simp(("sub", ol, os_)), rs, os_, rd, od)
                p = poly(got[0])
                if p is None:
                    raise TranslateError("std::copy: length not polynomial")
            if got:
                cnt, rs, os_, rd, od = got
                got = (cnt, rs, simp(("add", os_, ("var", "i"))), rd, simp(("add", od, ("var", "i"))))
        elif c.get("kind") == "ForStmt":
            ks = c.get("inner", [])
            vd = [q for q in kids(ks[0] or {}) if q.get("kind") == "VarDecl"]
            if len(vd) != 1:
                raise TranslateError("copy loop: unexpected init")
            iv = strip(kids(vd[0])[0]) if kids(vd[0]) else {}
            if iv.get("kind") != "IntegerLiteral" or iv.get("value") != "0":
                raise TranslateError("copy loop does not start at 0")
            cond = strip(ks[2])
            if cond.get("kind") != "BinaryOperator" or cond.get("opcode") != "<":
                raise TranslateError("copy loop condition is not `i < count`")
            env2 = dict(env)
            env2[vd[0]["name"]] = ("var", "i")
            a, b = kids(cond)
            if zexpr(a, env2) != ("var", "i"):
                raise TranslateError("copy loop condition does not test the loop variable")
            inc = strip(ks[3])
            if inc.get("kind") != "UnaryOperator" or inc.get("opcode") != "++":
                raise TranslateError("copy loop increment is not ++")
            body = flatten(ks[4]) if ks[4].get("kind") == "CompoundStmt" else [ks[4]]
            if len(body) != 1:
                raise TranslateError("copy loop body is not one assignment")
            asg = strip(body[0])
            if asg.get("kind") != "BinaryOperator" or asg.get("opcode") != "=":
                raise TranslateError("copy loop body is not an assignment")
            l, r = kids(asg)
            rd, idd = elem_of(l, locs, env2)
            rs, ids = elem_of(r, locs, env2)
            got = (zexpr(b, env), rs, simp(ids), rd, simp(idd))
        if got:
            if res is not None:
                raise TranslateError("more than one copy")
            cnt, rs, ids, rd, idd = got
            if rs != want_src:
                raise TranslateError("the copy reads %s, expected %s" % (rs, want_src))
            if rd != want_dst:
                raise TranslateError("the copy writes %s, expected %s" % (rd, want_dst))
            res = (cnt, ids, idd)
            events.append("copy")
            continue
        ev = other_ok(s) if other_ok else None
        if ev is None:
            raise TranslateError("statement not understood: %s" % s.get("kind"))
        events.append(ev)
    if res is None:
        raise TranslateError("no copy found")
    return events, res[0], res[1], res[2]


def method_body(src, qual, name):
    docs = ast_of(src, qual)
    got = [(d, c) for d in docs if d.get("kind") in ("CXXMethodDecl", "CXXConstructorDecl") and d.get("name") == name
           for c in kids(d) if c.get("kind") == "CompoundStmt"]
    if len(got) != 1:
        raise TranslateError("%s: %d definitions found" % (qual, len(got)))
    return got[0]


# ---------------------------------------------------------------------------------------- the five places

def tr_update():
    d, body = method_body("src/SM/WakePotentialMap.cpp", "WakePotentialMap::update", "update")
    env = {"nb": ("var", "nb"), "_xsize": ("var", "xsize")}

    def other(s):
        c = strip(s)
        if c.get("kind") == "CXXMemberCallExpr" and len(kids(c)) == 1:
            me = strip(kids(c)[0])
            if me.get("kind") == "MemberExpr" and me.get("name") == "updateSM":
                return "updatesm"
        return None
    ev, cnt, isrc, idst = copy_idiom(flatten(body), env, ("_field", "wakePotential"), ("_offset", "data"), other)
    if sorted(ev) != ["copy", "updatesm"]:
        raise TranslateError("update(): expected one copy and one updateSM(), found %s" % ev)
    return ev, cnt, isrc, idst


def ctor_inits(d):
    res = {}
    for c in kids(d):
        if c.get("kind") == "CXXCtorInitializer":
            key = (c.get("anyInit") or {}).get("name") or ("base:" + (c.get("baseInit") or {}).get("qualType", "?"))
            res[key] = kids(c)[0] if kids(c) else None
    return res


def construct_args(n):
    """arguments of the CXXConstructExpr below an initialiser"""
    ce = find(n, lambda q: q.get("kind") == "CXXConstructExpr", [])
    if not ce:
        raise TranslateError("base initialiser is not a constructor call")
    return kids(ce[0])


def sourcemap_xsize_index(nargs, member="_xsize"):
    docs = ast_of("src/SM/SourceMap.cpp", "SourceMap::SourceMap")
    for d in docs:
        if d.get("kind") != "CXXConstructorDecl" or not any(c.get("kind") == "CompoundStmt" for c in kids(d)):
            continue
        params = [c["name"] for c in kids(d) if c.get("kind") == "ParmVarDecl"]
        if len(params) != nargs:
            continue
        ini = ctor_inits(d)
        if member in ini:
            r = strip(ini[member])
            nm = (r.get("referencedDecl") or {}).get("name")
            if nm in params:
                return params.index(nm)
        raise TranslateError("SourceMap constructor with %d parameters does not initialise %s from a parameter" % (nargs, member))
    raise TranslateError("no SourceMap constructor with %d parameters" % nargs)


def tr_kickmap_ctor():
    d, body = method_body("src/SM/KickMap.cpp", "KickMap::KickMap", "KickMap")
    env = {"nb": ("var", "nb"), "nx": ("var", "nx"), "ny": ("var", "ny")}
    ini = ctor_inits(d)
    base = [k for k in ini if k.startswith("base:") and "SourceMap" in k]
    if len(base) != 1:
        raise TranslateError("KickMap constructor has no SourceMap base initialiser")
    args = construct_args(ini[base[0]])
    xi = sourcemap_xsize_index(len(args))
    out = {"xsize": zexpr(args[xi], env)}
    for m in ("_meshsize_kd", "_meshsize_pd", "_lastbunch"):
        if m not in ini:
            raise TranslateError("KickMap constructor does not initialise %s" % m)
        out[m] = zexpr(ini[m], env)
    rs = [c for c in find(body, lambda q: q.get("kind") == "CXXMemberCallExpr", [])
          if strip(kids(c)[0]).get("name") == "resize" and
          any(m.get("name") == "_offset" for m in find(kids(c)[0], lambda q: q.get("kind") == "MemberExpr", []))]
    if len(rs) != 1:
        raise TranslateError("expected one _offset.resize(...), found %d" % len(rs))
    out["offset_size"] = zexpr(kids(rs[0])[1], {"nb": ("var", "nb"), "_meshsize_pd": ("var", "pd"), "_meshsize_kd": ("var", "kd")})
    fill = strip(kids(rs[0])[2]) if len(kids(rs[0])) > 2 else None
    while fill is not None and fill.get("kind") in ("ImplicitCastExpr",):
        fill = strip(kids(fill)[0])
    if fill is None or fill.get("kind") not in ("IntegerLiteral", "FloatingLiteral") or Fraction(fill["value"]) != 0:
        raise TranslateError("_offset is not resized with zeros")
    return out


def kickmap_ip_is_it():
    """True when the KickMap constructor hands the same parameter to SourceMap for `_ip` and `_it` (then `i*_ip+j1` and
    `i*_it+j1` name the same table entry; family usm)"""
    try:
        d, body = method_body("src/SM/KickMap.cpp", "KickMap::KickMap", "KickMap")
        ini = ctor_inits(d)
        base = [k for k in ini if k.startswith("base:") and "SourceMap" in k]
        if len(base) != 1:
            return False
        args = construct_args(ini[base[0]])
        a, b = [strip(args[sourcemap_xsize_index(len(args), m)]) for m in ("_ip", "_it")]
        na, nb_ = [(x.get("referencedDecl") or {}).get("name") if x.get("kind") == "DeclRefExpr" else None for x in (a, b)]
        return na is not None and na == nb_
    except TranslateError:
        return False


def tr_wakekick_ctor():
    docs = ast_of("src/SM/WakeKickMap.cpp", "WakeKickMap::WakeKickMap")
    ds = [d for d in docs if d.get("kind") == "CXXConstructorDecl" and any(c.get("kind") == "CompoundStmt" for c in kids(d))]
    if len(ds) != 1:
        raise TranslateError("WakeKickMap constructor: %d definitions" % len(ds))
    ini = ctor_inits(ds[0])
    base = [k for k in ini if k.startswith("base:") and "KickMap" in k]
    if len(base) != 1:
        raise TranslateError("WakeKickMap constructor has no KickMap base initialiser")
    en = [q["referencedDecl"]["name"] for a in construct_args(ini[base[0]])
          for q in find(a, lambda m: m.get("kind") == "DeclRefExpr" and (m.get("referencedDecl") or {}).get("kind") == "EnumConstantDecl", [])]
    if len(en) != 1 or en[0] not in ("x", "y"):
        raise TranslateError("WakeKickMap does not hand a literal Axis to KickMap")
    return en[0] == "x"


def tr_updatesm():
    d, body = method_body("src/SM/KickMap.cpp", "KickMap::updateSM", "updateSM")
    fors = [f for f in find(body, lambda q: q.get("kind") == "ForStmt", [])]
    if not fors:
        raise TranslateError("updateSM has no loop")
    outer = fors[0]
    ks = outer.get("inner", [])
    vd = [q for q in kids(ks[0]) if q.get("kind") == "VarDecl"]
    iv = strip(kids(vd[0])[0]) if len(vd) == 1 and kids(vd[0]) else {}
    if iv.get("kind") != "IntegerLiteral" or iv.get("value") != "0":
        raise TranslateError("updateSM: outer loop does not start at 0")
    lv = vd[0]["name"]
    env = {lv: ("var", "i"), "_ip": ("var", "ip"), "_it": ("var", "it"), "offset_size": ("var", "offset_size")}
    cond = strip(ks[2])
    if cond.get("kind") != "BinaryOperator" or cond.get("opcode") != "<" or zexpr(kids(cond)[0], env) != ("var", "i"):
        raise TranslateError("updateSM: outer loop condition is not `i < bound`")
    bound = zexpr(kids(cond)[1], env)
    # reads of _offset
    reads = []
    for c in find(ks[4], lambda q: q.get("kind") == "CXXOperatorCallExpr", []):
        cs = kids(c)
        if (strip(cs[0]).get("referencedDecl") or {}).get("name") == "operator[]" and strip(cs[1]).get("name") == "_offset":
            reads.append(zexpr(cs[2], env))
    if not reads or any(poly(r) != poly(reads[0]) for r in reads):
        raise TranslateError("updateSM: iteration i does not read one entry of _offset")
    # writes of _hinfo inside inner loops over j1
    writes = []
    for f in find(ks[4], lambda q: q.get("kind") == "ForStmt", []):
        fk = f.get("inner", [])
        fv = [q for q in kids(fk[0]) if q.get("kind") == "VarDecl"]
        if len(fv) != 1:
            raise TranslateError("updateSM: inner loop init")
        fi = strip(kids(fv[0])[0]) if kids(fv[0]) else {}
        if fi.get("kind") != "IntegerLiteral" or fi.get("value") != "0":
            raise TranslateError("updateSM: inner loop does not start at 0")
        env2 = dict(env)
        env2[fv[0]["name"]] = ("var", "j1")
        fc = strip(fk[2])
        if fc.get("kind") != "BinaryOperator" or fc.get("opcode") != "<" or zexpr(kids(fc)[0], env2) != ("var", "j1") \
                or zexpr(kids(fc)[1], env2) not in (("var", "it"), ("var", "ip")):
            raise TranslateError("updateSM: inner loop is not `j1 < _it`")
        w = ki.subscript_of(fk[4], "_hinfo")
        if len(w) < 1:
            raise TranslateError("updateSM: inner loop writes _hinfo %d times" % len(w))
        writes += [zexpr(x, env2) for x in w]      # field-by-field stores subscript _hinfo more than once: all must agree
    ren = (lambda e: ("var", "it") if e == ("var", "ip") else tuple(ren(x) if isinstance(x, tuple) else x for x in e)) \
        if kickmap_ip_is_it() else (lambda e: e)
    if not writes or any(poly(ren(w)) is None or poly(ren(w)) != poly(ren(writes[0])) for w in writes):
        raise TranslateError("updateSM: the inner loops do not all write the same _hinfo entry")
    return bound, reads[0], writes[0]


def tr_wakepotential():
    env = {"nb": ("var", "nb"), "nx": ("var", "nx")}
    # extents
    docs = ast_of("src/PS/ElectricField.cpp", "ElectricField::ElectricField")
    ext = None
    for d in docs:
        if d.get("kind") != "CXXConstructorDecl":
            continue
        ini = ctor_inits(d)
        if "_wakepotential" in ini and ini["_wakepotential"] is not None:
            calls = [c for c in find(ini["_wakepotential"], lambda q: q.get("kind") == "CXXOperatorCallExpr", [])
                     if (strip(kids(c)[0]).get("referencedDecl") or {}).get("name") == "operator[]"]
            if len(calls) != 2:
                raise TranslateError("_wakepotential is not constructed from boost::extents[a][b]")
            outer, inner = calls[0], calls[1]
            if not find(inner, lambda q: q.get("kind") == "DeclRefExpr" and (q.get("referencedDecl") or {}).get("name") == "extents", []):
                raise TranslateError("_wakepotential is not constructed from boost::extents[a][b]")
            e = (zexpr(kids(inner)[2], env), zexpr(kids(outer)[2], env))
            if ext is not None and ext != e:
                raise TranslateError("two constructors give _wakepotential different extents")
            ext = e
    if ext is None:
        raise TranslateError("no constructor initialises _wakepotential")
    d, body = method_body("src/PS/ElectricField.cpp", "ElectricField::wakePotential", "wakePotential")
    # the assignment to _wakepotential[.][.]
    asg = []
    for a in find(body, lambda q: q.get("kind") == "BinaryOperator" and q.get("opcode") == "=", []):
        l = strip(kids(a)[0])
        if l.get("kind") == "CXXOperatorCallExpr" and any(m.get("name") == "_wakepotential" for m in
                                                          find(l, lambda q: q.get("kind") == "MemberExpr", [])):
            asg.append(a)
    if len(asg) != 1:
        raise TranslateError("wakePotential(): %d assignments to _wakepotential[][]" % len(asg))
    # enclosing loops
    chain = []

    def path(n, acc):
        if n is asg[0]:
            chain.extend(acc)
            return True
        for c in kids(n):
            if path(c, acc + ([n] if n.get("kind") == "ForStmt" else [])):
                return True
        return False
    path(body, [])
    if len(chain) != 2:
        raise TranslateError("the read-back assignment is not inside exactly two loops")
    env2 = dict(env)
    bounds = []
    for f, nm in zip(chain, ("b", "x")):
        fk = f.get("inner", [])
        fv = [q for q in kids(fk[0]) if q.get("kind") == "VarDecl"]
        fi = strip(kids(fv[0])[0]) if len(fv) == 1 and kids(fv[0]) else {}
        if fi.get("kind") != "IntegerLiteral" or fi.get("value") != "0":
            raise TranslateError("read-back loop does not start at 0")
        env2[fv[0]["name"]] = ("var", nm)
        fc = strip(fk[2])
        if fc.get("kind") != "BinaryOperator" or fc.get("opcode") != "<" or zexpr(kids(fc)[0], env2) != ("var", nm):
            raise TranslateError("read-back loop condition is not `v < bound`")
        bounds.append(zexpr(kids(fc)[1], env))
    l = strip(kids(asg[0])[0])
    o_ks = kids(l)
    col = zexpr(o_ks[2], env2)
    inner = [c for c in find(o_ks[1], lambda q: q.get("kind") == "CXXOperatorCallExpr", [])]
    if len(inner) != 1:
        raise TranslateError("_wakepotential is not subscripted twice")
    row = zexpr(kids(inner[0])[2], env2)
    rets = find(body, lambda q: q.get("kind") == "ReturnStmt", [])
    if len(rets) != 1:
        raise TranslateError("wakePotential() has %d return statements" % len(rets))
    r, off = ptr_of(kids(rets[0])[0], {}, env)
    if r != ("_wakepotential", "data") or simp(off) != ("num", Fraction(0)):
        raise TranslateError("wakePotential() does not return _wakepotential.data()")
    return ext, bounds, row, col


PLACES = [("src/SM/WakePotentialMap.cpp", "WakePotentialMap::update"), ("src/SM/KickMap.cpp", "KickMap::KickMap"),
          ("src/SM/KickMap.cpp", "KickMap::updateSM"), ("src/SM/WakeKickMap.cpp", "WakeKickMap::WakeKickMap"),
          ("src/SM/SourceMap.cpp", "SourceMap::SourceMap"), ("src/PS/ElectricField.cpp", "ElectricField::ElectricField"),
          ("src/PS/ElectricField.cpp", "ElectricField::wakePotential")]


def prefetch():
    """the seven AST dumps in parallel (each is cached on disk by ast_of; a cold cache costs one clang run per place)"""
    from concurrent.futures import ThreadPoolExecutor
    with ThreadPoolExecutor(max_workers=6) as ex:
        list(ex.map(lambda a: ast_of(*a), PLACES))


def translate():
    prefetch()
    ev, cnt, isrc, idst = tr_update()
    km = tr_kickmap_ctor()
    kdx = tr_wakekick_ctor()
    bound, rd, wr = tr_updatesm()
    ext, bounds, row, col = tr_wakepotential()
    out = ["(* GENERATED on every run by translate/wakeupdate2coq.py from WakePotentialMap::update (src/SM/WakePotentialMap.cpp),",
           "   the KickMap and WakeKickMap constructors and KickMap::updateSM (src/SM/KickMap.cpp, src/SM/WakeKickMap.cpp) and",
           "   ElectricField's constructor / wakePotential() (src/PS/ElectricField.cpp). Do not edit. *)",
           "From Coq Require Import ZArith List Bool.", "From Inovesa Require Import Model.RunKinds.",
           "Import ListNotations.", "Local Open Scope Z_scope.",
           "(* WakePotentialMap::update, CPU branch: statements in program order; the i-th copied element *)",
           "Definition wu_prog : list wu_stmt := [%s]." % "; ".join({"copy": "WUCopy", "updatesm": "WUUpdateSM"}[e] for e in ev),
           "Definition wu_count (nb xsize : Z) : Z := %s." % zcoq(cnt),
           "Definition wu_src_idx (nb xsize i : Z) : Z := %s." % zcoq(isrc),
           "Definition wu_dst_idx (nb xsize i : Z) : Z := %s." % zcoq(idst),
           "(* KickMap constructor: kdx = (kd == Axis::x) *)",
           "Definition km_xsize (kdx : bool) (nx ny nb : Z) : Z := %s." % zcoq(km["xsize"]),
           "Definition km_meshsize_kd (kdx : bool) (nx ny nb : Z) : Z := %s." % zcoq(km["_meshsize_kd"]),
           "Definition km_meshsize_pd (kdx : bool) (nx ny nb : Z) : Z := %s." % zcoq(km["_meshsize_pd"]),
           "Definition km_lastbunch (nb : Z) : Z := %s." % zcoq(km["_lastbunch"]),
           "Definition km_offset_size (kd pd nb : Z) : Z := %s." % zcoq(km["offset_size"]),
           "(* WakeKickMap constructor: the direction handed to KickMap *)",
           "Definition wkm_kick_is_x : bool := %s." % ("true" if kdx else "false"),
           "(* KickMap::updateSM: loop bound, the _offset entry iteration i reads, the _hinfo entry it writes for stencil point j1 *)",
           "Definition usm_bound (offset_size ip it : Z) : Z := %s." % zcoq(bound),
           "Definition usm_offset_read (ip it i : Z) : Z := %s." % zcoq(rd),
           "Definition usm_hinfo_write (ip it i j1 : Z) : Z := %s." % zcoq(wr),
           "(* ElectricField: extents of _wakepotential, bounds of the read-back loops, subscripts written; the function returns .data() *)",
           "Definition wp_extent0 (nb nx : Z) : Z := %s." % zcoq(ext[0]),
           "Definition wp_extent1 (nb nx : Z) : Z := %s." % zcoq(ext[1]),
           "Definition wp_bound_b (nb nx : Z) : Z := %s." % zcoq(bounds[0]),
           "Definition wp_bound_x (nb nx : Z) : Z := %s." % zcoq(bounds[1]),
           "Definition wp_row (b x : Z) : Z := %s." % zcoq(row),
           "Definition wp_col (b x : Z) : Z := %s." % zcoq(col)]
    return "\n".join(out) + "\n"


if __name__ == "__main__":
    dst = sys.argv[1] if len(sys.argv) > 1 else os.path.join(VERIF, "coq", "Gen", "Gen_WakeUpdate.v")
    try:
        text = translate()
    except TranslateError as e:
        print("TRANSLATE-ERROR Gen_WakeUpdate: %s" % e)
        sys.exit(2)
    except (KeyError, IndexError, TypeError, AttributeError) as e:
        print("TRANSLATE-ERROR Gen_WakeUpdate: unexpected AST shape (%s: %s)" % (type(e).__name__, e))
        sys.exit(2)
    ch = write_if_changed(dst, text)
    print("Gen_WakeUpdate.v %s" % ("regenerated" if ch else "unchanged"))
