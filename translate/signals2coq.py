#!/usr/bin/env python3
# GEN: Gen_Signals
"""Gen_Signals.v: every place in the repository's sources that can change what a delivered SIGINT does
(C14; strengthening driven by seed C14-H: a dataset write wrapped in signal(SIGINT, SIG_IGN)).

The driver model assumes "signal delivered => Display::abort set".  That holds as long as the handler main()
installs stays installed and SIGINT stays unblocked.  This translator makes the assumption a statement about a
generated list:

 * `signal_sites`: a lexical scan of ALL files under src/ and inc/ (comments, string and character literals and
   `#include` lines removed; preprocessor conditionals are NOT evaluated: code of disabled branches is listed too)
   for the names of the functions that change signal dispositions or masks (SIGFUNCS below).  A name reached through
   `.`/`->` or qualified by anything but `std::` / `::` is a member of something else and skipped.  Each hit becomes
   (file, line, name, is-a-call, arguments as written, where); `where` is `SMainTop i` when the hit IS the i-th
   top-level statement of main() (clang AST of src/main.cpp), `SMainNested i` when it lies inside it, `SElsewhere`
   otherwise.
 * `main_first_point_stmt`: index of the first top-level statement of main() that contains a VERIF_POINT hook.
 * `sigint_handler_body`: the statements of `Display::SIGINT_handler` (clang AST of src/IO/Display.cpp):
   `Display::abort = true;` is `HSetAbortTrue`, anything else `HOther text`.
Fails loudly (TranslateError) when main() or the handler cannot be found.  What the list must look like is NOT decided
here but by `sig_ok` in coq/Model/Signals.v (per-run obligation in Props/Properties_C14.v)."""
import sys, os, re, glob
sys.path.insert(0, os.path.dirname(os.path.abspath(__file__)))
from cxx_ast import *

SIGFUNCS = ("signal", "sigaction", "sigprocmask", "pthread_sigmask", "sigsetmask", "sigblock", "siginterrupt", "sigset",
            "sighold", "sigrelse", "sigignore", "sigpause", "sigsuspend", "sigwait", "sigwaitinfo", "sigtimedwait",
            "signalfd", "bsd_signal", "sysv_signal", "ssignal", "sigvec")
# not listed on purpose: sigemptyset/sigfillset/sigaddset/sigdelset/sigmask only compute a set (it takes one of the functions
# above to install it), sigaltstack changes the stack a handler runs on, raise/kill/pthread_kill SEND signals.


def strip_code(text):
    """source text with comments, string/character literals and #include lines blanked (same length, newlines kept)"""
    out = list(text)
    i, n = 0, len(text)

    def blank(a, b):
        for j in range(a, b):
            if out[j] != "\n":
                out[j] = " "
    while i < n:
        c = text[i]
        if text.startswith("//", i):
            j = text.find("\n", i)
            j = n if j < 0 else j
            blank(i, j)
            i = j
        elif text.startswith("/*", i):
            j = text.find("*/", i + 2)
            j = n if j < 0 else j + 2
            blank(i, j)
            i = j
        elif c == '"' or c == "'":
            # raw strings R"(...)" are not used in this code base; an apostrophe between digits is a digit separator
            if c == "'" and i > 0 and text[i - 1].isalnum() and i + 1 < n and text[i + 1].isalnum() and not (i + 2 < n and text[i + 2] == "'"):
                i += 1
                continue
            j = i + 1
            while j < n and text[j] != c and text[j] != "\n":
                j += 2 if text[j] == "\\" else 1
            blank(i + 1, min(j, n))
            i = j + 1
        else:
            i += 1
    s = "".join(out)
    s = re.sub(r"(?m)^[ \t]*#[ \t]*include[^\n]*", lambda m: " " * len(m.group(0)), s)
    return s


def split_args(s):
    args, depth, cur = [], 0, ""
    for ch in s:
        if ch in "([{":
            depth += 1
        elif ch in ")]}":
            depth -= 1
        if ch == "," and depth == 0:
            args.append(cur)
            cur = ""
        else:
            cur += ch
    if cur.strip() or args:
        args.append(cur)
    return [re.sub(r"\s+", "", a) for a in args]


def scan_file(path):
    """[(line, name, is_call, args, offset)]"""
    text = open(path, errors="replace").read()
    code = strip_code(text)
    res = []
    for m in re.finditer(r"[A-Za-z_][A-Za-z_0-9]*", code):
        name = m.group(0)
        if name not in SIGFUNCS:
            continue
        before = code[:m.start()].rstrip()
        if before.endswith(".") or before.endswith("->"):
            continue
        if before.endswith("::"):
            q = re.search(r"([A-Za-z_][A-Za-z_0-9]*)?\s*::$", before)
            if q and q.group(1) not in (None, "std"):
                continue
        # `struct sigaction sa;` declares a variable of the structure type: not a call, not a mention of the function
        if name == "sigaction" and re.search(r"\bstruct$", before):
            continue
        after = code[m.end():]
        k = len(after) - len(after.lstrip())
        line = code[:m.start()].count("\n") + 1
        if after[k:k + 1] == "(":
            depth, j = 0, k
            while j < len(after):
                if after[j] == "(":
                    depth += 1
                elif after[j] == ")":
                    depth -= 1
                    if depth == 0:
                        break
                j += 1
            res.append((line, name, True, split_args(after[k + 1:j]), m.start()))
        else:
            res.append((line, name, False, [], m.start()))
    return res


def off_of(loc):
    return loc.get("offset", loc.get("expansionLoc", {}).get("offset", loc.get("spellingLoc", {}).get("offset")))


def contains_point(n):
    if n.get("kind") == "CallExpr":
        ks = kids(n)
        c = ks[0] if ks else {}
        while c.get("kind") in ("ImplicitCastExpr", "ParenExpr") and kids(c):
            c = kids(c)[0]
        if c.get("kind") == "DeclRefExpr" and c.get("referencedDecl", {}).get("name") == "point":
            return True
    return any(contains_point(c) for c in kids(n))


def callee_of(n):
    while n.get("kind") in ("ExprWithCleanups", "ImplicitCastExpr", "ParenExpr", "CStyleCastExpr") and len(kids(n)) == 1:
        n = kids(n)[0]
    if n.get("kind") != "CallExpr":
        return None
    c = kids(n)[0]
    while c.get("kind") in ("ImplicitCastExpr", "ParenExpr") and kids(c):
        c = kids(c)[0]
    if c.get("kind") == "DeclRefExpr":
        return c.get("referencedDecl", {}).get("name")
    return None


def cs(s):
    return '"%s"' % s.replace("\\", "/").replace('"', "'")


def translate():
    # main(): top-level statements with their source ranges
    docs = ast_of("src/main.cpp", "main")
    mains = [x for x in docs if x.get("kind") == "FunctionDecl" and x.get("name") == "main"]
    if len(mains) != 1:
        raise TranslateError("%d definitions of main" % len(mains))
    _, body = body_of(mains, "main")
    st = kids(body)
    ranges = []
    for s in st:
        r = s.get("range", {})
        b, e = off_of(r.get("begin", {})), off_of(r.get("end", {}))
        ranges.append((b, e))
    first_point = next((i for i, s in enumerate(st) if contains_point(s)), None)
    if first_point is None:
        raise TranslateError("main() has no VERIF_POINT hook")
    # the handler
    hdocs = ast_of("src/IO/Display.cpp", "SIGINT_handler")
    hs = [d for d in hdocs if d.get("kind") == "CXXMethodDecl" and d.get("name") == "SIGINT_handler"
          and any(c.get("kind") == "CompoundStmt" for c in kids(d))]
    if len(hs) != 1:
        raise TranslateError("%d definitions of Display::SIGINT_handler" % len(hs))
    import mainloop2coq
    hbody = []
    for s in kids([c for c in kids(hs[0]) if c.get("kind") == "CompoundStmt"][0]):
        try:
            t = mainloop2coq.render(s)
        except TranslateError:
            t = s.get("kind", "?")
        hbody.append("HSetAbortTrue" if t == "abort = true" else "HOther %s" % cs(t[:100]))
    sites = []
    files = sorted(glob.glob(os.path.join(REPO, "src", "**", "*.cpp"), recursive=True) +
                   glob.glob(os.path.join(REPO, "src", "**", "*.c"), recursive=True) +
                   glob.glob(os.path.join(REPO, "inc", "**", "*.hpp"), recursive=True) +
                   glob.glob(os.path.join(REPO, "inc", "**", "*.h"), recursive=True))
    for p in files:
        rel = os.path.relpath(p, REPO)
        for (line, name, is_call, args, off) in scan_file(p):
            where = "SElsewhere"
            if rel == os.path.join("src", "main.cpp"):
                # byte offsets of clang vs character offsets of the scan: compare by line
                src = open(p, "rb").read()
                for i, (b, e) in enumerate(ranges):
                    if b is None or e is None:
                        continue
                    lb, le = src[:b].count(b"\n") + 1, src[:e].count(b"\n") + 1
                    if lb <= line <= le:
                        where = "SMainTop %d" % i if (callee_of(st[i]) == name and is_call) else "SMainNested %d" % i
                        break
            sites.append('mksite %s %d %s %s [%s] (%s)' % (cs(rel), line, cs(name), "true" if is_call else "false",
                                                          "; ".join(cs(a) for a in args), where))
    out = []
    out.append("(* GENERATED on every run by translate/signals2coq.py: lexical scan of %d files under src/ and inc/ for" % len(files))
    out.append("   %s;" % ", ".join(SIGFUNCS))
    out.append("   main() and Display::SIGINT_handler from the clang AST. Do not edit. *)")
    out.append("From Coq Require Import List ZArith String.")
    out.append("From Inovesa Require Import Model.Signals.")
    out.append("Import ListNotations.")
    out.append("Local Open Scope string_scope.")
    out.append("Local Open Scope Z_scope.")
    out.append("Definition signal_sites : list sigsite :=\n  [%s]." % ";\n   ".join(sites))
    out.append("(* index of the first top-level statement of main() that contains a VERIF_POINT hook *)")
    out.append("Definition main_first_point_stmt : Z := %d." % first_point)
    out.append("(* body of Display::SIGINT_handler *)")
    out.append("Definition sigint_handler_body : list hstmt := [%s]." % "; ".join(hbody))
    out.append("Definition signal_files_scanned : Z := %d." % len(files))
    return "\n".join(out) + "\n", dict(sites=sites, first_point=first_point, hbody=hbody)


if __name__ == "__main__":
    dst = sys.argv[1] if len(sys.argv) > 1 else os.path.join(VERIF, "coq", "Gen", "Gen_Signals.v")
    try:
        txt, _ = translate()
    except TranslateError as e:
        print("TRANSLATE-ERROR Gen_Signals: %s" % e)
        sys.exit(2)
    ch = write_if_changed(dst, txt)
    print("Gen_Signals.v %s" % ("regenerated" if ch else "unchanged"))
