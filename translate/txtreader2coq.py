#!/usr/bin/env python3
# GEN: Gen_TxtReader
"""Gen_TxtReader.v: the deposit of one particle in makePSFromTXT (src/PS/PhaseSpaceFactory.cpp), read from the
clang JSON AST of /repo's working tree.

Idiom (fails loudly on anything else): the body of the `while (ifs >> xf >> yf)` loop consists of
  T x = std::lround((xf/qmax + 0.5f) * ps_size);      T y = std::lround((yf/pmax + 0.5f) * ps_size);
  if (GUARD) { (*ps)[B][X][Y] += ...; }
where T is an integer type (what the `long` result of lround is converted to: this is what decides whether a
particle left of / below the grid can pass an upper-bound-only guard), GUARD is a conjunction of comparisons
between x, y, ps_size and integer literals, each carried out in `long` (value-preserving promotions only), and
B, X, Y are x, y or integer literals.  Emitted: the conversion kinds of x and y, the guard as a boolean function
over Z and the subscript triple."""
import sys, os
sys.path.insert(0, os.path.dirname(os.path.abspath(__file__)))
from cxx_ast import *

KINDS = {"unsigned int": "CU32", "int": "CS32", "unsigned long": "CU64", "long": "CS64",
         "unsigned long long": "CU64", "long long": "CS64"}


def walk(n):
    yield n
    for c in kids(n):
        yield from walk(c)


def ty(n):
    t = n.get("type", {})
    q = t.get("desugaredQualType") or t.get("qualType") or ""
    return q.replace("const ", "").replace("volatile ", "").strip()


def soft(n):
    """strip wrappers, remembering nothing (used where the conversion is checked separately)"""
    while n.get("kind") in ("ImplicitCastExpr", "ParenExpr", "ExprWithCleanups", "MaterializeTemporaryExpr",
                            "CXXBindTemporaryExpr", "CXXStaticCastExpr", "CStyleCastExpr", "CXXFunctionalCastExpr",
                            "ConstantExpr"):
        ks = kids(n)
        if len(ks) != 1:
            raise TranslateError("wrapper with %d children" % len(ks))
        n = ks[0]
    return n


def is_half(n):
    n = soft(n)
    return n.get("kind") == "FloatingLiteral" and Fraction(n["value"]) == Fraction(1, 2)


def refname(n):
    n = soft(n)
    if n.get("kind") == "DeclRefExpr":
        return n["referencedDecl"]["name"]
    return None


def coord_decl(vd, want_var):
    """T v = lround((c/cmax + 0.5f) * ps_size) -> (kind, c, cmax)"""
    t = ty(vd)
    if t not in KINDS:
        raise TranslateError("%s is declared with type '%s' (not an integer type this translator knows)" % (vd["name"], t))
    init = kids(vd)[-1]
    call = soft(init)
    if call.get("kind") != "CallExpr" or refname(kids(call)[0]) != "lround":
        raise TranslateError("%s is not initialised by a call of lround" % vd["name"])
    if ty(call) != "long":
        raise TranslateError("lround result type %s" % ty(call))
    arg = kids(call)[1]
    if ty(arg) != "float":
        raise TranslateError("lround argument is computed in %s, not float" % ty(arg))
    m = soft(arg)
    if m.get("kind") != "BinaryOperator" or m.get("opcode") != "*":
        raise TranslateError("lround argument is not a product")
    a, b = kids(m)
    if refname(a) == "ps_size":
        a, b = b, a
    if refname(b) != "ps_size":
        raise TranslateError("the product's second factor is not ps_size")
    s = soft(a)
    if s.get("kind") != "BinaryOperator" or s.get("opcode") != "+":
        raise TranslateError("first factor is not a sum")
    p, q = kids(s)
    if is_half(p):
        p, q = q, p
    if not is_half(q):
        raise TranslateError("the summand is not the literal 0.5")
    d = soft(p)
    if d.get("kind") != "BinaryOperator" or d.get("opcode") != "/":
        raise TranslateError("first summand is not a quotient")
    c, cmax = (refname(k) for k in kids(d))
    if c is None or cmax is None:
        raise TranslateError("quotient operands are not plain variables")
    return KINDS[t], c, cmax


RANGE = {"unsigned int": (0, 2 ** 32 - 1), "int": (-2 ** 31, 2 ** 31 - 1), "long": (-2 ** 63, 2 ** 63 - 1),
         "long long": (-2 ** 63, 2 ** 63 - 1), "unsigned long": (0, 2 ** 64 - 1), "unsigned long long": (0, 2 ** 64 - 1)}


def int_operand(n, kinds):
    """operand of a guard comparison: x / y / ps_size / literal.  The comparison is carried out in the type the operand
    has after the usual arithmetic conversions; the translation to Z is only valid when that conversion preserves the
    value (a literal: its value fits; a variable: the target range contains the source range)"""
    tcmp = ty(n)
    if tcmp not in RANGE:
        raise TranslateError("a guard comparison is carried out in '%s'" % tcmp)
    lo, hi = RANGE[tcmp]
    s = soft(n)
    if s.get("kind") == "IntegerLiteral":
        v = int(s["value"])
        if not lo <= v <= hi:
            raise TranslateError("literal %d does not fit the comparison type %s" % (v, tcmp))
        return str(v) if v >= 0 else "(%d)" % v
    if s.get("kind") == "DeclRefExpr":
        nm = s["referencedDecl"]["name"]
        ts = ty(s)
        if ts not in RANGE or not (lo <= RANGE[ts][0] and RANGE[ts][1] <= hi):
            raise TranslateError("%s of type %s is compared as %s: not a value-preserving conversion" % (nm, ts, tcmp))
        if nm in ("x", "y"):
            return nm
        if nm == "ps_size":
            return "n"
        raise TranslateError("guard mentions %s" % nm)
    raise TranslateError("guard operand of kind %s" % s.get("kind"))


def guard_expr(n, kinds, neg=False):
    """boolean expression over the (integer) coordinate variables; with neg its negation, pushed to the comparisons
    (`!(a && b)` = `!a || !b`, `!(x < n)` = `n <= x`: the operands are integers)"""
    s = soft(n)
    if s.get("kind") == "UnaryOperator" and s.get("opcode") == "!":
        return guard_expr(kids(s)[0], kinds, not neg)
    if s.get("kind") != "BinaryOperator":
        raise TranslateError("guard is not built from binary operators")
    op = s["opcode"]
    a, b = kids(s)
    if op in ("&&", "||"):
        if neg:
            op = "||" if op == "&&" else "&&"
        return "(%s %s %s)" % (guard_expr(a, kinds, neg), op, guard_expr(b, kinds, neg))
    if op in ("<", "<=", ">", ">="):
        l, r = int_operand(a, kinds), int_operand(b, kinds)
        if op in (">", ">="):
            l, r, op = r, l, {">": "<", ">=": "<="}[op]
        if neg:                      # not (l < r) = r <= l ; not (l <= r) = r < l
            l, r, op = r, l, {"<": "<=", "<=": "<"}[op]
        return "(%s %s? %s)" % (l, op, r)
    raise TranslateError("guard operator %s" % op)


def subscripts(n):
    """(*ps)[B][X][Y] -> [B, X, Y]"""
    res = []
    cur = soft(n)
    while cur.get("kind") == "CXXOperatorCallExpr" and refname(kids(cur)[0]) == "operator[]":
        ks = kids(cur)
        a = soft(ks[2])
        if a.get("kind") == "IntegerLiteral":
            res.append(str(int(a["value"])))
        elif a.get("kind") == "DeclRefExpr" and a["referencedDecl"]["name"] in ("x", "y"):
            if ty(a) not in KINDS:
                raise TranslateError("subscript variable of type %s" % ty(a))
            res.append(a["referencedDecl"]["name"])
        else:
            raise TranslateError("subscript of kind %s" % a.get("kind"))
        cur = soft(ks[1])
    if len(res) != 3:
        raise TranslateError("the deposit does not have three subscripts")
    return list(reversed(res))


def main():
    dst = sys.argv[1]
    docs = ast_of("src/PS/PhaseSpaceFactory.cpp", "makePSFromTXT")
    _, body = body_of(docs, "makePSFromTXT")
    loops = [n for n in walk(body) if n.get("kind") == "WhileStmt"]
    if len(loops) != 1:
        raise TranslateError("expected exactly one while loop, found %d" % len(loops))
    lb = kids(loops[0])[-1]
    if lb.get("kind") != "CompoundStmt":
        raise TranslateError("loop body is not a block")
    decls, ifs, tail = {}, [], []
    for st in kids(lb):
        k = st.get("kind")
        if k == "DeclStmt":
            for vd in kids(st):
                if vd.get("kind") != "VarDecl" or vd["name"] not in ("x", "y") or vd["name"] in decls:
                    raise TranslateError("unexpected declaration in the loop body")
                decls[vd["name"]] = coord_decl(vd, vd["name"])
        elif k == "IfStmt":
            if tail:
                raise TranslateError("an if statement after the deposit")
            ifs.append(st)
        elif ifs:
            tail.append(st)          # only meaningful after `if (..) continue;`
        else:
            raise TranslateError("unexpected statement of kind %s in the loop body" % k)
    if set(decls) != {"x", "y"} or len(ifs) != 1:
        raise TranslateError("loop body is not `x = ..; y = ..; if (..) {..}`")
    if (decls["x"][1], decls["y"][1]) != ("xf", "yf") or (decls["x"][2], decls["y"][2]) != ("qmax", "pmax"):
        raise TranslateError("coordinates are not computed from (xf, qmax) and (yf, pmax): %s" % (decls,))
    ik = kids(ifs[0])
    if len(ik) != 2:
        raise TranslateError("the deposit's if has an else branch or an init statement")
    kinds = {v: decls[v][0] for v in decls}
    then = ik[1]
    sts = kids(then) if then.get("kind") == "CompoundStmt" else [then]
    if len(sts) != 1:
        raise TranslateError("the guarded block has %d statements" % len(sts))
    if sts[0].get("kind") == "ContinueStmt":
        # `if (outside) continue; deposit;` - the deposit is guarded by the negated test
        if len(tail) != 1:
            raise TranslateError("after `if (..) continue;` expected exactly the deposit, found %d statements" % len(tail))
        g = guard_expr(ik[0], kinds, True)
        sts = tail
    else:
        if tail:
            raise TranslateError("statements after the guarded deposit")
        g = guard_expr(ik[0], kinds)
    ca = soft(sts[0])
    if ca.get("kind") != "CompoundAssignOperator" or ca.get("opcode") != "+=":
        raise TranslateError("the guarded statement is not a += deposit")
    b, x, y = subscripts(kids(ca)[0])
    txt = """(** GENERATED by translate/txtreader2coq.py from makePSFromTXT (src/PS/PhaseSpaceFactory.cpp) - do not edit. *)
From Coq Require Import ZArith Bool.
From Inovesa Require Import Model.TxtReader.
Local Open Scope Z_scope.

(** declared integer type of the coordinate variables (target of the conversion of lround's long) *)
Definition txt_x_kind : conv_kind := %s.
Definition txt_y_kind : conv_kind := %s.
(** `if (...)` around the deposit, comparisons in long; [n] is ps_size *)
Definition txt_guard (x y n : Z) : bool := %s.
(** subscripts of ps[.][.][.] *)
Definition txt_index (x y : Z) : Z * Z * Z := (%s, %s, %s).
""" % (kinds["x"], kinds["y"], g, b, x, y)
    print("regenerated" if write_if_changed(dst, txt) else "unchanged")


if __name__ == "__main__":
    try:
        main()
    except TranslateError as e:
        print("TRANSLATE-ERROR Gen_TxtReader: %s" % e)
        sys.exit(1)
