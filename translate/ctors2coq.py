#!/usr/bin/env python3
# GEN: Gen_Ctors
"""Gen_Ctors.v from the mem-initialiser lists of RFKickMap (src/SM/RFKickMap.cpp) and
DynamicRFKickMap (src/SM/DynamicRFKickMap.cpp).

Idiom read (DESIGN 2.2 / 5-C19):
 * every constructor *definition* of `RFKickMap`: parameter names in order; for each
   CXXCtorInitializer the member name and the right-hand side classified as
   parameter / bool literal / integer literal / other; the arguments of the `KickMap(...)` base
   initialiser become pseudo members KickMap#0.. .
 * every constructor definition of `DynamicRFKickMap`: parameter names; the `RFKickMap(...)`
   base initialiser, each argument of which must be a plain parameter of the constructor (after
   dropping implicit conversions and the copy of a shared_ptr), and the constructor type clang
   resolved the call to (`ctorType`), which is matched against the RFKickMap constructors to give
   `dc_clang`; the arithmetic initialisers of _phasenoise/_amplnoise/_modampl/_modtimedelta as
   expressions over a generic field with `sqrt` and `two_pi` abstract.
The constructor with a parameter `angle` is the one for linear RF, the one with `V_RF` the
sinusoidal one (as their doc comments say); anything else fails loudly."""
import sys, os
sys.path.insert(0, os.path.dirname(os.path.abspath(__file__)))
from cxx_ast import *

WRAP = ("ImplicitCastExpr", "ParenExpr", "CXXFunctionalCastExpr", "CStyleCastExpr", "CXXStaticCastExpr",
        "ExprWithCleanups", "MaterializeTemporaryExpr", "CXXBindTemporaryExpr", "ConstantExpr")


def ctor_defs(docs, cls):
    res = []
    for d in docs:
        if d.get("kind") == "CXXConstructorDecl" and d.get("name") == cls and \
                any(c.get("kind") == "CompoundStmt" for c in kids(d)):
            res.append(d)
    return res


def params_of(d):
    return [c["name"] for c in kids(d) if c.get("kind") == "ParmVarDecl"]


def param_ref(n, params, casts=None):
    """the parameter an argument expression denotes, or None; value-changing implicit
    conversions met on the way are appended to casts"""
    while True:
        k = n.get("kind")
        if k in WRAP or (k == "CXXConstructExpr" and len(kids(n)) == 1):
            ck = n.get("castKind")
            if casts is not None and ck in ("IntegralToFloating", "FloatingToIntegral", "FloatingCast",
                                            "IntegralCast", "IntegralToBoolean", "FloatingToBoolean"):
                casts.append(ck)
            ks = kids(n)
            if len(ks) != 1:
                return None
            n = ks[0]
            continue
        if k == "DeclRefExpr" and n["referencedDecl"].get("kind") == "ParmVarDecl" and \
                n["referencedDecl"]["name"] in params:
            return n["referencedDecl"]["name"]
        return None


def classify(n, params):
    p = param_ref(n, params)
    if p is not None:
        return 'IParam "%s"' % p
    m = n
    while m.get("kind") in WRAP and len(kids(m)) == 1:
        m = kids(m)[0]
    if m.get("kind") == "CXXBoolLiteralExpr":
        return "IBool %s" % ("true" if m["value"] else "false")
    if m.get("kind") == "IntegerLiteral":
        return "INum %s" % m["value"]
    return "IOther"


def inits_of(d):
    return [c for c in kids(d) if c.get("kind") == "CXXCtorInitializer"]


def base_ctor(d):
    ps = params_of(d)
    inits = []
    for c in inits_of(d):
        ks = kids(c)
        if "baseInit" in c:
            bname = c["baseInit"]["qualType"].split("::")[-1]
            ce = ks[0]
            while ce.get("kind") in WRAP and len(kids(ce)) == 1:
                ce = kids(ce)[0]
            if ce.get("kind") != "CXXConstructExpr":
                raise TranslateError("base initialiser of RFKickMap is not a constructor call")
            for i, a in enumerate(kids(ce)):
                inits.append(("%s#%d" % (bname, i), classify(a, ps)))
        elif "anyInit" in c:
            if len(ks) != 1:
                raise TranslateError("initialiser of %s has %d expressions" % (c["anyInit"]["name"], len(ks)))
            inits.append((c["anyInit"]["name"], classify(ks[0], ps)))
        else:
            raise TranslateError("initialiser kind not understood")
    return ps, inits, d["type"]["qualType"]


ARITH_MEMBERS = ["_phasenoise", "_amplnoise", "_modampl", "_modtimedelta"]


def call_hook(n, env):
    ks = kids(n)
    callee = ks[0]
    while callee.get("kind") in WRAP and len(kids(callee)) == 1:
        callee = kids(callee)[0]
    nm = callee.get("referencedDecl", {}).get("name")
    if nm == "sqrt" and len(ks) == 2:
        return ("var", "(fsqrt %s)" % ir_coq(to_ir(ks[1], env, call_hook)))
    if nm == "two_pi" and len(ks) == 1:
        return ("var", "two_pi")
    return None


def to_ir_calls(n, env):
    """cxx_ast.to_ir passes the hook only at the top; recurse by hand for binary operators"""
    m = strip(n)
    k = m.get("kind")
    if k == "BinaryOperator":
        op = {"+": "add", "-": "sub", "*": "mul", "/": "div"}.get(m["opcode"])
        if not op:
            raise TranslateError("binary %s" % m["opcode"])
        a, b = kids(m)
        return (op, to_ir_calls(a, env), to_ir_calls(b, env))
    if k == "CallExpr":
        r = call_hook(m, env)
        if r is None:
            raise TranslateError("call not understood in a member initialiser")
        return r
    if k == "UnaryOperator" and m["opcode"] == "-":
        return ("neg", to_ir_calls(kids(m)[0], env))
    return to_ir(m, env)


def dyn_ctor(d, base_types):
    ps = params_of(d)
    args = casts = clang = None
    arith = {}
    env = {p: ("var", '(env "%s")' % p) for p in ps}
    for c in inits_of(d):
        ks = kids(c)
        if "baseInit" in c:
            if c["baseInit"]["qualType"].split("::")[-1] != "RFKickMap":
                raise TranslateError("DynamicRFKickMap base is %s" % c["baseInit"]["qualType"])
            ce = ks[0]
            while ce.get("kind") in WRAP and len(kids(ce)) == 1:
                ce = kids(ce)[0]
            if ce.get("kind") != "CXXConstructExpr":
                raise TranslateError("RFKickMap initialiser is not a constructor call")
            ct = ce["ctorType"]["qualType"]
            if ct not in base_types:
                raise TranslateError("clang resolved RFKickMap(...) to an unknown constructor: %s" % ct)
            clang = base_types.index(ct)
            args, casts = [], []
            for a in kids(ce):
                cs = []
                p = param_ref(a, ps, cs)
                if p is None:
                    raise TranslateError("an argument of RFKickMap(...) is not a plain constructor parameter")
                args.append(p)
                casts += [(p, x) for x in cs if x != "FloatingCast"]
        elif c.get("anyInit", {}).get("name") in ARITH_MEMBERS:
            arith[c["anyInit"]["name"]] = to_ir_calls(ks[0], env)
    if args is None:
        raise TranslateError("DynamicRFKickMap constructor without RFKickMap(...) initialiser")
    missing = [m for m in ARITH_MEMBERS if m not in arith]
    if missing:
        raise TranslateError("members not initialised in the initialiser list: %s" % missing)
    return dict(params=ps, args=args, clang=clang, casts=casts, arith=arith)


def sl(l):
    return "[" + "; ".join('"%s"' % x for x in l) + "]"


def translate():
    bdocs = ast_of("src/SM/RFKickMap.cpp", "RFKickMap")
    bases = [base_ctor(d) for d in ctor_defs(bdocs, "RFKickMap")]
    if not bases:
        raise TranslateError("no RFKickMap constructor definition found")
    btypes = [b[2] for b in bases]
    if len(set(btypes)) != len(btypes):
        raise TranslateError("two RFKickMap constructors of the same type")
    ddocs = ast_of("src/SM/DynamicRFKickMap.cpp", "DynamicRFKickMap")
    dyns = [dyn_ctor(d, btypes) for d in ctor_defs(ddocs, "DynamicRFKickMap")]
    lin = [d for d in dyns if "angle" in d["params"] and "V_RF" not in d["params"]]
    sin = [d for d in dyns if "V_RF" in d["params"] and "angle" not in d["params"]]
    if len(dyns) != 2 or len(lin) != 1 or len(sin) != 1:
        raise TranslateError("expected one DynamicRFKickMap constructor with `angle` and one with `V_RF`, found %d/%d of %d"
                             % (len(lin), len(sin), len(dyns)))
    out = []
    out.append("(* GENERATED on every run by translate/ctors2coq.py from src/SM/RFKickMap.cpp and")
    out.append("   src/SM/DynamicRFKickMap.cpp (constructor mem-initialiser lists). Do not edit. *)")
    out.append("From Coq Require Import List String ZArith.")
    out.append("From Inovesa Require Import Base.FieldKit Model.Ctors.")
    out.append("Import ListNotations.")
    out.append("Local Open Scope string_scope.")
    out.append("")
    out.append("Definition rfkick_ctors : list base_ctor :=")
    items = []
    for ps, inits, ty in bases:
        items.append("  mkBase %s\n    [%s]" % (sl(ps), ";\n     ".join('("%s", %s)' % (m, e.replace("INum ", "INum (") + (")" if e.startswith("INum") else "")) for m, e in inits)))
    out.append("  [" + ";\n  ".join(items) + "].")
    out.append("")
    for nm, d in (("dyn_linear", lin[0]), ("dyn_sinusoidal", sin[0])):
        out.append("Definition %s : dyn_ctor :=\n  mkDyn %s\n    %s\n    %d." % (nm, sl(d["params"]), sl(d["args"]), d["clang"]))
        out.append("(* value-changing implicit conversions clang inserted at the forwarded arguments *)")
        out.append("Definition %s_casts : list (string * string) := [%s]." % (nm, "; ".join('("%s", "%s")' % c for c in d["casts"])))
        out.append("")
    out.append("Section GenArith.")
    out.append("  Variable K : Fld.")
    out.append("  Variable fsqrt : K -> K.")
    out.append("  Variable two_pi : K.")
    out.append("  Local Open Scope F_scope.")
    for nm, d in (("dyn_linear", lin[0]), ("dyn_sinusoidal", sin[0])):
        for m in ARITH_MEMBERS:
            out.append("  Definition %s%s (env : string -> K) : K := %s." % (nm, m, ir_coq(d["arith"][m])))
    out.append("End GenArith.")
    return "\n".join(out) + "\n"


if __name__ == "__main__":
    dst = sys.argv[1] if len(sys.argv) > 1 else os.path.join(VERIF, "coq", "Gen", "Gen_Ctors.v")
    try:
        text = translate()
    except TranslateError as e:
        print("TRANSLATE-ERROR Gen_Ctors: %s" % e)
        sys.exit(2)
    ch = write_if_changed(dst, text)
    print("Gen_Ctors.v %s" % ("regenerated" if ch else "unchanged"))
