"""Shared helpers for the translators: clang JSON AST of one function of /repo's working
tree, and a small arithmetic-expression IR that is printed as a Gallina term over a generic
field (notation scope F_scope of Base/FieldKit.v).

A translator recognises a narrow idiom and raises TranslateError when the source no longer has
that shape (DESIGN 2.2): a failed translation is never silently ignored."""
import json, os, subprocess, sys, hashlib
from fractions import Fraction

REPO = os.environ.get("VERIF_REPO", "/repo")
VERIF = os.path.dirname(os.path.dirname(os.path.abspath(__file__)))
CACHE = os.path.join(VERIF, ".cache")

DEFS = ["-DINOVESA_ENABLE_INTERRUPT=1", "-DINOVESA_USE_HDF5=1", "-DINOVESA_USE_OPENCL=0",
        "-DINOVESA_USE_OPENGL=0", "-DINOVESA_USE_PNG=0", '-DGIT_BRANCH="verif"',
        '-DGIT_COMMIT="worktree"', "-DINOVESA_INOVESA_VERIF"]


class TranslateError(Exception):
    pass


def _cfgdir():
    sys.path.insert(0, os.path.join(VERIF, "lib"))
    import vp_build
    return vp_build.gen_config(os.path.join(CACHE, "cfg", vp_build.headers_hash()[:16]))


def ast_of(src_rel, filt):
    """All top-level declarations named `filt` found while parsing src_rel (cached by content)."""
    src = os.path.join(REPO, src_rel)
    sys.path.insert(0, os.path.join(VERIF, "lib"))
    import vp_build
    key = hashlib.sha1((vp_build.headers_hash() + filt).encode() + open(src, "rb").read()).hexdigest()
    cdir = os.path.join(CACHE, "ast")
    os.makedirs(cdir, exist_ok=True)
    cfile = os.path.join(cdir, key + ".json")
    if os.path.exists(cfile):
        with open(cfile) as f:
            return json.load(f)
    cmd = ["clang++", "-std=c++14", "-fsyntax-only", "-I" + _cfgdir(), "-I" + os.path.join(REPO, "inc"),
           "-I/usr/include/hdf5/serial"] + DEFS + ["-Xclang", "-ast-dump=json", "-Xclang",
           "-ast-dump-filter=" + filt, src]
    r = subprocess.run(cmd, capture_output=True, text=True, timeout=300)
    if r.returncode != 0 and not r.stdout.strip():
        raise TranslateError("clang failed on %s: %s" % (src_rel, r.stderr[-2000:]))
    docs = []
    dec = json.JSONDecoder()
    s = r.stdout
    i = 0
    while i < len(s):
        while i < len(s) and s[i] in " \n\r\t":
            i += 1
        if i >= len(s):
            break
        d, i = dec.raw_decode(s, i)
        docs.append(d)
    with open(cfile + ".tmp", "w") as f:
        json.dump(docs, f)
    os.replace(cfile + ".tmp", cfile)
    return docs


def body_of(docs, name=None):
    for d in docs:
        if d.get("kind") in ("CXXMethodDecl", "FunctionDecl", "CXXConstructorDecl"):
            if name and d.get("name") != name:
                continue
            for c in d.get("inner", []):
                if c.get("kind") == "CompoundStmt":
                    return d, c
    raise TranslateError("no definition with a body found for %s" % name)


def kids(n):
    return [c for c in n.get("inner", []) if c]


def strip(n):
    """Drop wrappers that do not change the value in exact arithmetic."""
    while True:
        k = n.get("kind")
        if k in ("ImplicitCastExpr", "ParenExpr", "CXXFunctionalCastExpr", "CStyleCastExpr",
                 "CXXStaticCastExpr", "ExprWithCleanups", "MaterializeTemporaryExpr",
                 "CXXBindTemporaryExpr", "ConstantExpr"):
            ck = n.get("castKind")
            if ck in ("FloatingToIntegral", "FloatingToBoolean", "IntegralToBoolean"):
                raise TranslateError("value-changing cast %s" % ck)
            ks = kids(n)
            if len(ks) != 1:
                raise TranslateError("wrapper with %d children: %s" % (len(ks), k))
            n = ks[0]
        else:
            return n


# ---------------------------------------------------------------------------------------
# IR: ('num', Fraction) ('var', name) ('neg', a) ('add'|'sub'|'mul'|'div', a, b)

def to_ir(n, env, member_ok=None):
    n = strip(n)
    k = n.get("kind")
    if k == "IntegerLiteral":
        return ("num", Fraction(int(n["value"])))
    if k == "FloatingLiteral":
        return ("num", Fraction(n["value"]))
    if k == "DeclRefExpr":
        nm = n["referencedDecl"]["name"]
        if nm in env:
            return env[nm]
        raise TranslateError("unknown variable %s" % nm)
    if k == "MemberExpr":
        nm = n.get("name")
        if nm in env:
            return env[nm]
        raise TranslateError("unknown member %s" % nm)
    if k == "UnaryOperator":
        a = to_ir(kids(n)[0], env)
        if n["opcode"] == "-":
            return ("neg", a)
        if n["opcode"] == "+":
            return a
        raise TranslateError("unary %s" % n["opcode"])
    if k == "BinaryOperator":
        op = {"+": "add", "-": "sub", "*": "mul", "/": "div"}.get(n["opcode"])
        if not op:
            raise TranslateError("binary %s" % n["opcode"])
        a, b = kids(n)
        return (op, to_ir(a, env), to_ir(b, env))
    if k in ("CXXMemberCallExpr", "CallExpr", "CXXOperatorCallExpr"):
        if member_ok:
            r = member_ok(n, env)
            if r is not None:
                return r
        raise TranslateError("call not understood: %s" % json.dumps(n)[:200])
    raise TranslateError("expression kind %s" % k)


def _posterm(m):
    """positive integer as sums/products of ones (so that ring/field see a constant)"""
    if m == 1:
        return "1"
    if m == 2:
        return "(1+1)"
    if m == 3:
        return "(1+(1+1))"
    if m % 2 == 0:
        return "((1+1)*%s)" % _posterm(m // 2)
    return "(1+(1+1)*%s)" % _posterm(m // 2)


def num_coq(q):
    if q == 0:
        return "0"
    s = _posterm(abs(q.numerator))
    if q.denominator != 1:
        s = "(%s/%s)" % (s, _posterm(q.denominator))
    return s if q > 0 else "(- (%s))" % s


def ir_coq(e):
    t = e[0]
    if t == "num":
        return num_coq(e[1])
    if t == "var":
        return e[1]
    if t == "neg":
        return "(- (%s))" % ir_coq(e[1])
    op = {"add": "+", "sub": "-", "mul": "*", "div": "/"}[t]
    return "(%s %s %s)" % (ir_coq(e[1]), op, ir_coq(e[2]))


def ir_eval(e, env):
    t = e[0]
    if t == "num":
        return e[1]
    if t == "var":
        return env[e[1]]
    if t == "neg":
        return -ir_eval(e[1], env)
    a, b = ir_eval(e[1], env), ir_eval(e[2], env)
    return {"add": a + b, "sub": a - b, "mul": a * b, "div": a / b}[t]


def write_if_changed(path, text):
    os.makedirs(os.path.dirname(path), exist_ok=True)
    if os.path.exists(path):
        with open(path) as f:
            if f.read() == text:
                return False
    with open(path, "w") as f:
        f.write(text)
    return True
