#!/usr/bin/env python3
# GEN: Gen_Wisdom
"""Gen_Wisdom.v from src/FFTWWrapper.cpp and src/IO/FSPath.cpp: the FFT-wisdom logic of fft::prepareFFT
(C12, "FFT plans taken from stored wisdom"; strengthening driven by seed F1-I).

Read off the clang JSON AST, for EVERY definition of `prepareFFT` (syntax of coq/Model/Wisdom.v):
 * `<plan type> plan = nullptr;` first, `return plan;` last;
 * the file name: ONE `std::stringstream` local fed by ONE `<<` chain of string literals, the parameter `n` and at most one
   `char` local that an `if (direction == backward) .. else ..` before sets to a character literal in each branch; the
   chain must read `wisdom_<kind>_<n>.fftw` -> the kinds of the overload (one, or one per direction);
 * the path: `vfps::FSPath p(vfps::FSPath::datapath()); p.append("fftwisdom/" + <name>.str());` -> `PFSPathAppend`, or
   `vfps::FSPath p(vfps::FSPath::datapath() + "fftwisdom/" + <name>.str());` -> `PFSPathFull` (the constructor validates
   like append); nothing else may touch `p` but `.c_str()` / `.str()`.  These are the ONLY forms understood: a path that is a
   plain string - whatever builds it - creates no directory, and is refused;
 * `if (fftw[f]_import_wisdom_from_filename(p.c_str()) != 0) { plan = fftw[f]_plan_..(.., FLAGS); }` -> `WImportThen [..]`;
 * `if (plan == nullptr) { plan = fftw[f]_plan_..(.., FLAGS); fftw[f]_export_wisdom_to_filename(p.c_str());
   Display::printText(..); }` -> `WIfNoPlan [..]` (statements in source order);
   FLAGS is evaluated as an integer constant: FFTW_WISDOM_ONLY (1<<21) -> `WPlan true`, else `WPlan false`; FFTW_ESTIMATE
   (1<<6) absent -> the planner measures run times (`wisdom_planner_timed`);
 * the precision of import / export / plan functions (`fftw_` / `fftwf_`) must be the same within one overload;
 * src/IO/FSPath.cpp: the constructor is `: _path(expand_user(path)) { validateDirectory(_path); }`, `FSPath::append` is `_path /= path; validateDirectory(_path); return *this;` and
   `validateDirectory` creates `path.parent_path()` (or `path` itself when it ends in '/') when `path` does not exist
   -> `fspath_ctor_validates`, `fspath_append_validates`, `fspath_validate_creates_parent`.
Fails loudly (TranslateError) on any other statement of prepareFFT, a path built any other way, an import / export that
names another path variable, a second assignment of `plan` outside the two ifs."""
import sys, os, re
sys.path.insert(0, os.path.dirname(os.path.abspath(__file__)))
from cxx_ast import *
from mainloop2coq import text_of, unwrap, callee_name, root_var

WISDOM_ONLY, ESTIMATE = 1 << 21, 1 << 6


def const_int(n):
    n = unwrap(n)
    k = n.get("kind")
    if k == "IntegerLiteral":
        return int(n["value"])
    if k == "BinaryOperator" and n.get("opcode") in ("|", "<<", "+", "&"):
        a, b = (const_int(c) for c in kids(n))
        return {"|": a | b, "<<": a << b, "+": a + b, "&": a & b}[n["opcode"]]
    raise TranslateError("planner flags are not an integer constant: %s" % (text_of(n) or k))


def fn_call(n):
    """(function name, args) of a plain call, else None"""
    n = unwrap(n)
    if n.get("kind") != "CallExpr":
        return None
    return callee_name(kids(n)[0]), [c for c in kids(n)[1:] if c.get("kind") != "CXXDefaultArgExpr"]


def member_call(n):
    """(object variable, method, args) of `v.m(args)`, else None"""
    n = unwrap(n)
    if n.get("kind") != "CXXMemberCallExpr" or kids(n)[0].get("kind") != "MemberExpr":
        return None
    c = kids(n)[0]
    obj = unwrap(kids(c)[0]) if kids(c) else {}
    if obj.get("kind") != "DeclRefExpr":
        return None
    return obj["referencedDecl"].get("name"), c.get("name"), [a for a in kids(n)[1:] if a.get("kind") != "CXXDefaultArgExpr"]


def chain(n, acc):
    """operands of a `<<` chain, leftmost first"""
    n = unwrap(n)
    if n.get("kind") == "CXXOperatorCallExpr" and callee_name(kids(n)[0]) == "operator<<" and len(kids(n)) == 3:
        chain(kids(n)[1], acc)
        acc.append(kids(n)[2])
        return acc
    acc.append(n)
    return acc


class Prep:
    def __init__(self, fd, body):
        self.fd, self.body = fd, body
        self.sig = fd.get("type", {}).get("qualType", "?")
        self.prec = None          # "fftw_" / "fftwf_"
        self.planvar = self.pathvar = self.namevar = None
        self.chars = {}           # char local -> [values by branch]
        self.kinds, self.stmts, self.timed = [], [], []

    def precision(self, fname):
        m = re.match(r"^(fftwf?_)", fname or "")
        if not m:
            raise TranslateError("%s: `%s` is not an FFTW function" % (self.sig, fname))
        if self.prec not in (None, m.group(1)):
            raise TranslateError("%s mixes %s... and %s... functions" % (self.sig, self.prec, m.group(1)))
        self.prec = m.group(1)

    def path_arg(self, a, what):
        mc = member_call(a)
        if not mc or mc[0] != self.pathvar or mc[1] != "c_str" or mc[2]:
            raise TranslateError("%s: %s is not called with %s.c_str() but with %s" % (self.sig, what, self.pathvar, text_of(a)))

    def plan_assign(self, s):
        """`plan = fftw_plan_..(.., FLAGS)` -> WPlan b"""
        s = unwrap(s)
        if s.get("kind") != "BinaryOperator" or s.get("opcode") != "=" or root_var(kids(s)[0]) != self.planvar:
            return None
        fc = fn_call(kids(s)[1])
        if not fc or not re.match(r"^fftwf?_plan_dft(_r2c|_c2r)?_1d$", fc[0] or ""):
            raise TranslateError("%s: `%s` is assigned something that is no 1d plan: %s" % (self.sig, self.planvar, text_of(s)))
        self.precision(fc[0])
        if text_of(fc[1][0]) != "n":
            raise TranslateError("%s: the plan is made for length %s, the wisdom file is named after n" % (self.sig, text_of(fc[1][0])))
        flags = const_int(fc[1][-1])
        self.timed.append(not (flags & ESTIMATE))
        return "WPlan %s" % ("true" if flags & WISDOM_ONLY else "false")

    def simple(self, s):
        w = self.plan_assign(s)
        if w:
            return w
        fc = fn_call(s)
        if fc and re.match(r"^fftwf?_export_wisdom_to_filename$", fc[0] or ""):
            self.precision(fc[0])
            self.path_arg(fc[1][0], fc[0])
            return "WExport"
        if fc and fc[0] == "printText":
            return "WLog"
        raise TranslateError("%s: statement not understood: %s" % (self.sig, (text_of(s) or s.get("kind"))[:160]))

    def simples(self, n):
        ss = kids(n) if n.get("kind") == "CompoundStmt" else [n]
        return [self.simple(s) for s in ss if s.get("kind") != "NullStmt"]

    def run(self):
        st = [s for s in kids(self.body) if s.get("kind") != "NullStmt"]
        if not st or st[-1].get("kind") != "ReturnStmt":
            raise TranslateError("%s does not end in return" % self.sig)
        for s in st[:-1]:
            self.stmt(s)
        if text_of(kids(st[-1])[0]) != self.planvar:
            raise TranslateError("%s returns %s, not the plan" % (self.sig, text_of(kids(st[-1])[0])))
        if self.pathvar is None or not self.kinds:
            raise TranslateError("%s: no wisdom path / file name found" % self.sig)
        if not any(x.startswith("WImportThen") for x in self.stmts) or not any(x.startswith("WIfNoPlan") for x in self.stmts):
            raise TranslateError("%s: import-if or create-if missing: %s" % (self.sig, self.stmts))
        return self

    def stmt(self, s):
        k = s.get("kind")
        if k == "DeclStmt":
            for v in kids(s):
                nm, qt = v.get("name"), v.get("type", {}).get("qualType", "")
                ini = kids(v)[0] if kids(v) else None
                if qt in ("fftw_plan", "fftwf_plan"):
                    if self.planvar or ini is None or unwrap(ini).get("kind") != "CXXNullPtrLiteralExpr":
                        raise TranslateError("%s: plan variable `%s` is not declared once, as nullptr" % (self.sig, nm))
                    self.planvar = nm
                elif qt == "char" and ini is None:
                    self.chars[nm] = []
                elif qt in ("int_fast8_t", "int") and ini is None:
                    pass          # the sign handed to fftw_plan_dft_1d
                elif qt == "std::stringstream" and self.namevar is None:
                    self.namevar = nm
                elif qt == "vfps::FSPath" and self.pathvar is None:
                    e = unwrap(ini) if ini is not None else {}
                    fc = fn_call(e)
                    if fc and fc[0] == "datapath" and not fc[1]:
                        self.pathvar, self.appended, self.pathform = nm, False, "PFSPathAppend"
                        continue
                    # the complete name handed to the constructor: FSPath p(FSPath::datapath() + "fftwisdom/" + name.str())
                    parts = []

                    def flat(x):
                        x = unwrap(x)
                        if x.get("kind") == "CXXOperatorCallExpr" and callee_name(kids(x)[0]) == "operator+" and len(kids(x)) == 3:
                            flat(kids(x)[1])
                            flat(kids(x)[2])
                        else:
                            parts.append(x)
                    flat(e)
                    ok = len(parts) == 3 and (fn_call(parts[0]) or (None, None))[0] == "datapath" and parts[1].get("kind") == "StringLiteral" \
                        and parts[1]["value"].strip('"') == "fftwisdom/" and (member_call(parts[2]) or (None, None, None))[:2] == (self.namevar, "str") \
                        and bool(self.kinds)
                    if not ok:
                        raise TranslateError("%s: the wisdom path is neither FSPath(FSPath::datapath()) followed by append(..) nor "
                                             "FSPath(FSPath::datapath() + \"fftwisdom/\" + %s.str()): %s" % (self.sig, self.namevar, text_of(e)))
                    self.pathvar, self.appended, self.pathform = nm, True, "PFSPathFull"
                else:
                    raise TranslateError("%s: declaration of `%s` (%s) not understood - the wisdom path has to be a vfps::FSPath "
                                         "(FSPath::append creates the directory; a plain string does not)" % (self.sig, nm, qt))
            return
        if k == "IfStmt":
            ks = kids(s)
            c = unwrap(ks[0])
            ct = text_of(c) or ""
            if ct == "direction == backward" and len(ks) == 3 and not self.namevar:
                for bi, b in enumerate(ks[1:]):
                    for a in (kids(b) if b.get("kind") == "CompoundStmt" else [b]):
                        a = unwrap(a)
                        if a.get("kind") != "BinaryOperator" or a.get("opcode") != "=":
                            raise TranslateError("%s: direction branch holds %s" % (self.sig, text_of(a)))
                        tgt = root_var(kids(a)[0])
                        if tgt in self.chars:
                            v = unwrap(kids(a)[1])
                            if v.get("kind") != "CharacterLiteral":
                                raise TranslateError("%s: `%s` is not set to a character literal" % (self.sig, tgt))
                            self.chars[tgt].append(chr(int(v["value"])))
                return
            fc = fn_call(kids(c)[0]) if c.get("kind") == "BinaryOperator" and c.get("opcode") == "!=" else None
            if fc and re.match(r"^fftwf?_import_wisdom_from_filename$", fc[0] or "") and text_of(kids(c)[1]) == "0" and len(ks) == 2:
                self.precision(fc[0])
                if not getattr(self, "appended", False):
                    raise TranslateError("%s imports wisdom before the path is complete" % self.sig)
                self.path_arg(fc[1][0], fc[0])
                self.stmts.append("WImportThen [%s]" % "; ".join(self.simples(ks[1])))
                return
            if ct in ("%s == nullptr" % self.planvar, "!%s" % self.planvar) and len(ks) == 2:
                self.stmts.append("WIfNoPlan [%s]" % "; ".join(self.simples(ks[1])))
                return
            raise TranslateError("%s: if (%s) not understood" % (self.sig, ct[:120]))
        e = unwrap(s)
        # the `<<` chain that builds the file name
        if e.get("kind") == "CXXOperatorCallExpr" and callee_name(kids(e)[0]) == "operator<<":
            ops = chain(e, [])
            if root_var(ops[0]) != self.namevar or self.kinds:
                raise TranslateError("%s: a second stream statement / a stream other than the file name: %s" % (self.sig, text_of(e)))
            variants = [""]
            for o in ops[1:]:
                o = unwrap(o)
                if o.get("kind") == "StringLiteral":
                    variants = [v + o["value"].strip('"') for v in variants]
                elif o.get("kind") == "DeclRefExpr" and o["referencedDecl"].get("name") == "n":
                    variants = [v + "{n}" for v in variants]
                elif o.get("kind") == "DeclRefExpr" and len(self.chars.get(o["referencedDecl"].get("name"), [])) == 2 and len(variants) == 1:
                    variants = [variants[0] + ch for ch in self.chars[o["referencedDecl"]["name"]]]
                elif o.get("kind") == "DeclRefExpr" and len(self.chars.get(o["referencedDecl"].get("name"), [])) == 2:
                    variants = [v + ch for v, ch in zip(variants, self.chars[o["referencedDecl"]["name"]])]
                else:
                    raise TranslateError("%s: piece of the wisdom file name not understood: %s" % (self.sig, text_of(o)))
            for v in variants:
                m = re.match(r"^wisdom_([A-Za-z0-9]+)_\{n\}\.fftw$", v)
                if not m:
                    raise TranslateError("%s: the wisdom file name `%s` does not have the form wisdom_<kind>_<n>.fftw" % (self.sig, v))
                self.kinds.append(m.group(1))
            return
        mc = member_call(e)
        if mc and mc[0] == self.pathvar and mc[1] == "append" and len(mc[2]) == 1 and not self.appended:
            a = unwrap(mc[2][0])
            ok = a.get("kind") == "CXXOperatorCallExpr" and callee_name(kids(a)[0]) == "operator+" and len(kids(a)) == 3
            if ok:
                l, r = unwrap(kids(a)[1]), member_call(kids(a)[2])
                ok = l.get("kind") == "StringLiteral" and l["value"].strip('"') == "fftwisdom/" and r and r[0] == self.namevar and r[1] == "str" \
                    and bool(self.kinds)
            if not ok:
                raise TranslateError("%s: %s.append(..) is not append(\"fftwisdom/\" + %s.str()) after the name is complete: %s" % (
                    self.sig, self.pathvar, self.namevar, text_of(a)))
            self.appended = True
            return
        raise TranslateError("%s: statement not understood: %s" % (self.sig, (text_of(e) or e.get("kind"))[:160]))


def src_text(n, raw):
    """source text of a node (whitespace removed), from its offsets in the file"""
    r = n.get("range", {})
    b, e = r.get("begin", {}), r.get("end", {})
    if "offset" not in b or "offset" not in e:
        return None
    return re.sub(r"\s+", "", raw[b["offset"]:e["offset"] + e.get("tokLen", 1)].decode(errors="replace"))


def fspath_facts():
    docs = ast_of("src/IO/FSPath.cpp", "FSPath")
    raw = open(os.path.join(REPO, "src", "IO", "FSPath.cpp"), "rb").read()
    defs = {}
    for d in docs:
        if d.get("kind") == "CXXMethodDecl" and any(c.get("kind") == "CompoundStmt" for c in kids(d)):
            defs[d.get("name")] = [c for c in kids(d) if c.get("kind") == "CompoundStmt"][0]
    if "append" not in defs or "validateDirectory" not in defs:
        raise TranslateError("FSPath::append / FSPath::validateDirectory not found in src/IO/FSPath.cpp")
    ctors = [d for d in docs if d.get("kind") == "CXXConstructorDecl" and any(c.get("kind") == "CompoundStmt" for c in kids(d))]
    ok_ctor = False
    if len(ctors) == 1:
        cb = [src_text(x, raw) for x in kids([c for c in kids(ctors[0]) if c.get("kind") == "CompoundStmt"][0]) if x.get("kind") != "NullStmt"]
        inits = [c for c in kids(ctors[0]) if c.get("kind") == "CXXCtorInitializer"]
        ok_ctor = cb in (["validateDirectory(_path)"], ["FSPath::validateDirectory(_path)"]) and len(inits) == 1
    ap = [src_text(x, raw) for x in kids(defs["append"]) if x.get("kind") != "NullStmt"]
    ok_append = ap in (["_path/=path", "validateDirectory(_path)", "return*this"], ["_path/=path", "FSPath::validateDirectory(_path)", "return*this"])
    vd = [x for x in kids(defs["validateDirectory"]) if x.get("kind") != "NullStmt"]
    ok_val = False
    if len(vd) == 2 and vd[0].get("kind") == "IfStmt" and vd[1].get("kind") == "ReturnStmt" and len(kids(vd[0])) == 2:
        c = src_text(kids(vd[0])[0], raw) or ""
        inner = kids(vd[0])[1]
        inner = [x for x in (kids(inner) if inner.get("kind") == "CompoundStmt" else [inner]) if x.get("kind") != "NullStmt"]
        if c in ("!fs::exists(path)", "!boost::filesystem::exists(path)") and len(inner) == 1 and inner[0].get("kind") == "IfStmt" and len(kids(inner[0])) == 3:
            c2 = src_text(kids(inner[0])[0], raw) or ""
            rets = []
            for b in kids(inner[0])[1:]:
                bs = [x for x in (kids(b) if b.get("kind") == "CompoundStmt" else [b]) if x.get("kind") != "NullStmt"]
                rets.append(src_text(bs[0], raw) if len(bs) == 1 and bs[0].get("kind") == "ReturnStmt" else None)
            ok_val = c2 in ("(path.string().back())=='/'", "path.string().back()=='/'") and \
                rets == ["returnfs::create_directories(path)", "returnfs::create_directories(path.parent_path())"]
    return ok_ctor, ok_append, ok_val


def translate():
    docs = ast_of("src/FFTWWrapper.cpp", "prepareFFT")
    fds = [d for d in docs if d.get("kind") == "FunctionDecl" and d.get("name") == "prepareFFT" and any(c.get("kind") == "CompoundStmt" for c in kids(d))]
    if not fds:
        raise TranslateError("no definition of prepareFFT in src/FFTWWrapper.cpp")
    preps, fwd = [], []
    for fd in fds:
        body = [c for c in kids(fd) if c.get("kind") == "CompoundStmt"][0]
        st = [x for x in kids(body) if x.get("kind") != "NullStmt"]
        # inline forwarders of the header: `return prepareFFT(n, .. reinterpret_cast<..>(..) .., [direction]);`
        if len(st) == 1 and st[0].get("kind") == "ReturnStmt" and kids(st[0]):
            fc = fn_call(kids(st[0])[0])
            if fc and fc[0] == "prepareFFT" and (text_of(fc[1][0]) == "n") and (len(fc[1]) < 4 or text_of(fc[1][3]) == "direction"):
                fwd.append(fd.get("type", {}).get("qualType", "?"))
                continue
        preps.append(Prep(fd, body).run())
    if not preps:
        raise TranslateError("no definition of prepareFFT with a wisdom body")
    kinds = [k for p in preps for k in p.kinds]
    if len(set(kinds)) != len(kinds):
        raise TranslateError("two overloads of prepareFFT name the same wisdom file: %s" % kinds)
    ok_ctor, ok_append, ok_val = fspath_facts()
    out = []
    out.append("(* GENERATED on every run by translate/wisdom2coq.py from src/FFTWWrapper.cpp (every definition of fft::prepareFFT)")
    out.append("   and src/IO/FSPath.cpp (FSPath::append, FSPath::validateDirectory). Do not edit. *)")
    out.append("From Coq Require Import List ZArith String Bool.")
    out.append("From Inovesa Require Import Model.Wisdom.")
    out.append("Import ListNotations.")
    out.append("Local Open Scope string_scope.")
    out.append("(* the one constructor FSPath(std::string) is `: _path(..) { validateDirectory(_path); }` *)")
    out.append("Definition fspath_ctor_validates : bool := %s." % ("true" if ok_ctor else "false"))
    out.append("(* FSPath::append is `_path /= path; validateDirectory(_path); return *this;` *)")
    out.append("Definition fspath_append_validates : bool := %s." % ("true" if ok_append else "false"))
    out.append("(* FSPath::validateDirectory(p) creates p.parent_path() (p itself when it ends in '/') when p does not exist *)")
    out.append("Definition fspath_validate_creates_parent : bool := %s." % ("true" if ok_val else "false"))
    out.append("(* one entry per definition of prepareFFT: wisdom kinds (file wisdom_<kind>_<n>.fftw), how the path is built, body *)")
    out.append("Definition wisdom_table : list prep :=\n  [%s]." % ";\n   ".join(
        "mkprep [%s] %s\n     [%s]" % ("; ".join('"%s"' % k for k in p.kinds), p.pathform, ";\n      ".join(p.stmts)) for p in preps))
    out.append("(* signature of each definition, in the order of the table *)")
    out.append("Definition wisdom_signatures : list string :=\n  [%s]." % ";\n   ".join('"%s"' % p.sig.replace('"', "'") for p in preps))
    out.append("(* inline overloads that only forward (same n, same direction) to one of the above *)")
    out.append("Definition wisdom_forwarders : list string :=\n  [%s]." % ";\n   ".join('"%s"' % x.replace('"', "'") for x in fwd))
    out.append("(* every plan call of every definition uses a planner that measures run times (no FFTW_ESTIMATE): which plan FFTW")
    out.append("   picks without stored wisdom is not a function of the problem - what the wisdom files are for *)")
    out.append("Definition wisdom_planner_timed : bool := %s." % ("true" if all(t for p in preps for t in p.timed) else "false"))
    return "\n".join(out) + "\n", dict(preps=preps, kinds=kinds, timed=all(t for p in preps for t in p.timed), fspath=(ok_ctor, ok_append, ok_val))


if __name__ == "__main__":
    dst = sys.argv[1] if len(sys.argv) > 1 else os.path.join(VERIF, "coq", "Gen", "Gen_Wisdom.v")
    try:
        text, _ = translate()
    except TranslateError as e:
        print("TRANSLATE-ERROR Gen_Wisdom: %s" % e)
        sys.exit(2)
    ch = write_if_changed(dst, text)
    print("Gen_Wisdom.v %s" % ("regenerated" if ch else "unchanged"))
