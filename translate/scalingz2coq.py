#!/usr/bin/env python3
# GEN: Gen_ScalingZ
"""Gen_ScalingZ.v: the integer sizes main() computes from floating configuration values, with the code's own
arithmetic (every double operation rounded to binary64, every float operation to binary32, unsigned wrap-around,
std::round / std::ceil on the rounded value, float -> unsigned conversions with their undefined domain,
upper_power_of_two, the conditional on the number of buckets and on RoundPadding).

Source read: main() of src/main.cpp by symbolic execution (translate/scaling_lib.py); the sizes are found where they
are *used*:
  gen_spacing_bins       `spacing_bins` of the ElectricField constructed with (Ib, E0, sigma_delta, dt)  (wake field)
  gen_wake_nfreqs        `nfreqs` of the makeImpedance call whose result is that field's impedance
  gen_rdtn_spacing_bins  `spacing_bins` of the other ElectricField (radiation field)
  gen_rdtn_nfreqs        `nfreqs` of the makeImpedance call whose result is the radiation field's impedance
Inputs (leaves): integer / floating / boolean options (O_<getter>), the length of a vector option (N_<getter>) and
*cut variables* V_<local>: a floating local whose initialiser contains a division or a libm call is not re-evaluated
here (sqrt/pow are not exact functions); its value is an input, and its full expression (down to the options) is written
to Gen_ScalingZ.info.json so that the check can evaluate it in double precision (lib/scaling_eval.py).
Fails loudly (TranslateError) when a sink is not found or an expression leaves the vocabulary."""
import sys, os, json
sys.path.insert(0, os.path.dirname(os.path.abspath(__file__)))
from cxx_ast import *
import scaling_lib as sl


def translate():
    se = sl.run_main(sl.default_cut_rule)
    R = sl.roles(se)
    Q = {"spacing_bins": R["wake_spacing_bins"], "wake_nfreqs": R["wakeimp_nfreqs"],
         "rdtn_spacing_bins": R["rdtn_spacing_bins"], "rdtn_nfreqs": R["rdtnimp_nfreqs"]}
    em = sl.EmitZ()
    bodies = {}
    for nm, e in Q.items():
        if sl.typeof(e) not in sl.INT_TYS:
            raise TranslateError("%s is not an integer expression any more (type %s)" % (nm, sl.typeof(e)))
        bodies[nm] = em.definition(e)
    zl, ql, bl = sorted(em.zleaves) + ["Z_unused"], sorted(em.qleaves) + ["Q_unused"], sorted(em.bleaves) + ["ZB_unused"]
    out = ["(* GENERATED on every run by translate/scalingz2coq.py from main() of src/main.cpp (symbolic execution of the",
           "   set-up code; each size is the expression that reaches the named parameter of ElectricField / makeImpedance).",
           "   Do not edit. *)",
           "From Coq Require Import List ZArith QArith Qcanon Bool.",
           "From Inovesa Require Import Base.FieldKit Base.Float32 Model.Kick Model.Bounds Model.ScalingOps.",
           "Import ListNotations.",
           "(* leaves: O_<getter> = option read through ProgramOptions::<getter>(); N_<getter> = size() of a vector option;",
           "   V_<local> = cut variable (a floating local of main() computed with a division or a libm call) *)",
           "Inductive zleaf := %s." % " | ".join(zl),
           "Inductive qleaf := %s." % " | ".join(ql),
           "Inductive zbleaf := %s." % " | ".join(bl)]
    for nm, ls in (("zleaf", zl), ("qleaf", ql), ("zbleaf", bl)):
        out.append("Definition %s_index (l : %s) : nat := match l with %s end." %
                   (nm, nm, " | ".join("%s => %d" % (x, i) for i, x in enumerate(ls))))
    out += ["Local Open Scope Z_scope.", "Local Open Scope bool_scope.", ""]
    for nm in Q:
        out.append("Definition gen_%s (LZ : zleaf -> Z) (LQ : qleaf -> Qc) (LB : zbleaf -> bool) : conv :=\n    %s." % (nm, bodies[nm]))
    out += ["",
            "(* front-end for the extracted driver: values in the order of the *_index functions *)",
            "Definition gen_sizes_list (zs : list Z) (qs : list Qc) (bs : list bool) : list Z :=",
            "  let LZ := env_of zleaf_index 0 zs in let LQ := env_of qleaf_index (Qcz 0) qs in let LB := env_of zbleaf_index false bs in",
            "  [conv_code (gen_spacing_bins LZ LQ LB); conv_code (gen_rdtn_nfreqs LZ LQ LB);",
            "   conv_code (gen_wake_nfreqs LZ LQ LB); conv_code (gen_rdtn_spacing_bins LZ LQ LB)]."]
    cuts = {}
    for name, (leaf, full) in se.cuts.items():
        if leaf[1] in em.qleaves:
            if sl.opaques_of(full):
                raise TranslateError("cut variable %s depends on a value this translator does not understand: %s" % (name, sl.opaques_of(full)[0]))
            cuts[leaf[1]] = sl.ir_json(sl.fold(full))
    info = dict(zleaves=zl, qleaves=ql, bleaves=bl, cuts=cuts, order=["spacing_bins", "rdtn_nfreqs", "wake_nfreqs", "rdtn_spacing_bins"])
    return "\n".join(out) + "\n", info


def info_path(dst):
    return os.path.splitext(dst)[0] + ".info.json"


if __name__ == "__main__":
    dst = sys.argv[1] if len(sys.argv) > 1 else os.path.join(VERIF, "coq", "Gen", "Gen_ScalingZ.v")
    try:
        text, info = translate()
    except TranslateError as e:
        print("TRANSLATE-ERROR Gen_ScalingZ: %s" % e)
        if os.path.exists(info_path(dst)):
            os.remove(info_path(dst))       # the evaluator then falls back to the last-good copy, like the .v file
        sys.exit(2)
    ch = write_if_changed(dst, text)
    write_if_changed(info_path(dst), json.dumps(info, sort_keys=True))
    print("Gen_ScalingZ.v %s" % ("regenerated" if ch else "unchanged"))
