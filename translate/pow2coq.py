#!/usr/bin/env python3
# GEN: Gen_Pow2
"""Gen_Pow2.v: the body of vfps::upper_power_of_two (src/HelperFunctions.cpp) as a list of uint64 operations
(`Model/Pow2Ops.v`: UDec, UOrShr k, UInc), read from the clang JSON AST of /repo's working tree on every run.

Idiom (anything else fails loudly): the function has one uint64_t parameter; the body is executed symbolically over ONE
64-bit register (the parameter, or a local of the same type initialised from it - `uint64_t w = v - 1;`):
   v--; --v; v -= 1; v = v - 1;                 -> UDec
   v |= v >> K;  v = v | (v >> K);  (K literal, or the counter of an enclosing constant loop)   -> UOrShr K
   v++; ++v; v += 1; v = v + 1; return v + 1;   -> UInc
   for (T s = A; s < B | s <= B; s <<= 1 | s *= 2 | s += s | s = s*2 | s = s<<1) body           -> unrolled (A, B literals)
   return v;
Proofs/Pow2GenP.v proves on every run that this list computes Bounds.upper_power_of_two for every argument."""
import sys, os
sys.path.insert(0, os.path.dirname(os.path.abspath(__file__)))
from cxx_ast import *

WRAP = ("ImplicitCastExpr", "ParenExpr", "CXXFunctionalCastExpr", "CStyleCastExpr", "CXXStaticCastExpr",
        "ExprWithCleanups", "MaterializeTemporaryExpr", "ConstantExpr")


def un(n):
    while n.get("kind") in WRAP and len(kids(n)) == 1:
        n = kids(n)[0]
    return n


def ref(n):
    n = un(n)
    if n.get("kind") == "DeclRefExpr":
        return n["referencedDecl"]["name"]
    return None


def lit(n, cnt):
    n = un(n)
    if n.get("kind") == "IntegerLiteral":
        return int(n["value"])
    r = ref(n)
    if r is not None and r in cnt:
        return cnt[r]
    return None


class Exec:
    def __init__(self, param):
        self.reg = param        # name currently holding the register
        self.param = param
        self.ops = []
        self.cnt = {}           # loop counters with their current (concrete) value
        self.returned = False

    def is_reg(self, n):
        return ref(n) == self.reg

    def rhs_op(self, n):
        """value expression over the register -> op or None for 'the register itself'"""
        m = un(n)
        if self.is_reg(m):
            return None
        if m.get("kind") == "BinaryOperator":
            a, b = kids(m)
            op = m["opcode"]
            if op in ("+", "-") and self.is_reg(a) and lit(b, {}) == 1:
                return "UInc" if op == "+" else "UDec"
            if op == "|":
                for x, y in ((a, b), (b, a)):
                    if self.is_reg(x):
                        s = un(y)
                        if s.get("kind") == "BinaryOperator" and s["opcode"] == ">>":
                            sa, sb = kids(s)
                            k = lit(sb, self.cnt)
                            if self.is_reg(sa) and k is not None and 0 <= k < 64:
                                return "UOrShr %d" % k
        raise TranslateError("expression over the register not understood: %s" % m.get("kind"))

    def stmt(self, n):
        if self.returned:
            raise TranslateError("statement after return")
        k = n.get("kind")
        if k == "CompoundStmt":
            for c in kids(n):
                self.stmt(c)
        elif k == "NullStmt":
            pass
        elif k == "UnaryOperator" and n.get("opcode") in ("++", "--") and self.is_reg(kids(n)[0]):
            self.ops.append("UInc" if n["opcode"] == "++" else "UDec")
        elif k == "CompoundAssignOperator" and self.is_reg(kids(n)[0]):
            a, b = kids(n)
            op = n["opcode"]
            if op in ("+=", "-=") and lit(b, {}) == 1:
                self.ops.append("UInc" if op == "+=" else "UDec")
            elif op == "|=":
                s = un(b)
                if s.get("kind") == "BinaryOperator" and s["opcode"] == ">>" and self.is_reg(kids(s)[0]):
                    kk = lit(kids(s)[1], self.cnt)
                    if kk is None or not 0 <= kk < 64:
                        raise TranslateError("shift amount is not a constant in 0..63")
                    self.ops.append("UOrShr %d" % kk)
                else:
                    raise TranslateError("|= with a right-hand side other than reg >> K")
            else:
                raise TranslateError("compound assignment %s" % op)
        elif k == "BinaryOperator" and n.get("opcode") == "=" and self.is_reg(kids(n)[0]):
            o = self.rhs_op(kids(n)[1])
            if o:
                self.ops.append(o)
        elif k == "DeclStmt":
            for d in kids(n):
                if d.get("kind") != "VarDecl" or not kids(d):
                    raise TranslateError("declaration without initialiser")
                ty = d.get("type", {}).get("qualType", "")
                if "uint64_t" not in ty and "unsigned long" not in ty:
                    raise TranslateError("local %s of type %s (the register must stay 64-bit unsigned)" % (d.get("name"), ty))
                o = self.rhs_op(kids(d)[-1])
                if o:
                    self.ops.append(o)
                self.reg = d["name"]
        elif k == "ReturnStmt":
            o = self.rhs_op(kids(n)[0])
            if o:
                self.ops.append(o)
            self.returned = True
        elif k == "ForStmt":
            self.loop(n)
        else:
            raise TranslateError("statement of kind %s" % k)

    def loop(self, n):
        init, _, cond, inc, body = (n.get("inner") + [None] * 5)[:5]
        if not init or init.get("kind") != "DeclStmt" or len(kids(init)) != 1:
            raise TranslateError("loop without a single counter declaration")
        d = kids(init)[0]
        name = d["name"]
        a = lit(kids(d)[-1], {}) if kids(d) else None
        c = un(cond)
        if a is None or c.get("kind") != "BinaryOperator" or c["opcode"] not in ("<", "<=") or ref(kids(c)[0]) != name:
            raise TranslateError("loop bounds not understood")
        b = lit(kids(c)[1], {})
        if b is None:
            raise TranslateError("loop bound is not a literal")
        i = un(inc)
        step = None
        if i.get("kind") == "CompoundAssignOperator" and ref(kids(i)[0]) == name:
            if (i["opcode"] == "<<=" and lit(kids(i)[1], {}) == 1) or (i["opcode"] == "*=" and lit(kids(i)[1], {}) == 2) \
                    or (i["opcode"] == "+=" and ref(kids(i)[1]) == name):
                step = lambda v: 2 * v
        elif i.get("kind") == "BinaryOperator" and i["opcode"] == "=" and ref(kids(i)[0]) == name:
            r = un(kids(i)[1])
            if r.get("kind") == "BinaryOperator" and ref(kids(r)[0]) == name and \
                    ((r["opcode"] == "*" and lit(kids(r)[1], {}) == 2) or (r["opcode"] == "<<" and lit(kids(r)[1], {}) == 1)):
                step = lambda v: 2 * v
        if step is None:
            raise TranslateError("loop increment not understood (expected doubling)")
        v, n_it = a, 0
        while (v < b) if c["opcode"] == "<" else (v <= b):
            if v <= 0 or n_it > 64:
                raise TranslateError("loop does not terminate under doubling")
            self.cnt[name] = v
            self.stmt(body)
            v = step(v)
            n_it += 1
        self.cnt.pop(name, None)


def translate():
    docs = ast_of("src/HelperFunctions.cpp", "upper_power_of_two")
    fn = None
    for d in docs:
        if d.get("kind") == "FunctionDecl" and d.get("name") == "upper_power_of_two" and any(c.get("kind") == "CompoundStmt" for c in kids(d)):
            fn = d
    if fn is None:
        raise TranslateError("definition of upper_power_of_two not found")
    ps = [c for c in kids(fn) if c.get("kind") == "ParmVarDecl"]
    if len(ps) != 1 or "uint64_t" not in ps[0]["type"]["qualType"]:
        raise TranslateError("expected one uint64_t parameter")
    if "uint64_t" not in fn["type"]["qualType"].split("(")[0] and "unsigned long" not in fn["type"]["qualType"].split("(")[0]:
        raise TranslateError("return type is not uint64_t: %s" % fn["type"]["qualType"])
    ex = Exec(ps[0]["name"])
    ex.stmt([c for c in kids(fn) if c.get("kind") == "CompoundStmt"][0])
    if not ex.returned:
        raise TranslateError("no return statement")
    out = ["(* GENERATED on every run by translate/pow2coq.py from vfps::upper_power_of_two (src/HelperFunctions.cpp). Do not edit. *)",
           "From Coq Require Import List ZArith.", "From Inovesa Require Import Model.Pow2Ops.", "Import ListNotations.",
           "Definition gen_upow2_ops : list uop := [%s]." % "; ".join(ex.ops)]
    return "\n".join(out) + "\n"


if __name__ == "__main__":
    dst = sys.argv[1] if len(sys.argv) > 1 else os.path.join(VERIF, "coq", "Gen", "Gen_Pow2.v")
    try:
        text = translate()
    except TranslateError as e:
        print("TRANSLATE-ERROR Gen_Pow2: %s" % e)
        sys.exit(2)
    except (KeyError, IndexError, TypeError, AttributeError) as e:
        print("TRANSLATE-ERROR Gen_Pow2: unexpected AST shape (%s: %s)" % (type(e).__name__, e))
        sys.exit(2)
    ch = write_if_changed(dst, text)
    print("Gen_Pow2.v %s" % ("regenerated" if ch else "unchanged"))
