#!/usr/bin/env python3
# GEN: Gen_EField
"""Gen_EField.v: the bodies of ElectricField::padBunchProfiles, wakePotential and updateCSR
(src/PS/ElectricField.cpp, CPU/FFTW path - the OpenCL branches are not compiled) as programs of the
statement language of coq/Model/EFieldProg.v, plus the arithmetic of their right-hand sides as
expressions over a generic field.  Read from the clang JSON AST of /repo's working tree.

Idiom (anything else fails loudly):
 * blocks of statements, nested `{}` blocks are spliced in;
 * `for (T v = 0; v < BOUND; v++) body` (also `BOUND > v`, `v != BOUND`, `v <= BOUND`, `++v`, `v += 1`),
   nesting depth at most two; loop counters are numbered by nesting depth (renaming is invisible);
 * const locals: integers (`const size_t nhalf = _nmax/2`), pointers into a buffer
   (`wp_bunch = _wakepotential_padded + _bucket[b]*_spacing_bins`), projection views
   (`auto bp = _phasespace->getProjection(0)` / `...[n]`, `.origin()`), floats
   (`const auto df = _axis_freq.delta()`); one mutable float local initialised from `_formfactorrenorm`
   that is multiplied under `if (cutoff_frequency CMP 0)`;
 * buffer writes: `std::fill_n(_bp_padded[+a], len, 0)` / `std::fill(first, last, 0)` / a loop that zeroes
   `_bp_padded[v]`; `std::copy_n(src, len, _bp_padded[+d])` / `std::copy(first, last, dst)` from the projection;
   `padBunchProfiles()`; `fft::fft_execute(_fft_bunchprofile | _fft_wakelosses)`;
   `_wakelosses[d] = (*_impedance)[zi] * _formfactor[fi]` (either operand order);
   `_wakepotential[r][c] = EXPR(_wakescaling, _wakepotential_padded[s])`; `_csrintensity[r] = 0`;
   `_csrspectrum[r][c] = EXPR(renorm, ((*_impedance)[zi]).real(), std::norm(_formfactor[fi]))`;
   `_csrintensity[d] += EXPR(_axis_freq.delta(), _csrspectrum[r][c])`.
 * inside one block, statements that touch disjoint buffers are emitted in a canonical order (so moving
   `_csrintensity[n] = 0;` in front of the copy changes nothing); dependent statements keep their order.

Index arithmetic is emitted over Z (C's unsigned arithmetic without wrap-around).  `PhaseSpace::nb`
and `_nbunches` are both the number of bunches: the constructor's initialiser `_nbunches(PhaseSpace::nb)`
is checked here."""
import sys, os
sys.path.insert(0, os.path.dirname(os.path.abspath(__file__)))
from cxx_ast import *

SRC = "src/PS/ElectricField.cpp"
INT_MEMBERS = {"_nmax": ("nmax",), "_spacing_bins": ("spc",), "_nbunches": ("nb",)}
INT_STATICS = {"nx": ("nx",), "nb": ("nb",)}
REAL_BUFS = {"_bp_padded": "bp", "_wakepotential_padded": "wp"}
CPLX_BUFS = {"_formfactor": "ff", "_wakelosses": "wl"}


# ---------------------------------------------------------------------------------------- helpers

def nm(n):
    return n.get("name") or (n.get("referencedDecl") or {}).get("name")


def unwrap(n):
    """strip() of cxx_ast plus the wrappers clang puts around temporaries/constructors of one argument"""
    while True:
        n = strip(n)
        if n.get("kind") == "CXXConstructExpr" and len(kids(n)) == 1:
            n = kids(n)[0]
            continue
        return n


def callee_name(n):
    ks = kids(n)
    if not ks:
        return None
    c = unwrap(ks[0])
    return nm(c)


def is_zero(n):
    n = unwrap(n)
    if n.get("kind") == "IntegerLiteral":
        return int(n["value"]) == 0
    if n.get("kind") == "FloatingLiteral":
        return float(n["value"]) == 0.0
    return False


def member_of_this(n, name=None):
    n = unwrap(n)
    if n.get("kind") == "MemberExpr" and kids(n) and unwrap(kids(n)[0]).get("kind") == "CXXThisExpr":
        return n.get("name") if name is None else n.get("name") == name
    return None if name is None else False


class Ctx:
    def __init__(self):
        self.env = {}          # local name -> ("ix", ir) | ("ptr", buf, ir) | ("proj", ir, rank) | ("val", vir) | ("renorm", ...)
        self.depth = 0

    def child(self):
        c = Ctx()
        c.env = dict(self.env)
        c.depth = self.depth
        return c


# ---------------------------------------------------------------------------------------- index expressions

def ix(n, cx):
    n = unwrap(n)
    k = n.get("kind")
    if k == "IntegerLiteral":
        return ("c", int(n["value"]))
    if k == "DeclRefExpr":
        name = nm(n)
        if name in cx.env:
            v = cx.env[name]
            if v[0] == "ix":
                return v[1]
            raise TranslateError("local %s is not an integer" % name)
        if name in INT_STATICS:
            return INT_STATICS[name]
        raise TranslateError("unknown name %s in index arithmetic" % name)
    if k == "MemberExpr":
        m = member_of_this(n)
        if m in INT_MEMBERS:
            return INT_MEMBERS[m]
        raise TranslateError("member %s in index arithmetic" % n.get("name"))
    if k == "BinaryOperator":
        op = {"+": "add", "-": "sub", "*": "mul", "/": "div"}.get(n["opcode"])
        if not op:
            raise TranslateError("operator %s in index arithmetic" % n["opcode"])
        a, b = kids(n)
        return (op, ix(a, cx), ix(b, cx))
    if k == "CXXOperatorCallExpr" and callee_name(n) == "operator[]":
        base, idx = kids(n)[1], kids(n)[2]
        if member_of_this(base, "_bucket"):
            return ("bucket", ix(idx, cx))
        raise TranslateError("subscript of something other than _bucket in index arithmetic")
    if k == "CXXMemberCallExpr":
        me = unwrap(kids(n)[0])
        if me.get("kind") == "MemberExpr" and me.get("name") == "at" and member_of_this(kids(me)[0], "_bucket"):
            return ("bucket", ix(kids(n)[1], cx))
    raise TranslateError("index expression of kind %s" % k)


def ixadd(a, b):
    if a == ("c", 0):
        return b
    if b == ("c", 0):
        return a
    return ("add", a, b)


def _atom_key(a):
    return repr(a)


def ix_poly(e):
    """polynomial normal form {monomial (sorted tuple of atoms): coefficient}; atoms: sizes, loop counters,
    _bucket[normalised], normalised quotients"""
    t = e[0]
    if t == "c":
        return {(): e[1]} if e[1] else {}
    if t in ("v", "nx", "nb", "nmax", "spc"):
        return {(e,): 1}
    if t == "bucket":
        return {(("bucket", ix_norm(e[1])),): 1}
    if t == "div":
        return {(("div", ix_norm(e[1]), ix_norm(e[2])),): 1}
    a, b = ix_poly(e[1]), ix_poly(e[2])
    r = {}
    if t in ("add", "sub"):
        sg = 1 if t == "add" else -1
        for m, c in a.items():
            r[m] = r.get(m, 0) + c
        for m, c in b.items():
            r[m] = r.get(m, 0) + sg * c
    else:
        for m1, c1 in a.items():
            for m2, c2 in b.items():
                m = tuple(sorted(m1 + m2, key=_atom_key))
                r[m] = r.get(m, 0) + c1 * c2
    return {m: c for m, c in r.items() if c}


def ix_norm(e):
    """canonical representative: re-associated, commuted or expanded index arithmetic gives the same text"""
    p = ix_poly(e)
    terms = sorted(p.items(), key=lambda mc: (-len(mc[0]), [_atom_key(a) for a in mc[0]]))
    pos = [(m, c) for m, c in terms if c > 0]
    neg = [(m, -c) for m, c in terms if c < 0]

    def term(m, c):
        fs = list(m)
        t = None
        for a in fs:
            t = a if t is None else ("mul", t, a)
        if t is None:
            return ("c", c)
        return t if c == 1 else ("mul", ("c", c), t)

    def total(l):
        t = None
        for m, c in l:
            t = term(m, c) if t is None else ("add", t, term(m, c))
        return t
    if not pos and not neg:
        return ("c", 0)
    if not pos:
        return ("sub", ("c", 0), total(neg))
    r = total(pos)
    if neg:
        r = ("sub", r, total(neg))
    return r


def ix_coq(e, top=True):
    if top:
        return ix_coq(ix_norm(e), False)
    t = e[0]
    if t == "c":
        return "(IConst %s)" % (str(e[1]) if e[1] >= 0 else "(%d)" % e[1])
    if t == "v":
        return "(IVar %d)" % e[1]
    if t in ("nx", "nb", "nmax", "spc"):
        return {"nx": "INx", "nb": "INb", "nmax": "INmax", "spc": "ISpc"}[t]
    if t == "bucket":
        return "(IBucket %s)" % ix_coq(e[1], False)
    return "(%s %s %s)" % ({"add": "IAdd", "sub": "ISub", "mul": "IMul", "div": "IDiv"}[t], ix_coq(e[1], False), ix_coq(e[2], False))


# ---------------------------------------------------------------------------------------- pointers / views

def is_get_projection0(n):
    """_phasespace->getProjection(0)"""
    n = unwrap(n)
    if n.get("kind") != "CXXMemberCallExpr":
        return False
    me = unwrap(kids(n)[0])
    if me.get("kind") != "MemberExpr" or me.get("name") != "getProjection":
        return False
    args = kids(n)[1:]
    if len(args) != 1:
        return False
    a = unwrap(args[0])
    if a.get("kind") != "IntegerLiteral" or int(a["value"]) != 0:
        raise TranslateError("getProjection(axis) with axis != 0")
    # the object: _phasespace-> (operator-> on the member)
    found = []

    def look(m):
        if m.get("kind") == "MemberExpr" and m.get("name") == "_phasespace":
            found.append(m)
        for c in kids(m):
            look(c)
    look(me)
    if not found:
        raise TranslateError("getProjection() not called on _phasespace")
    return True


def view(n, cx):
    """projection views: ("proj", flat offset of the view's origin, rank)"""
    n = unwrap(n)
    k = n.get("kind")
    if is_get_projection0(n):
        return ("proj", ("c", 0), 2)
    if k == "DeclRefExpr" and nm(n) in cx.env and cx.env[nm(n)][0] == "proj":
        return cx.env[nm(n)]
    if k == "CXXOperatorCallExpr" and callee_name(n) == "operator[]":
        try:
            base = view(kids(n)[1], cx)
        except TranslateError:
            return None
        if base is None:
            return None
        if base[2] != 2:
            raise TranslateError("projection view indexed below a row")
        return ("proj", ixadd(base[1], ("mul", ix(kids(n)[2], cx), ("nx",))), 1)
    return None


def ptr(n, cx):
    """pointer values: ("ptr", buffer, offset)"""
    n = unwrap(n)
    k = n.get("kind")
    if k == "MemberExpr":
        m = member_of_this(n)
        if m in REAL_BUFS:
            return ("ptr", REAL_BUFS[m], ("c", 0))
        if m in CPLX_BUFS:
            return ("ptr", CPLX_BUFS[m], ("c", 0))
        raise TranslateError("pointer to member %s" % m)
    if k == "DeclRefExpr":
        v = cx.env.get(nm(n))
        if v and v[0] == "ptr":
            return v
        raise TranslateError("%s is not a known pointer" % nm(n))
    if k == "BinaryOperator" and n["opcode"] in ("+", "-"):
        a, b = kids(n)
        try:
            pa = ptr(a, cx)
        except TranslateError:
            if n["opcode"] == "-":
                raise
            pa = ptr(b, cx)
            a, b = b, a
        off = ix(b, cx)
        return ("ptr", pa[1], ixadd(pa[2], off) if n["opcode"] == "+" else ("sub", pa[2], off))
    if k == "CXXMemberCallExpr":
        me = unwrap(kids(n)[0])
        if me.get("kind") == "MemberExpr" and me.get("name") in ("origin", "data") and len(kids(n)) == 1:
            v = view(kids(me)[0], cx)
            if v is not None:
                return ("ptr", "proj", v[1])
    if k == "UnaryOperator" and n.get("opcode") == "&":
        a = unwrap(kids(n)[0])
        if a.get("kind") == "ArraySubscriptExpr":
            b, i = kids(a)
            pb = ptr(b, cx)
            return ("ptr", pb[1], ixadd(pb[2], ix(i, cx)))
    raise TranslateError("pointer expression of kind %s" % k)


def subscript(n, cx):
    """p[e] on a raw buffer -> (buffer, index) or None"""
    n = unwrap(n)
    if n.get("kind") != "ArraySubscriptExpr":
        return None
    b, i = kids(n)
    pb = ptr(b, cx)
    return pb[1], ixadd(pb[2], ix(i, cx))


def marray2(n, cx, member):
    """_member[r][c] on a boost::multi_array member -> (r, c) or None"""
    n = unwrap(n)
    if n.get("kind") != "CXXOperatorCallExpr" or callee_name(n) != "operator[]":
        return None
    inner = unwrap(kids(n)[1])
    if inner.get("kind") != "CXXOperatorCallExpr" or callee_name(inner) != "operator[]":
        return None
    if not member_of_this(kids(inner)[1], member):
        return None
    return ix(kids(inner)[2], cx), ix(kids(n)[2], cx)


def marray1(n, cx, member):
    n = unwrap(n)
    if n.get("kind") != "CXXOperatorCallExpr" or callee_name(n) != "operator[]":
        return None
    if not member_of_this(kids(n)[1], member):
        return None
    return ix(kids(n)[2], cx)


# ---------------------------------------------------------------------------------------- value expressions

class Reads:
    def __init__(self):
        self.d = {}

    def add(self, key, val):
        if key in self.d and self.d[key] != val:
            raise TranslateError("two different reads of %s in one right-hand side" % key)
        self.d[key] = val


def axis_call(n, cx):
    """_axis_freq.delta() / _axis_freq.scale("Hertz") / _axis_freq[e] / _axis_freq.at(e)"""
    n = unwrap(n)
    k = n.get("kind")
    if k == "CXXMemberCallExpr":
        me = unwrap(kids(n)[0])
        if me.get("kind") == "MemberExpr" and kids(me) and member_of_this(kids(me)[0], "_axis_freq"):
            if me.get("name") == "delta" and len(kids(n)) == 1:
                return ("delta",)
            if me.get("name") == "scale" and len(kids(n)) == 2:
                lit = []

                def look(m):
                    if m.get("kind") == "StringLiteral":
                        lit.append(m.get("value"))
                    for c in kids(m):
                        look(c)
                look(kids(n)[1])
                if lit != ['"Hertz"']:
                    raise TranslateError("_axis_freq.scale(%s)" % lit)
                return ("hertz",)
            if me.get("name") == "at" and len(kids(n)) == 2:
                return ("fax", ix(kids(n)[1], cx))
    if k == "CXXOperatorCallExpr" and callee_name(n) == "operator[]" and member_of_this(kids(n)[1], "_axis_freq"):
        return ("fax", ix(kids(n)[2], cx))
    return None


def impedance_at(n, cx):
    """(*_impedance)[e] (or a local initialised with it) -> index, or None"""
    n = unwrap(n)
    if n.get("kind") == "DeclRefExpr" and nm(n) in cx.env and cx.env[nm(n)][0] == "zat":
        return cx.env[nm(n)][1]
    if n.get("kind") != "CXXOperatorCallExpr" or callee_name(n) != "operator[]":
        return None
    found = []

    def look(m):
        if m.get("kind") == "MemberExpr" and m.get("name") == "_impedance":
            found.append(m)
        for c in kids(m):
            look(c)
    look(kids(n)[1])
    if not found:
        return None
    return ix(kids(n)[2], cx)


def ff_at(n, cx):
    """_formfactor[e] (or a local initialised with it) -> index, or None"""
    u = unwrap(n)
    if u.get("kind") == "DeclRefExpr" and nm(u) in cx.env and cx.env[nm(u)][0] == "ffat":
        return cx.env[nm(u)][1]
    try:
        s = subscript(n, cx)
    except TranslateError:
        return None
    if s and s[0] == "ff":
        return s[1]
    return None


def val(n, cx, rd):
    """real-valued right-hand side -> IR over named leaves; buffer reads are recorded in rd"""
    n = unwrap(n)
    k = n.get("kind")
    if k == "IntegerLiteral":
        return ("num", Fraction(int(n["value"])))
    if k == "FloatingLiteral":
        return ("num", Fraction(n["value"]))
    if k == "DeclRefExpr":
        name = nm(n)
        if name in cx.env:
            v = cx.env[name]
            if v[0] == "val":
                for kk, vv in v[2].d.items():
                    rd.add(kk, vv)
                return v[1]
            raise TranslateError("local %s is not a real value" % name)
        if name == "cutoff_frequency":
            return ("var", "fc")
        raise TranslateError("unknown name %s in a right-hand side" % name)
    if k == "MemberExpr":
        m = member_of_this(n)
        if m == "_wakescaling":
            return ("var", "wakescaling")
        if m == "_formfactorrenorm":
            return ("var", "ffr")
        raise TranslateError("member %s in a right-hand side" % n.get("name"))
    if k == "UnaryOperator" and n.get("opcode") in ("-", "+"):
        a = val(kids(n)[0], cx, rd)
        return ("neg", a) if n["opcode"] == "-" else a
    if k == "BinaryOperator":
        op = {"+": "add", "-": "sub", "*": "mul", "/": "div"}.get(n["opcode"])
        if not op:
            raise TranslateError("operator %s in a right-hand side" % n["opcode"])
        a, b = kids(n)
        return (op, val(a, cx, rd), val(b, cx, rd))
    ax = axis_call(n, cx)
    if ax is not None:
        if ax[0] == "fax":
            rd.add("ax", ax[1])
            return ("var", "fax")
        return ("var", ax[0])
    if k == "ArraySubscriptExpr":
        buf, i = subscript(n, cx)
        if buf == "wp":
            rd.add("wp", i)
            return ("var", "w")
        raise TranslateError("read of buffer %s in a real right-hand side" % buf)
    sp = marray2(n, cx, "_csrspectrum")
    if sp is not None:
        rd.add("spec", sp)
        return ("var", "spec")
    if k == "CXXMemberCallExpr":
        me = unwrap(kids(n)[0])
        if me.get("kind") == "MemberExpr" and me.get("name") == "real" and len(kids(n)) == 1:
            zi = impedance_at(kids(me)[0], cx)
            if zi is not None:
                rd.add("zi", zi)
                return ("var", "rez")
        raise TranslateError("member call %s in a right-hand side" % me.get("name"))
    if k == "CallExpr":
        f = callee_name(n)
        args = kids(n)[1:]
        if f == "norm" and len(args) == 1:
            fi = ff_at(args[0], cx)
            if fi is not None:
                rd.add("fi", fi)
                return ("var", "normf")
            raise TranslateError("std::norm of something other than _formfactor[...]")
        if f == "real" and len(args) == 1:
            zi = impedance_at(args[0], cx)
            if zi is not None:
                rd.add("zi", zi)
                return ("var", "rez")
        if f == "exp" and len(args) == 1:
            return ("exp", val(args[0], cx, rd))
        if f == "pow" and len(args) == 2:
            e = unwrap(args[1])
            if e.get("kind") == "IntegerLiteral" and int(e["value"]) == 2:
                a = val(args[0], cx, rd)
                return ("mul", a, a)
            raise TranslateError("std::pow with an exponent other than the literal 2")
        raise TranslateError("call of %s in a right-hand side" % f)
    raise TranslateError("right-hand side of kind %s" % k)


def vleaves(e, acc):
    if e[0] == "var":
        acc.add(e[1])
    elif e[0] in ("neg", "exp"):
        vleaves(e[1], acc)
    elif e[0] != "num":
        vleaves(e[1], acc)
        vleaves(e[2], acc)
    return acc


def v_coq(e):
    t = e[0]
    if t == "num":
        return num_coq(e[1])
    if t == "var":
        return e[1]
    if t == "neg":
        return "(- (%s))" % v_coq(e[1])
    if t == "exp":
        return "(expf %s)" % v_coq(e[1])
    op = {"add": "+", "sub": "-", "mul": "*", "div": "/"}[t]
    return "(%s %s %s)" % (v_coq(e[1]), op, v_coq(e[2]))


def vsubst(e, name, by):
    t = e[0]
    if t == "var":
        return by if e[1] == name else e
    if t == "num":
        return e
    if t in ("neg", "exp"):
        return (t, vsubst(e[1], name, by))
    return (t, vsubst(e[1], name, by), vsubst(e[2], name, by))


# ---------------------------------------------------------------------------------------- statements

RANK = {"clear": 0, "copy": 1, "callpad": 2, "fwd": 3, "loss": 4, "inv": 5, "readback": 6, "csrzero": 7,
        "csrcell": 8, "csracc": 9}
RW = {  # kind -> (reads, writes)
    "clear": (set(), {"bp"}), "copy": ({"proj"}, {"bp"}), "callpad": ({"proj"}, {"bp"}),
    "fwd": ({"bp"}, {"ff"}), "loss": ({"ff"}, {"wl"}), "inv": ({"wl"}, {"wl", "wp"}),
    "readback": ({"wp"}, {"wake"}), "csrzero": (set(), {"csri"}), "csrcell": ({"ff"}, {"csr"}),
    "csracc": ({"csr", "csri"}, {"csri"})}


class Kernels:
    def __init__(self):
        self.k = {}

    def set(self, name, value):
        if name in self.k and self.k[name] != value:
            raise TranslateError("two different right-hand sides for kernel %s" % name)
        self.k[name] = value


def rw_of(st):
    if st[0] == "for":
        r, w = set(), set()
        for b in st[2]:
            rr, ww = rw_of(b)
            r |= rr
            w |= ww
        return r, w
    return RW[st[0]]


def rank_of(st):
    if st[0] == "for":
        return min(rank_of(b) for b in st[2]) if st[2] else 99
    return RANK[st[0]]


def canon(block):
    """dependency-respecting canonical order: among the statements all of whose conflicting
    predecessors are out, emit the one of least rank (ties: source order)"""
    block = [("for", s[1], canon(s[2])) if s[0] == "for" else s for s in block]
    info = [rw_of(s) for s in block]
    n = len(block)

    def conflict(i, j):
        (ri, wi), (rj, wj) = info[i], info[j]
        return bool(wi & (rj | wj)) or bool(wj & ri)
    done, out = set(), []
    while len(out) < n:
        ready = [i for i in range(n) if i not in done and all(j in done or not conflict(j, i) for j in range(i))]
        i = min(ready, key=lambda t: (rank_of(block[t]), t))
        done.add(i)
        out.append(block[i])
    return out


def loop_header(st, cx):
    ks = st.get("inner", [])
    if len(ks) != 5:
        raise TranslateError("for statement with %d parts" % len(ks))
    init, _, cond, inc, body = ks
    vds = [c for c in kids(init)] if init and init.get("kind") == "DeclStmt" else []
    if len(vds) != 1 or vds[0].get("kind") != "VarDecl":
        raise TranslateError("loop does not declare exactly one counter")
    var = vds[0]["name"]
    if not kids(vds[0]) or not is_zero(kids(vds[0])[0]) or unwrap(kids(vds[0])[0]).get("kind") != "IntegerLiteral":
        raise TranslateError("loop over %s does not start at 0" % var)
    c = unwrap(cond)
    if c.get("kind") != "BinaryOperator" or c.get("opcode") not in ("<", ">", "!=", "<="):
        raise TranslateError("loop condition is not a comparison of the counter with a bound")
    a, b = kids(c)

    def isvar(m):
        m = unwrap(m)
        return m.get("kind") == "DeclRefExpr" and nm(m) == var
    op = c["opcode"]
    if op in ("<", "<=", "!=") and isvar(a):
        bound = ix(b, cx)
    elif op in (">", "!=") and isvar(b):
        bound = ix(a, cx)
    else:
        raise TranslateError("loop condition does not bound the counter from above")
    if op == "<=":
        bound = ("add", bound, ("c", 1))
    i = unwrap(inc)
    ok = False
    if i.get("kind") == "UnaryOperator" and i.get("opcode") == "++" and isvar(kids(i)[0]):
        ok = True
    if i.get("kind") == "CompoundAssignOperator" and i.get("opcode") == "+=" and isvar(kids(i)[0]):
        s = unwrap(kids(i)[1])
        ok = s.get("kind") == "IntegerLiteral" and int(s["value"]) == 1
    if not ok:
        raise TranslateError("loop increment is not a unit step")
    return var, bound, body


def stmt(st, cx, kern, out):
    """translate one statement, appending to out; may extend cx.env (declarations)"""
    k = st.get("kind")
    if k in ("NullStmt", "ReturnStmt"):
        return
    if k == "CompoundStmt":
        inner = cx.child()
        for c in kids(st):
            stmt(c, inner, kern, out)
        return
    if k == "DeclStmt":
        for vd in kids(st):
            if vd.get("kind") != "VarDecl":
                raise TranslateError("declaration of kind %s" % vd.get("kind"))
            decl(vd, cx)
        return
    if k == "ForStmt":
        var, bound, body = loop_header(st, cx)
        if cx.depth >= 2:
            raise TranslateError("loops nested deeper than two")
        inner = cx.child()
        inner.env[var] = ("ix", ("v", cx.depth))
        inner.depth = cx.depth + 1
        b = []
        stmt(body, inner, kern, b)
        # a loop that only zeroes _bp_padded[v] is a fill
        if len(b) == 1 and b[0][0] == "clear1":
            if b[0][1] != ("v", cx.depth):
                raise TranslateError("zeroing loop does not index _bp_padded by its counter")
            out.append(("clear", ("c", 0), bound))
            return
        if any(s[0] == "clear1" for s in b):
            raise TranslateError("single-cell zeroing of _bp_padded inside a larger loop body")
        # a loop whose only statement copies projection[S + v] to _bp_padded[D + v] is std::copy_n(proj + S, bound, bp + D)
        if len(b) == 1 and b[0][0] == "copy1":
            v = ("v", cx.depth)
            dp, sp = ix_poly(b[0][1]), ix_poly(b[0][2])
            if dp.get((v,), 0) != 1 or sp.get((v,), 0) != 1 or any(v in m for m in dp if m != (v,)) or any(v in m for m in sp if m != (v,)):
                raise TranslateError("copy loop does not index both buffers by base + counter")
            dbase = ix_norm(("sub", b[0][1], v))
            sbase = ix_norm(("sub", b[0][2], v))
            out.append(("copy", sbase, bound, dbase))
            return
        if any(s[0] == "copy1" for s in b):
            raise TranslateError("single-cell copy into _bp_padded inside a larger loop body")
        out.append(("for", bound, b))
        return
    if k == "IfStmt":
        cutoff_if(st, cx)
        return
    e = unwrap(st)
    k = e.get("kind")
    if k == "CXXMemberCallExpr":
        me = unwrap(kids(e)[0])
        if me.get("kind") == "MemberExpr" and me.get("name") == "padBunchProfiles" and \
                unwrap(kids(me)[0]).get("kind") == "CXXThisExpr" and len(kids(e)) == 1:
            out.append(("callpad",))
            return
        raise TranslateError("member call %s as a statement" % me.get("name"))
    if k == "CallExpr":
        f = callee_name(e)
        args = kids(e)[1:]
        if f == "fft_execute" and len(args) == 1:
            m = member_of_this(args[0])
            if m == "_fft_bunchprofile":
                out.append(("fwd",))
                return
            if m == "_fft_wakelosses":
                out.append(("inv",))
                return
            raise TranslateError("fft_execute of %s" % m)
        if f == "fill_n" and len(args) == 3:
            p = ptr(args[0], cx)
            if p[1] != "bp" or not is_zero(args[2]):
                raise TranslateError("fill_n is not a zero fill of _bp_padded")
            out.append(("clear", p[2], ix(args[1], cx)))
            return
        if f == "fill" and len(args) == 3:
            p, q = ptr(args[0], cx), ptr(args[1], cx)
            if p[1] != "bp" or q[1] != "bp" or not is_zero(args[2]):
                raise TranslateError("fill is not a zero fill of _bp_padded")
            out.append(("clear", p[2], ("sub", q[2], p[2])))
            return
        if f in ("copy_n", "copy") and len(args) == 3:
            if f == "copy_n":
                s, ln, d = ptr(args[0], cx), ix(args[1], cx), ptr(args[2], cx)
            else:
                s, l2, d = ptr(args[0], cx), ptr(args[1], cx), ptr(args[2], cx)
                if l2[1] != s[1]:
                    raise TranslateError("std::copy range over two different buffers")
                ln = ("sub", l2[2], s[2])
            if s[1] != "proj" or d[1] != "bp":
                raise TranslateError("copy is not from the projection into _bp_padded")
            out.append(("copy", s[2], ln, d[2]))
            return
        raise TranslateError("call of %s as a statement" % f)
    if k == "CXXOperatorCallExpr" and callee_name(e) == "operator=":
        lhs, rhs = kids(e)[1], kids(e)[2]
        s = subscript(lhs, cx)
        if s is None or s[0] != "wl":
            raise TranslateError("complex assignment to something other than _wakelosses[...]")
        r = unwrap(rhs)
        if r.get("kind") != "CXXOperatorCallExpr" or callee_name(r) != "operator*":
            raise TranslateError("_wakelosses[...] is not assigned a product")
        a, b = kids(r)[1], kids(r)[2]
        za, zb = impedance_at(a, cx), impedance_at(b, cx)
        if za is not None and zb is None:
            zi, fi, order = za, ff_at(b, cx), "zf"
        elif zb is not None and za is None:
            zi, fi, order = zb, ff_at(a, cx), "fz"
        else:
            raise TranslateError("_wakelosses[...] is not impedance times form factor")
        if fi is None:
            raise TranslateError("_wakelosses[...]: the other factor is not _formfactor[...]")
        kern.set("loss", order)
        out.append(("loss", s[1], zi, fi))
        return
    if k == "BinaryOperator" and e.get("opcode") == "=":
        lhs, rhs = kids(e)
        s = None
        try:
            s = subscript(lhs, cx)
        except TranslateError:
            s = None
        if s is not None:
            if s[0] == "bp" and is_zero(rhs):
                out.append(("clear1", s[1]))
                return
            if s[0] == "bp":
                # `_bp_padded[D + x] = projection[S + x]` inside a counting loop over x: a copy written as a loop
                try:
                    r = subscript(rhs, cx)
                except TranslateError:
                    r = None
                if r is not None and r[0] == "proj":
                    out.append(("copy1", s[1], r[1]))
                    return
            raise TranslateError("assignment to cell of buffer %s" % s[0])
        w = marray2(lhs, cx, "_wakepotential")
        if w is not None:
            rd = Reads()
            v = val(rhs, cx, rd)
            if vleaves(v, set()) - {"wakescaling", "w"} or "wp" not in rd.d or set(rd.d) != {"wp"}:
                raise TranslateError("_wakepotential[..][..] is not a function of _wakescaling and one cell of _wakepotential_padded")
            kern.set("scale", v)
            out.append(("readback", w[0], w[1], rd.d["wp"]))
            return
        c = marray2(lhs, cx, "_csrspectrum")
        if c is not None:
            rd = Reads()
            v = val(rhs, cx, rd)
            csr_cell(c, v, rd, cx, kern, out)
            return
        z = marray1(lhs, cx, "_csrintensity")
        if z is not None:
            if not is_zero(rhs):
                raise TranslateError("_csrintensity[...] assigned something other than 0")
            out.append(("csrzero", z))
            return
        raise TranslateError("assignment not understood")
    if k == "CompoundAssignOperator":
        lhs, rhs = kids(e)
        ln = unwrap(lhs)
        if ln.get("kind") == "DeclRefExpr" and nm(ln) in cx.env and cx.env[nm(ln)][0] == "val":
            raise TranslateError("unconditional update of the local %s" % nm(ln))
        z = marray1(lhs, cx, "_csrintensity")
        if z is not None and e.get("opcode") == "+=":
            rd = Reads()
            v = val(rhs, cx, rd)
            if vleaves(v, set()) - {"delta", "spec"} or set(rd.d) != {"spec"}:
                raise TranslateError("_csrintensity[...] += is not a function of _axis_freq.delta() and one cell of _csrspectrum")
            kern.set("acc", v)
            out.append(("csracc", z, rd.d["spec"][0], rd.d["spec"][1]))
            return
        raise TranslateError("compound assignment %s not understood" % e.get("opcode"))
    raise TranslateError("statement of kind %s" % k)


def csr_cell(c, v, rd, cx, kern, out):
    leaves = vleaves(v, set())
    allowed = {"ffr", "rez", "normf", "hertz", "fax", "fc", "CUTSEL"}
    if leaves - allowed:
        raise TranslateError("_csrspectrum[..][..]: unexpected operands %s" % sorted(leaves - allowed))
    if "zi" not in rd.d or "fi" not in rd.d:
        raise TranslateError("_csrspectrum[..][..] does not read (*_impedance)[..].real() and std::norm(_formfactor[..])")
    sel = cx.env.get("#cutsel")
    if "CUTSEL" in leaves:
        if sel is None:
            raise TranslateError("internal: cutoff selection without an if")
        cmpk, on, off, rdon = sel
        v_on, v_off = vsubst(v, "CUTSEL", on), vsubst(v, "CUTSEL", off)
        for kk, vv in rdon.d.items():
            rd.add(kk, vv)
    else:
        cmpk, v_on, v_off = "never", v, v
    if vleaves(v_off, set()) - {"ffr", "rez", "normf"}:
        raise TranslateError("with the cutoff off the spectrum cell depends on %s" % sorted(vleaves(v_off, set())))
    kern.set("csr_on", v_on)
    kern.set("csr_off", v_off)
    kern.set("cut_cmp", cmpk)
    ax = rd.d.get("ax", rd.d["zi"])
    out.append(("csrcell", c[0], c[1], ax, rd.d["zi"], rd.d["fi"]))


def decl(vd, cx):
    name = vd["name"]
    if vd.get("storageClass") in ("static", "extern") or vd.get("tls"):
        raise TranslateError("local %s has static storage (state that outlives the call)" % name)
    ks = kids(vd)
    if not ks:
        raise TranslateError("uninitialised local %s" % name)
    init = ks[0]
    qt = (vd.get("type") or {}).get("qualType", "")
    # projection view
    try:
        v = view(init, cx)
    except TranslateError:
        v = None
    if v is not None:
        cx.env[name] = v
        return
    if "*" in qt:
        cx.env[name] = ptr(init, cx)
        return
    # complex locals: one impedance entry or one form factor cell
    try:
        zi = impedance_at(init, cx)
    except TranslateError:
        zi = None
    if zi is not None:
        cx.env[name] = ("zat", zi)
        return
    fi = ff_at(init, cx)
    if fi is not None:
        cx.env[name] = ("ffat", fi)
        return
    # integer or real local
    try:
        cx.env[name] = ("ix", ix(init, cx))
        return
    except TranslateError:
        pass
    rd = Reads()
    v = val(init, cx, rd)
    const = qt.strip().startswith("const")
    cx.env[name] = ("val", v, rd, const)


def cutoff_if(st, cx):
    """if (cutoff_frequency CMP 0) { local *= EXPR; }"""
    ks = kids(st)
    if len(ks) != 2:
        raise TranslateError("if with an else branch")
    c = unwrap(ks[0])
    if c.get("kind") != "BinaryOperator" or c.get("opcode") not in (">", ">=", "!=", "<", "<=", "=="):
        raise TranslateError("if condition is not a comparison")
    a, b = kids(c)
    ua = unwrap(a)
    ub = unwrap(b)
    op = c["opcode"]
    if ua.get("kind") == "DeclRefExpr" and nm(ua) == "cutoff_frequency" and is_zero(b):
        pass
    elif ub.get("kind") == "DeclRefExpr" and nm(ub) == "cutoff_frequency" and is_zero(a):
        op = {">": "<", "<": ">", ">=": "<=", "<=": ">=", "!=": "!=", "==": "=="}[op]
    else:
        raise TranslateError("if condition does not compare cutoff_frequency with 0")
    body = []
    b0 = ks[1]
    todo = [b0]
    while todo:
        t = todo.pop(0)
        if t.get("kind") == "CompoundStmt":
            todo = kids(t) + todo
        elif t.get("kind") != "NullStmt":
            body.append(t)
    if len(body) != 1:
        raise TranslateError("cutoff branch has %d statements" % len(body))
    e = unwrap(body[0])
    if e.get("kind") != "CompoundAssignOperator" or e.get("opcode") != "*=":
        raise TranslateError("cutoff branch is not `local *= factor`")
    lhs, rhs = kids(e)
    ln = unwrap(lhs)
    if ln.get("kind") != "DeclRefExpr" or nm(ln) not in cx.env or cx.env[nm(ln)][0] != "val":
        raise TranslateError("cutoff branch does not update a real local")
    name = nm(ln)
    cur = cx.env[name]
    if len(cur) > 3 and cur[3]:
        raise TranslateError("cutoff branch updates a const local")
    if "#cutsel" in cx.env:
        raise TranslateError("two cutoff branches")
    rd = Reads()
    f = val(rhs, cx, rd)
    on = ("mul", cur[1], f)
    cx.env["#cutsel"] = (op, on, cur[1], rd)
    cx.env[name] = ("val", ("var", "CUTSEL"), cur[2], False)


# ---------------------------------------------------------------------------------------- emission

def st_coq(s):
    t = s[0]
    if t == "clear":
        return "SClearBp %s %s" % (ix_coq(s[1]), ix_coq(s[2]))
    if t == "copy":
        return "SCopyBp %s %s %s" % tuple(ix_coq(x) for x in s[1:])
    if t == "callpad":
        return "SCallPad"
    if t == "fwd":
        return "SFwd"
    if t == "inv":
        return "SInv"
    if t == "loss":
        return "SLoss %s %s %s" % tuple(ix_coq(x) for x in s[1:])
    if t == "readback":
        return "SReadback %s %s %s" % tuple(ix_coq(x) for x in s[1:])
    if t == "csrzero":
        return "SCsrZero %s" % ix_coq(s[1])
    if t == "csrcell":
        return "SCsrCell %s %s %s %s %s" % tuple(ix_coq(x) for x in s[1:])
    if t == "csracc":
        return "SCsrAcc %s %s %s" % tuple(ix_coq(x) for x in s[1:])
    raise TranslateError("internal: statement %s" % t)


def prog_coq(name, block, comment):
    lines = []
    for s in block:
        if s[0] == "for":
            if any(b[0] == "for" for b in s[2]):
                inner = []
                for b in s[2]:
                    if b[0] == "for":
                        if any(c[0] == "for" for c in b[2]):
                            raise TranslateError("loops nested deeper than two")
                        inner.append("SFor1 %s [%s]" % (ix_coq(b[1]), "; ".join(st_coq(c) for c in b[2])))
                    else:
                        inner.append("S0 (%s)" % st_coq(b))
                lines.append("SFor2 %s\n      [ %s ]" % (ix_coq(s[1]), ";\n        ".join(inner)))
            else:
                lines.append("S1 (SFor1 %s [%s])" % (ix_coq(s[1]), "; ".join(st_coq(c) for c in s[2])))
        else:
            lines.append("S1 (S0 (%s))" % st_coq(s))
    return "(* %s *)\nDefinition %s : list stm2 :=\n  [ %s ].\n" % (comment, name, ";\n    ".join(lines))


def method_body(name):
    docs = ast_of(SRC, name)
    for d in docs:
        if d.get("kind") == "CXXMethodDecl" and d.get("name") == name:
            for c in d.get("inner", []):
                if c.get("kind") == "CompoundStmt":
                    return c
    raise TranslateError("ElectricField::%s not found" % name)


def check_ctor():
    docs = ast_of(SRC, "ElectricField::ElectricField")
    seen = False
    for d in docs:
        if d.get("kind") != "CXXConstructorDecl" or not any(c.get("kind") == "CompoundStmt" for c in kids(d)):
            continue
        for c in kids(d):
            if c.get("kind") == "CXXCtorInitializer" and (c.get("anyInit") or {}).get("name") == "_nbunches":
                ks = kids(c)
                r = unwrap(ks[0]) if ks else {}
                if r.get("kind") != "DeclRefExpr" or nm(r) != "nb":
                    raise TranslateError("_nbunches is not initialised from PhaseSpace::nb")
                seen = True
    if not seen:
        raise TranslateError("constructor initialiser of _nbunches not found")


WBUF = {"_bp_padded": "Bbp", "_formfactor": "Bff", "_wakelosses": "Bwl", "_wakepotential_padded": "Bwp"}


def uncast(n):
    while True:
        n = unwrap(n)
        if n.get("kind") in ("CXXReinterpretCastExpr", "CXXConstCastExpr") and len(kids(n)) == 1:
            n = kids(n)[0]
            continue
        return n


def z_coq(e, names):
    """normalised index expression as a Z term over the given variable names"""
    e = ix_norm(e)

    def go(t):
        k = t[0]
        if k == "c":
            return str(t[1]) if t[1] >= 0 else "(%d)" % t[1]
        if k in names:
            return names[k]
        if k in ("add", "sub", "mul", "div"):
            return "(%s %s %s)" % (go(t[1]), {"add": "+", "sub": "-", "mul": "*", "div": "/"}[k], go(t[2]))
        raise TranslateError("term %s in a buffer length" % k)
    return go(e)


def alloc_zeroed(fn):
    """fft::fft_alloc_real / fft_alloc_complex (src/FFTWWrapper.cpp): how many real cells of the new array the
    single std::fill_n zeroes, as a function of the parameter n"""
    docs = ast_of("src/FFTWWrapper.cpp", fn)
    body = None
    for d in docs:
        if d.get("kind") == "FunctionDecl" and d.get("name") == fn:
            for c in d.get("inner", []):
                if c.get("kind") == "CompoundStmt":
                    body = c
    if body is None:
        raise TranslateError("fft::%s not found" % fn)
    fills = []

    def look(m):
        if m.get("kind") == "CallExpr" and callee_name(m) in ("fill_n", "fill", "memset"):
            fills.append(m)
        for c in kids(m):
            look(c)
    look(body)
    if len(fills) != 1 or callee_name(fills[0]) != "fill_n":
        raise TranslateError("fft::%s does not zero its array with exactly one std::fill_n" % fn)
    args = kids(fills[0])[1:]
    if len(args) != 3 or not is_zero(args[2]):
        raise TranslateError("fft::%s: fill_n is not a zero fill" % fn)
    p = uncast(args[0])
    if p.get("kind") != "DeclRefExpr" or nm(p) != "rv":
        raise TranslateError("fft::%s: fill_n does not start at the new array" % fn)
    # element type of the pointer handed to fill_n: complex elements count twice
    w = args[0]
    while w.get("kind") in ("ImplicitCastExpr", "ParenExpr") and len(kids(w)) == 1:
        w = kids(w)[0]
    qt = (w.get("type") or {}).get("qualType", "")
    factor = 2 if ("complex" in qt or "[2]" in qt) else 1
    cx = Ctx()
    cx.env["n"] = ("ix", ("nmax",))
    cnt = ix(args[1], cx)
    if factor == 2:
        cnt = ("mul", ("c", 2), cnt)
    return z_coq(cnt, {"nmax": "n"})


def setup_facts():
    """constructor body and _initWakeLossFFT: which allocation each work buffer comes from and with what
    length, and between which buffers the two plans are made"""
    bodies = []
    for d in ast_of(SRC, "ElectricField::ElectricField"):
        if d.get("kind") == "CXXConstructorDecl":
            for c in kids(d):
                if c.get("kind") == "CompoundStmt" and kids(c):
                    bodies.append(c)
    for d in ast_of(SRC, "_initWakeLossFFT"):
        if d.get("kind") == "CXXMethodDecl" and d.get("name") == "_initWakeLossFFT":
            for c in kids(d):
                if c.get("kind") == "CompoundStmt":
                    bodies.append(c)
    alloc, alias, plans = {}, {}, {}

    def walk(st):
        if st.get("kind") == "CompoundStmt":
            for c in kids(st):
                walk(c)
            return
        e = unwrap(st)
        if e.get("kind") != "BinaryOperator" or e.get("opcode") != "=":
            return
        lhs, rhs = kids(e)
        m = member_of_this(lhs)
        if m is None:
            return
        r = uncast(rhs)
        if r.get("kind") == "CallExpr":
            f = callee_name(r)
            args = kids(r)[1:]
            if f in ("fft_alloc_real", "fft_alloc_complex") and len(args) == 1:
                if m in alloc:
                    raise TranslateError("%s allocated twice" % m)
                alloc[m] = (f == "fft_alloc_complex", ix(args[0], Ctx()))
            elif f == "prepareFFT" and len(args) == 3:
                a, b = member_of_this(uncast(args[1])), member_of_this(uncast(args[2]))
                if m in plans:
                    raise TranslateError("plan %s made twice" % m)
                plans[m] = (ix(args[0], Ctx()), a, b)
        else:
            src = member_of_this(r)
            if src is not None:
                alias[m] = src
    for b in bodies:
        walk(b)
    bufs = []
    for mem, tag in WBUF.items():
        root = mem
        seen = set()
        while root in alias and root not in alloc:
            if root in seen:
                raise TranslateError("alias cycle at %s" % root)
            seen.add(root)
            root = alias[root]
        if root not in alloc:
            raise TranslateError("allocation of %s not found" % mem)
        bufs.append((tag, alloc[root][0], alloc[root][1]))
    res = {}
    for pm, key in (("_fft_bunchprofile", "fwd"), ("_fft_wakelosses", "inv")):
        if pm not in plans:
            raise TranslateError("plan %s not found" % pm)
        ln, a, b = plans[pm]
        if a not in WBUF or b not in WBUF:
            raise TranslateError("plan %s is not between two work buffers" % pm)
        res[key] = (ln, WBUF[a], WBUF[b])
    return bufs, res


def translate():
    check_ctor()
    kern = Kernels()
    progs = {}
    for fn in ("padBunchProfiles", "wakePotential", "updateCSR"):
        out = []
        stmt(method_body(fn), Ctx(), kern, out)
        if any(s[0] == "clear1" for s in out):
            raise TranslateError("%s: single-cell zeroing of _bp_padded outside a loop" % fn)
        progs[fn] = canon(out)
    if any(s[0] == "callpad" for s in progs["padBunchProfiles"]):
        raise TranslateError("padBunchProfiles calls itself")
    for k in ("loss", "scale", "acc", "csr_on", "csr_off", "cut_cmp"):
        if k not in kern.k:
            raise TranslateError("right-hand side %s not found" % k)
    cmpk = kern.k["cut_cmp"]
    cut_tbl = {">": ("false", "false", "true"), ">=": ("true", "false", "true"), "!=": ("false", "true", "true"),
               "<": ("false", "true", "false"), "<=": ("true", "true", "false"), "==": ("true", "false", "false"),
               "never": ("false", "false", "false")}[cmpk]
    out = ["(* GENERATED on every run by translate/efield2coq.py from ElectricField::padBunchProfiles, wakePotential and",
           "   updateCSR (src/PS/ElectricField.cpp). Do not edit.  Statement language and its meaning: Model/EFieldProg.v.",
           "   IVar d: the counter of the loop at nesting depth d. *)",
           "From Coq Require Import List ZArith.",
           "From Inovesa Require Import Base.FieldKit Model.EFieldProg.",
           "Import ListNotations.", "Local Open Scope Z_scope.", ""]
    out.append(prog_coq("gen_pad_prog", progs["padBunchProfiles"], "ElectricField::padBunchProfiles"))
    out.append(prog_coq("gen_wake_prog", progs["wakePotential"], "ElectricField::wakePotential"))
    out.append(prog_coq("gen_csr_prog", progs["updateCSR"], "ElectricField::updateCSR"))
    out += ["(* the cutoff factor is applied iff [gen_csr_cut_on (cutoff_frequency ?= 0)]  (source: `cutoff_frequency %s 0`) *)" % cmpk,
            "Definition gen_csr_cut_on (c : comparison) : bool :=",
            "  match c with Eq => %s | Lt => %s | Gt => %s end." % cut_tbl, "",
            "(* operand order of the complex product in `_wakelosses[..] = ...`: true = impedance * form factor *)",
            "Definition gen_loss_impedance_first : bool := %s." % ("true" if kern.k["loss"] == "zf" else "false"), "",
            "Section Kernels.", "  Variable K : Fld.", "  Local Open Scope F_scope.",
            "  (* _wakepotential[b][x] = ... : wakescaling = _wakescaling, w = the cell of _wakepotential_padded *)",
            "  Definition gen_k_scale (wakescaling w : K) : K := %s." % v_coq(kern.k["scale"]),
            "  (* _csrspectrum[n][i] = ... with the cutoff off: ffr = _formfactorrenorm, rez = Re Z, normf = std::norm(form factor) *)",
            "  Definition gen_k_csr_off (ffr rez normf : K) : K := %s." % v_coq(kern.k["csr_off"]),
            "  (* ... and on: hertz = _axis_freq.scale(\"Hertz\"), fax = _axis_freq[i], fc = cutoff_frequency, expf = std::exp *)",
            "  Definition gen_k_csr_on (expf : K -> K) (ffr hertz fax fc rez normf : K) : K := %s." % v_coq(kern.k["csr_on"]),
            "  (* _csrintensity[n] += ... : a = the old value, delta = _axis_freq.delta(), spec = the cell of _csrspectrum *)",
            "  Definition gen_k_acc (a delta spec : K) : K := (a + %s)." % v_coq(kern.k["acc"]),
            "End Kernels."]
    zr, zc = alloc_zeroed("fft_alloc_real"), alloc_zeroed("fft_alloc_complex")
    bufs, plans = setup_facts()
    out += ["", "(* set-up (constructor, _initWakeLossFFT, src/FFTWWrapper.cpp): real cells zeroed by fft_alloc_real(n) / fft_alloc_complex(n);",
            "   the work buffers (complex?, allocated length); the two plans (length, input, output) *)",
            "Definition gen_alloc_real_zeroed (n : Z) : Z := %s." % zr,
            "Definition gen_alloc_complex_zeroed (n : Z) : Z := %s." % zc,
            "Definition gen_buffers (nmax : Z) : list (wbuf * bool * Z) :=",
            "  [ %s ]." % "; ".join("(%s, %s, %s)" % (t, "true" if c else "false", z_coq(l, {"nmax": "nmax"})) for t, c, l in bufs),
            "Definition gen_plan_fwd (nmax : Z) : Z * wbuf * wbuf := (%s, %s, %s)." % (z_coq(plans["fwd"][0], {"nmax": "nmax"}), plans["fwd"][1], plans["fwd"][2]),
            "Definition gen_plan_inv (nmax : Z) : Z * wbuf * wbuf := (%s, %s, %s)." % (z_coq(plans["inv"][0], {"nmax": "nmax"}), plans["inv"][1], plans["inv"][2])]
    return "\n".join(out) + "\n"


if __name__ == "__main__":
    dst = sys.argv[1] if len(sys.argv) > 1 else os.path.join(VERIF, "coq", "Gen", "Gen_EField.v")
    try:
        text = translate()
    except TranslateError as e:
        print("TRANSLATE-ERROR Gen_EField: %s" % e)
        sys.exit(2)
    ch = write_if_changed(dst, text)
    print("Gen_EField.v %s" % ("regenerated" if ch else "unchanged"))
