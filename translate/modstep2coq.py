#!/usr/bin/env python3
# GEN: Gen_ModStep
"""Gen_ModStep.v from main() in src/main.cpp: what main() hands to the two DynamicRFKickMap
constructors (DESIGN 5/C19 (4): "with A = configured amplitude and 2 pi f dt from main()").

Read off the clang JSON AST:
 * the two `new DynamicRFKickMap(...)` expressions of main(); each is matched with the constructor
   *definition* in src/SM/DynamicRFKickMap.cpp clang resolved it to (`ctorType`), which gives the
   parameter names; every argument must be a plain local variable (or a copy of a shared_ptr).
   -> `main_dyn_args_linear / _sinusoidal : list (string * string)`  (parameter, argument variable)
 * for the parameters `modampl` and `modtimeincrement` the *definition* of the argument variable,
   followed through main()'s `const` locals as far as their initialisers are arithmetic
   (+ - * /, unary -, literals, `?:` on a `>`/`<` comparison, std::max, two_pi<double>(), casts
   that are exact in exact arithmetic).  Everything else is a leaf [env "name"]: option getters
   (`opts.getX()` -> "getX"), non-const variables (`fs`, which main() may recompute from alpha0
   before any of the translated definitions is evaluated), variables with other initialisers.
   -> `main_lin_modampl`, `main_lin_modtimeincrement`, `main_sin_modampl`, `main_sin_modtimeincrement`
      : functions over a generic field K with `two_pi`, `fmax`, `fgt` abstract,
   named after the constructor parameter they feed (so renaming a local of main() changes nothing).
Fails loudly (TranslateError) when: there are not exactly one linear (parameter `angle`) and one
sinusoidal (parameter `V_RF`) call, clang's constructor is not one of the definitions, an argument is
not a variable, a followed variable is assigned to or has its address taken anywhere in main()."""
import sys, os, re
sys.path.insert(0, os.path.dirname(os.path.abspath(__file__)))
from cxx_ast import *

WRAP = ("ImplicitCastExpr", "ParenExpr", "CXXFunctionalCastExpr", "CStyleCastExpr", "CXXStaticCastExpr",
        "ExprWithCleanups", "MaterializeTemporaryExpr", "CXXBindTemporaryExpr", "ConstantExpr")
BAD_CASTS = ("FloatingToIntegral", "FloatingToBoolean", "IntegralToBoolean")


class Opaque(Exception):
    """initialiser outside the arithmetic fragment: the variable stays a leaf"""


def unwrap(n):
    while True:
        k = n.get("kind")
        if k in WRAP:
            if n.get("castKind") in BAD_CASTS:
                raise Opaque("cast %s" % n.get("castKind"))
            ks = kids(n)
            if len(ks) != 1:
                raise Opaque("wrapper with %d children" % len(ks))
            n = ks[0]
        elif k == "CXXConstructExpr" and len([c for c in kids(n) if c.get("kind") != "CXXDefaultArgExpr"]) == 1:
            n = [c for c in kids(n) if c.get("kind") != "CXXDefaultArgExpr"][0]
        else:
            return n


def find(n, pred, acc):
    if pred(n):
        acc.append(n)
    for c in kids(n):
        find(c, pred, acc)
    return acc


def callee_name(n):
    c = kids(n)[0]
    while c.get("kind") in WRAP and len(kids(c)) == 1:
        c = kids(c)[0]
    if c.get("kind") == "DeclRefExpr":
        return c["referencedDecl"].get("name")
    if c.get("kind") == "MemberExpr":
        return c.get("name")
    return None


class Main:
    def __init__(self, body):
        self.body = body
        self.decls = {}          # name -> VarDecl (declared anywhere in main)
        for v in find(body, lambda n: n.get("kind") == "VarDecl", []):
            self.decls.setdefault(v.get("name"), []).append(v)
        # variables written after their declaration or whose address escapes
        self.written = set()
        for n in find(body, lambda n: n.get("kind") in ("BinaryOperator", "CompoundAssignOperator", "UnaryOperator"), []):
            op = n.get("opcode", "")
            if n.get("kind") == "UnaryOperator" and op not in ("++", "--", "&"):
                continue
            if n.get("kind") == "BinaryOperator" and not (op == "=" or (op.endswith("=") and op not in ("==", "!=", "<=", ">="))):
                continue
            t = kids(n)[0]
            while t.get("kind") in WRAP and len(kids(t)) == 1:
                t = kids(t)[0]
            if t.get("kind") == "DeclRefExpr":
                self.written.add(t["referencedDecl"].get("name"))
        self.leaves = set()
        self.followed = []

    def is_const_value(self, v):
        qt = v.get("type", {}).get("qualType", "")
        return (qt.startswith("const ") or " const" in qt) and "*" not in qt and "&" not in qt

    def expr(self, n, depth=0):
        """IR: ('num',q) ('leaf',name) ('twopi',) ('neg',a) (op,a,b) ('max',a,b) ('ite',('gt',a,b),x,y)"""
        if depth > 40:
            raise TranslateError("definitions nest too deeply")
        n = unwrap(n)
        k = n.get("kind")
        ks = kids(n)
        if k == "IntegerLiteral":
            return ("num", Fraction(int(n["value"])))
        if k == "FloatingLiteral":
            return ("num", Fraction(n["value"]))
        if k == "UnaryOperator" and n.get("opcode") in ("-", "+"):
            a = self.expr(ks[0], depth + 1)
            return ("neg", a) if n["opcode"] == "-" else a
        if k == "BinaryOperator" and n.get("opcode") in ("+", "-", "*", "/"):
            op = {"+": "add", "-": "sub", "*": "mul", "/": "div"}[n["opcode"]]
            return (op, self.expr(ks[0], depth + 1), self.expr(ks[1], depth + 1))
        if k == "ConditionalOperator":
            c = unwrap(ks[0])
            if c.get("kind") != "BinaryOperator" or c.get("opcode") not in (">", "<"):
                raise Opaque("condition of ?: is not a < or > comparison")
            a, b = self.expr(kids(c)[0], depth + 1), self.expr(kids(c)[1], depth + 1)
            if c["opcode"] == "<":
                a, b = b, a
            return ("ite", ("gt", a, b), self.expr(ks[1], depth + 1), self.expr(ks[2], depth + 1))
        if k == "CallExpr":
            nm = callee_name(n)
            args = [c for c in ks[1:] if c.get("kind") != "CXXDefaultArgExpr"]
            if nm == "max" and len(args) == 2:
                return ("max", self.expr(args[0], depth + 1), self.expr(args[1], depth + 1))
            if nm == "two_pi" and len(args) == 0:
                return ("twopi",)
            raise Opaque("call of %s" % nm)
        if k == "CXXMemberCallExpr":
            nm = callee_name(n)
            base = unwrap(kids(kids(n)[0])[0]) if kids(kids(n)[0]) else {}
            if base.get("kind") == "DeclRefExpr" and base["referencedDecl"].get("name") == "opts" and len(ks) == 1 and nm.startswith("get"):
                self.leaves.add(nm)
                return ("leaf", nm)
            raise Opaque("member call %s" % nm)
        if k == "DeclRefExpr":
            return self.var(n["referencedDecl"].get("name"), depth + 1)
        raise Opaque("expression kind %s" % k)

    def var(self, nm, depth=0):
        vs = self.decls.get(nm, [])
        if len(vs) == 1 and self.is_const_value(vs[0]) and nm not in self.written and kids(vs[0]):
            try:
                e = self.expr(kids(vs[0])[0], depth)
                if nm not in self.followed:
                    self.followed.append(nm)
                return e
            except Opaque:
                pass
        self.leaves.add(nm)
        return ("leaf", nm)


def coq(e):
    t = e[0]
    if t == "num":
        return num_coq(e[1])
    if t == "leaf":
        return '(env "%s")' % e[1]
    if t == "twopi":
        return "two_pi"
    if t == "neg":
        return "(- (%s))" % coq(e[1])
    if t == "max":
        return "(fmax %s %s)" % (coq(e[1]), coq(e[2]))
    if t == "ite":
        return "(if fgt %s %s then %s else %s)" % (coq(e[1][1]), coq(e[1][2]), coq(e[2]), coq(e[3]))
    op = {"add": "+", "sub": "-", "mul": "*", "div": "/"}[t]
    return "(%s %s %s)" % (coq(e[1]), op, coq(e[2]))


def arg_var(a):
    try:
        a = unwrap(a)
    except Opaque as e:
        raise TranslateError("constructor argument: %s" % e)
    if a.get("kind") == "DeclRefExpr":
        return a["referencedDecl"].get("name")
    raise TranslateError("an argument of `new DynamicRFKickMap(...)` is not a plain variable (%s)" % a.get("kind"))


def translate():
    docs = ast_of("src/main.cpp", "main")
    mains = [x for x in docs if x.get("kind") == "FunctionDecl" and x.get("name") == "main"]
    if len(mains) != 1:
        raise TranslateError("%d definitions of main" % len(mains))
    _, body = body_of(mains, "main")
    cdocs = ast_of("src/SM/DynamicRFKickMap.cpp", "DynamicRFKickMap")
    ctors = {}
    for d in cdocs:
        if d.get("kind") == "CXXConstructorDecl" and d.get("name") == "DynamicRFKickMap" and \
                any(c.get("kind") == "CompoundStmt" for c in kids(d)):
            ctors[d["type"]["qualType"]] = [c["name"] for c in kids(d) if c.get("kind") == "ParmVarDecl"]
    news = [n for n in find(body, lambda n: n.get("kind") == "CXXNewExpr", []) if "DynamicRFKickMap" in n.get("type", {}).get("qualType", "")]
    calls = {}
    for nw in news:
        ce = [c for c in kids(nw) if c.get("kind") == "CXXConstructExpr"]
        if len(ce) != 1:
            raise TranslateError("new DynamicRFKickMap without a constructor call")
        ct = ce[0].get("ctorType", {}).get("qualType")
        if ct not in ctors:
            raise TranslateError("main() calls a DynamicRFKickMap constructor that has no definition: %s" % ct)
        ps = ctors[ct]
        args = [arg_var(a) for a in kids(ce[0]) if a.get("kind") != "CXXDefaultArgExpr"]
        if len(args) != len(ps):
            raise TranslateError("%d arguments for %d parameters" % (len(args), len(ps)))
        kind = "linear" if "angle" in ps and "V_RF" not in ps else ("sinusoidal" if "V_RF" in ps and "angle" not in ps else None)
        if kind is None or kind in calls:
            raise TranslateError("the constructor calls of main() are not one linear (angle) and one sinusoidal (V_RF) one")
        calls[kind] = list(zip(ps, args))
    if set(calls) != {"linear", "sinusoidal"}:
        raise TranslateError("main() builds %s dynamic maps, expected a linear and a sinusoidal one" % sorted(calls))
    m = Main(body)
    defs = []
    for kind, short in (("linear", "lin"), ("sinusoidal", "sin")):
        b = dict(calls[kind])
        for p in ("modampl", "modtimeincrement"):
            if p not in b:
                raise TranslateError("the %s constructor has no parameter %s" % (kind, p))
            defs.append(("main_%s_%s" % (short, p), b[p], m.var(b[p])))
    out = []
    out.append("(* GENERATED on every run by translate/modstep2coq.py from src/main.cpp (the two")
    out.append("   `new DynamicRFKickMap(...)` calls and the definitions of the variables passed as modampl and")
    out.append("   modtimeincrement) and src/SM/DynamicRFKickMap.cpp (parameter names). Do not edit.")
    out.append("   const locals followed: %s" % ", ".join(m.followed))
    out.append("   leaves (option getters, non-const or non-arithmetic variables): %s *)" % ", ".join(sorted(m.leaves)))
    out.append("From Coq Require Import List String ZArith.")
    out.append("From Inovesa Require Import Base.FieldKit.")
    out.append("Import ListNotations.")
    out.append("Local Open Scope string_scope.")
    for kind in ("linear", "sinusoidal"):
        out.append("(* (constructor parameter, variable of main() passed for it) *)")
        out.append("Definition main_dyn_args_%s : list (string * string) :=\n  [%s]." % (
            kind, ";\n   ".join('("%s", "%s")' % pa for pa in calls[kind])))
    # the variable passed for `steps` (length of the precomputed queue) must be the bound of the main loop
    loops = []
    for w in find(body, lambda n: n.get("kind") == "WhileStmt", []):
        cond = kids(w)[0]
        if find(cond, lambda n: n.get("kind") == "DeclRefExpr" and n["referencedDecl"].get("name") == "abort", []):
            lt = find(cond, lambda n: n.get("kind") == "BinaryOperator" and n.get("opcode") == "<", [])
            for b in lt:
                try:
                    l, r = unwrap(kids(b)[0]), unwrap(kids(b)[1])
                except Opaque:
                    continue
                if l.get("kind") == "DeclRefExpr" and r.get("kind") == "DeclRefExpr":
                    loops.append((l["referencedDecl"].get("name"), r["referencedDecl"].get("name")))
    if len(loops) != 1:
        raise TranslateError("main loop `while (step < bound && !Display::abort)` not found (%s)" % loops)
    bound = loops[0][1]
    ok = all(dict(calls[k]).get("steps") == bound for k in calls) and bound not in m.written
    out.append("(* the variable passed as `steps` (queue length) is the bound `%s` of the main loop and is never reassigned *)" % bound)
    out.append("Definition main_dyn_steps_arg_is_loop_bound : bool := %s." % ("true" if ok else "false"))
    out.append("Section MainArgs.")
    out.append("  Variable K : Fld.")
    out.append("  Variable two_pi : K.")
    out.append("  Variable fmax : K -> K -> K.       (* std::max *)")
    out.append("  Variable fgt : K -> K -> bool.     (* a > b *)")
    out.append("  Local Open Scope F_scope.")
    for name, var, e in defs:
        out.append("  (* %s *)" % var)
        out.append("  Definition %s (env : string -> K) : K := %s." % (name, coq(e)))
    out.append("End MainArgs.")
    return "\n".join(out) + "\n", dict(calls=calls, defs=defs, followed=m.followed, leaves=sorted(m.leaves))


if __name__ == "__main__":
    dst = sys.argv[1] if len(sys.argv) > 1 else os.path.join(VERIF, "coq", "Gen", "Gen_ModStep.v")
    try:
        text, _ = translate()
    except TranslateError as e:
        print("TRANSLATE-ERROR Gen_ModStep: %s" % e)
        sys.exit(2)
    ch = write_if_changed(dst, text)
    print("Gen_ModStep.v %s" % ("regenerated" if ch else "unchanged"))
