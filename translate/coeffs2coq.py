#!/usr/bin/env python3
# GEN: Gen_Coeffs
"""Gen_Coeffs.v from SourceMap::calcCoefficiants (src/SM/SourceMap.cpp).

Idiom: `switch (it) { case K: ic[0] = e0; ... ic[m-1] = e_{m-1}; break; ... }` with each e_j an
arithmetic expression in `f` and literals.  Float literals computed in double and narrowed
(`interpol_t(-1./6.)`) become exact quotients (DESIGN 3: the model is exact arithmetic; the
2^-25 relative error of that literal is part of the rounding envelope)."""
import sys, os
sys.path.insert(0, os.path.dirname(os.path.abspath(__file__)))
from cxx_ast import *


def translate():
    docs = ast_of("src/SM/SourceMap.cpp", "calcCoefficiants")
    decl, body = body_of(docs, "calcCoefficiants")
    params = [c["name"] for c in decl["inner"] if c.get("kind") == "ParmVarDecl"]
    if params != ["ic", "f", "it"]:
        raise TranslateError("parameters changed: %s" % params)
    st = kids(body)
    if len(st) != 1 or st[0]["kind"] != "SwitchStmt":
        raise TranslateError("body is not a single switch")
    sw = st[0]
    cond, comp = kids(sw)[0], kids(sw)[-1]
    c = strip(cond)
    if c.get("kind") != "DeclRefExpr" or c["referencedDecl"]["name"] != "it":
        raise TranslateError("switch is not over `it`")
    env = {"f": ("var", "f")}
    cases = {}
    cur = None

    def assign(n):
        n = strip(n)
        if n.get("kind") != "BinaryOperator" or n.get("opcode") != "=":
            raise TranslateError("statement is not an assignment: %s" % n.get("kind"))
        lhs, rhs = kids(n)
        lhs = strip(lhs)
        if lhs.get("kind") != "ArraySubscriptExpr":
            raise TranslateError("lhs is not ic[k]")
        base, idx = [strip(x) for x in kids(lhs)]
        if base["referencedDecl"]["name"] != "ic" or idx.get("kind") != "IntegerLiteral":
            raise TranslateError("lhs is not ic[<literal>]")
        return int(idx["value"]), to_ir(rhs, env)

    for s in kids(comp):
        k = s.get("kind")
        if k == "CaseStmt":
            cv, first = kids(s)[0], kids(s)[-1]
            val = None
            n = cv
            while n is not None and val is None:
                if "value" in n:
                    val = int(n["value"])
                ks = kids(n)
                n = ks[0] if ks else None
            if val is None:
                raise TranslateError("case label without constant value")
            cur = val
            if cur in cases:
                raise TranslateError("duplicate case %d" % cur)
            cases[cur] = {}
            j, e = assign(first)
            cases[cur][j] = e
        elif k == "BreakStmt":
            cur = None
        elif k == "DefaultStmt":
            raise TranslateError("default branch present")
        else:
            if cur is None:
                raise TranslateError("statement outside a case")
            j, e = assign(s)
            if j in cases[cur]:
                raise TranslateError("ic[%d] assigned twice in case %d" % (j, cur))
            cases[cur][j] = e
    out = []
    out.append("(* GENERATED on every run by translate/coeffs2coq.py from src/SM/SourceMap.cpp")
    out.append("   (SourceMap::calcCoefficiants). Do not edit. *)")
    out.append("From Coq Require Import List ZArith.")
    out.append("From Inovesa Require Import Base.FieldKit.")
    out.append("Import ListNotations.")
    out.append("Section Gen.")
    out.append("  Variable K : Fld.")
    out.append("  Local Open Scope F_scope.")
    out.append("  Definition coeffs (it : Z) (f : K) : list K :=")
    for cv in sorted(cases):
        m = cases[cv]
        if sorted(m) != list(range(len(m))):
            raise TranslateError("case %d does not fill ic[0..%d]" % (cv, len(m) - 1))
        if len(m) != cv:
            raise TranslateError("case %d writes %d coefficients" % (cv, len(m)))
        out.append("    if (it =? %d)%%Z then [%s] else" % (cv, "; ".join(ir_coq(m[j]) for j in range(len(m)))))
    out.append("    [].")
    out.append("  Definition coeff_cases : list Z := [%s]%%Z." % "; ".join(str(c) for c in sorted(cases)))
    out.append("End Gen.")
    out.append("Arguments coeffs {_}.")
    return "\n".join(out) + "\n", cases


if __name__ == "__main__":
    dst = sys.argv[1] if len(sys.argv) > 1 else os.path.join(VERIF, "coq", "Gen", "Gen_Coeffs.v")
    try:
        text, _ = translate()
    except TranslateError as e:
        print("TRANSLATE-ERROR Gen_Coeffs: %s" % e)
        sys.exit(2)
    ch = write_if_changed(dst, text)
    print("Gen_Coeffs.v %s" % ("regenerated" if ch else "unchanged"))
