#!/usr/bin/env python3
# GEN: Gen_Coeffs
"""Gen_Coeffs.v from SourceMap::calcCoefficiants (src/SM/SourceMap.cpp).

Idiom: `switch (it) { case K: ic[0] = e0; ... ic[m-1] = e_{m-1}; break; ... }` with each e_j an
arithmetic expression in `f` and literals; or the same selection written as a chain
`if (it == K) {...} else if (it == K') {...} ...` without a final else (distinct constants, so the order of the
tests does not matter); `it` may be copied into a local const first.  Float literals computed in double and narrowed
(`interpol_t(-1./6.)`) become exact quotients (DESIGN 3: the model is exact arithmetic; the
2^-25 relative error of that literal is part of the rounding envelope)."""
import sys, os
sys.path.insert(0, os.path.dirname(os.path.abspath(__file__)))
from cxx_ast import *


def assign_stmt(n, env, conv=None):
    conv = conv or to_ir
    n = strip(n)
    if n.get("kind") != "BinaryOperator" or n.get("opcode") != "=":
        raise TranslateError("statement is not an assignment: %s" % n.get("kind"))
    lhs, rhs = kids(n)
    lhs = strip(lhs)
    if lhs.get("kind") != "ArraySubscriptExpr":
        raise TranslateError("lhs is not ic[k]")
    base, idx = [strip(x) for x in kids(lhs)]
    if base["referencedDecl"]["name"] != "ic" or idx.get("kind") != "IntegerLiteral":
        raise TranslateError("lhs is not ic[<literal>]")
    return int(idx["value"]), conv(rhs, env)


def enum_values():
    vals = {}
    for d in ast_of("src/SM/SourceMap.cpp", "InterpolationType"):
        if d.get("kind") == "EnumDecl" and d.get("name") == "InterpolationType":
            for c in kids(d):
                n, v = c, None
                while n is not None and v is None:
                    if "value" in n:
                        v = int(n["value"])
                    ks = kids(n)
                    n = ks[0] if ks else None
                if c.get("kind") == "EnumConstantDecl" and v is not None:
                    vals[c["name"]] = v
    return vals


def const_of(n, enums):
    n = strip(n)
    if n.get("kind") == "IntegerLiteral":
        return int(n["value"])
    if n.get("kind") == "DeclRefExpr" and n["referencedDecl"].get("kind") == "EnumConstantDecl":
        nm = n["referencedDecl"]["name"]
        if nm in enums:
            return enums[nm]
    return None


def if_chain(node, aliases, env, conv=None):
    """if (it == K) {assignments} else if (it == K') {...} ... (no final else)"""
    enums = enum_values()
    cases = {}
    while node is not None:
        if node.get("kind") != "IfStmt":
            raise TranslateError("the if chain ends in an unconditional else branch")
        ks = kids(node)
        if len(ks) not in (2, 3):
            raise TranslateError("if statement with an init statement or condition variable")
        cond = strip(ks[0])
        if cond.get("kind") != "BinaryOperator" or cond.get("opcode") != "==":
            raise TranslateError("condition of the chain is not an equality test")
        a, b = kids(cond)
        sa, sb = strip(a), strip(b)
        if sa.get("kind") == "DeclRefExpr" and sa["referencedDecl"]["name"] in aliases:
            val = const_of(b, enums)
        elif sb.get("kind") == "DeclRefExpr" and sb["referencedDecl"]["name"] in aliases:
            val = const_of(a, enums)
        else:
            raise TranslateError("condition does not test `it`")
        if val is None:
            raise TranslateError("condition does not compare `it` with a constant")
        if val in cases:
            raise TranslateError("duplicate case %d" % val)
        blk = ks[1]
        sts = kids(blk) if blk.get("kind") == "CompoundStmt" else [blk]
        cases[val] = {}
        for st in sts:
            j, e = assign_stmt(st, env, conv)
            if j in cases[val]:
                raise TranslateError("ic[%d] assigned twice in case %d" % (j, val))
            cases[val][j] = e
        node = ks[2] if len(ks) == 3 else None
    return cases


def translate():
    return emit(parse_cases())


def parse_cases(conv=None):
    """{it: {j: expression of ic[j]}}; `conv` turns a clang expression node into the caller's IR (default: the
    exact-arithmetic IR of cxx_ast.to_ir; translate/coeffsfl2coq.py passes a typed one)"""
    docs = ast_of("src/SM/SourceMap.cpp", "calcCoefficiants")
    decl, body = body_of(docs, "calcCoefficiants")
    params = [c["name"] for c in decl["inner"] if c.get("kind") == "ParmVarDecl"]
    if params != ["ic", "f", "it"]:
        raise TranslateError("parameters changed: %s" % params)
    st = kids(body)
    # local const copies of `it` (`const uint_fast8_t npoints = it;`)
    aliases = {"it"}
    while st and st[0].get("kind") == "DeclStmt":
        for vd in kids(st[0]):
            init = strip(kids(vd)[-1]) if kids(vd) else None
            if (vd.get("kind") != "VarDecl" or init is None or init.get("kind") != "DeclRefExpr"
                    or init["referencedDecl"]["name"] not in aliases or "const" not in vd.get("type", {}).get("qualType", "")):
                raise TranslateError("unexpected local declaration %s" % vd.get("name"))
            aliases.add(vd["name"])
        st = st[1:]
    env = {"f": ("var", "f")}
    cases = {}
    cur = None
    if len(st) == 1 and st[0]["kind"] == "IfStmt":
        return if_chain(st[0], aliases, env, conv)
    if len(st) != 1 or st[0]["kind"] != "SwitchStmt":
        raise TranslateError("body is neither a single switch nor an if/else-if chain")
    sw = st[0]
    cond, comp = kids(sw)[0], kids(sw)[-1]
    c = strip(cond)
    if c.get("kind") != "DeclRefExpr" or c["referencedDecl"]["name"] not in aliases:
        raise TranslateError("switch is not over `it`")

    assign = lambda n: assign_stmt(n, env, conv)
    for s in kids(comp):
        k = s.get("kind")
        if k == "CaseStmt":
            cv, first = kids(s)[0], kids(s)[-1]
            val = None
            n = cv
            while n is not None and val is None:
                if "value" in n:
                    val = int(n["value"])
                ks = kids(n)
                n = ks[0] if ks else None
            if val is None:
                raise TranslateError("case label without constant value")
            cur = val
            if cur in cases:
                raise TranslateError("duplicate case %d" % cur)
            cases[cur] = {}
            j, e = assign(first)
            cases[cur][j] = e
        elif k == "BreakStmt":
            cur = None
        elif k == "DefaultStmt":
            raise TranslateError("default branch present")
        else:
            if cur is None:
                raise TranslateError("statement outside a case")
            j, e = assign(s)
            if j in cases[cur]:
                raise TranslateError("ic[%d] assigned twice in case %d" % (j, cur))
            cases[cur][j] = e
    return cases


def emit(cases):
    out = []
    out.append("(* GENERATED on every run by translate/coeffs2coq.py from src/SM/SourceMap.cpp")
    out.append("   (SourceMap::calcCoefficiants). Do not edit. *)")
    out.append("From Coq Require Import List ZArith.")
    out.append("From Inovesa Require Import Base.FieldKit.")
    out.append("Import ListNotations.")
    out.append("Section Gen.")
    out.append("  Variable K : Fld.")
    out.append("  Local Open Scope F_scope.")
    out.append("  Definition coeffs (it : Z) (f : K) : list K :=")
    for cv in sorted(cases):
        m = cases[cv]
        if sorted(m) != list(range(len(m))):
            raise TranslateError("case %d does not fill ic[0..%d]" % (cv, len(m) - 1))
        if len(m) != cv:
            raise TranslateError("case %d writes %d coefficients" % (cv, len(m)))
        out.append("    if (it =? %d)%%Z then [%s] else" % (cv, "; ".join(ir_coq(m[j]) for j in range(len(m)))))
    out.append("    [].")
    out.append("  Definition coeff_cases : list Z := [%s]%%Z." % "; ".join(str(c) for c in sorted(cases)))
    out.append("End Gen.")
    out.append("Arguments coeffs {_}.")
    return "\n".join(out) + "\n", cases


if __name__ == "__main__":
    dst = sys.argv[1] if len(sys.argv) > 1 else os.path.join(VERIF, "coq", "Gen", "Gen_Coeffs.v")
    try:
        text, _ = translate()
    except TranslateError as e:
        print("TRANSLATE-ERROR Gen_Coeffs: %s" % e)
        sys.exit(2)
    ch = write_if_changed(dst, text)
    print("Gen_Coeffs.v %s" % ("regenerated" if ch else "unchanged"))
