#!/usr/bin/env python3
# GEN: Gen_WakeScale
"""Gen_WakeScale.v: the factor ElectricField applies to the inverse transform of Z*F.

Two idioms are read from src/PS/ElectricField.cpp (which includes inc/PS/ElectricField.hpp):
  * the constructor taking (..., Ib, E0, sigma_delta, dt) delegates to the constructor whose
    last parameter is `wakescalining`; the argument passed there is an arithmetic expression in
    Ib, dt, physcons::c, ps->getScale(0,"Meter"), ps->getDelta(1), sigma_delta, E0;
  * the mem-initialiser `_wakescaling(<expr in wakescalining, _nmax>)` of that constructor, and
    `_nmax(impedance->nFreqs())`.
Both become definitions over the generic field (exact arithmetic; the C++ evaluates the first
in double and narrows to float, the second in float)."""
import sys, os
sys.path.insert(0, os.path.dirname(os.path.abspath(__file__)))
from cxx_ast import *


def walk(n):
    yield n
    for c in kids(n):
        yield from walk(c)


def ctor_params(c):
    return [x.get("name") for x in c.get("inner", []) if x.get("kind") == "ParmVarDecl"]


def call_on_ps(n, env):
    """ps->getScale(0,"Meter") -> sigma_z ; ps->getDelta(1) -> delta_E"""
    if n.get("kind") != "CXXMemberCallExpr":
        return None
    me = kids(n)[0]
    if me.get("kind") != "MemberExpr":
        return None
    obj = [m["referencedDecl"]["name"] for m in walk(me) if m.get("kind") == "DeclRefExpr" and "referencedDecl" in m
           and not m["referencedDecl"]["name"].startswith("operator")]
    if obj != ["ps"]:
        return None
    ints = [int(m["value"]) for a in kids(n)[1:] for m in walk(a) if m.get("kind") == "IntegerLiteral"]
    strs = [m.get("value") for a in kids(n)[1:] for m in walk(a) if m.get("kind") == "StringLiteral"]
    if me.get("name") == "getScale" and ints == [0] and strs == ['"Meter"']:
        return ("var", "sigma_z")
    if me.get("name") == "getDelta" and ints == [1] and not strs:
        return ("var", "delta_E")
    raise TranslateError("call on ps not understood: %s(%s,%s)" % (me.get("name"), ints, strs))


def ir(n, env):
    """cxx_ast.to_ir with calls on `ps` understood at every depth"""
    n = strip(n)
    k = n.get("kind")
    if k == "BinaryOperator":
        op = {"+": "add", "-": "sub", "*": "mul", "/": "div"}.get(n["opcode"])
        if not op:
            raise TranslateError("binary %s" % n["opcode"])
        a, b = kids(n)
        return (op, ir(a, env), ir(b, env))
    if k == "UnaryOperator" and n.get("opcode") in ("-", "+"):
        a = ir(kids(n)[0], env)
        return ("neg", a) if n["opcode"] == "-" else a
    if k == "CXXMemberCallExpr":
        r = call_on_ps(n, env)
        if r is None:
            raise TranslateError("call not understood in the scaling expression")
        return r
    return to_ir(n, env)


def translate():
    docs = ast_of("src/PS/ElectricField.cpp", "ElectricField")
    rec = [d for d in docs if d.get("kind") == "CXXRecordDecl" and d.get("name") == "ElectricField"]
    if len(rec) != 1:
        raise TranslateError("class ElectricField not found once")
    ctors = [c for c in rec[0].get("inner", []) if c.get("kind") == "CXXConstructorDecl"]
    phys = [c for c in ctors if {"Ib", "E0", "sigma_delta", "dt"} <= set(ctor_params(c))]
    if len(phys) != 1:
        raise TranslateError("expected one constructor with parameters Ib, E0, sigma_delta, dt; found %d" % len(phys))
    inits = [i for i in phys[0].get("inner", []) if i.get("kind") == "CXXCtorInitializer"]
    if len(inits) != 1 or "delegatingInit" not in inits[0]:
        raise TranslateError("the physical-units constructor does not consist of one delegating initialiser")
    ce = kids(inits[0])[0]
    while ce.get("kind") != "CXXConstructExpr":
        ks = kids(ce)
        if len(ks) != 1:
            raise TranslateError("delegating initialiser is not a constructor call")
        ce = ks[0]
    args = kids(ce)
    # the target: the out-of-class constructor with a parameter `wakescalining`
    tgt = [d for d in docs if d.get("kind") == "CXXConstructorDecl" and "wakescalining" in ctor_params(d)
           and any(c.get("kind") == "CompoundStmt" for c in d.get("inner", []))]
    if len(tgt) != 1:
        raise TranslateError("constructor definition with parameter `wakescalining` not found once")
    tp = ctor_params(tgt[0])
    if len(args) != len(tp):
        raise TranslateError("delegating call passes %d arguments to a constructor of %d parameters" % (len(args), len(tp)))
    env = {k: ("var", k) for k in ("Ib", "dt", "c", "sigma_delta", "E0")}
    arg = ir(args[tp.index("wakescalining")], env)
    # mem-initialisers of the target
    minit = {i.get("anyInit", {}).get("name"): i for i in tgt[0].get("inner", []) if i.get("kind") == "CXXCtorInitializer"}
    if "_wakescaling" not in minit or "_nmax" not in minit:
        raise TranslateError("mem-initialisers _wakescaling/_nmax not found")
    mem = ir(kids(minit["_wakescaling"])[0], {"wakescalining": ("var", "wakescalining"), "_nmax": ("var", "nmax")})
    nm = strip(kids(minit["_nmax"])[0])
    ok = nm.get("kind") == "CXXMemberCallExpr" and kids(nm)[0].get("name") == "nFreqs" and \
        [m["referencedDecl"]["name"] for m in walk(nm) if m.get("kind") == "DeclRefExpr" and "referencedDecl" in m
         and not m["referencedDecl"]["name"].startswith("operator")] == ["impedance"]
    if not ok:
        raise TranslateError("_nmax is not initialised with impedance->nFreqs()")
    out = ["(* GENERATED on every run by translate/wakescale2coq.py from src/PS/ElectricField.cpp and",
           "   inc/PS/ElectricField.hpp (delegating constructor; mem-initialiser of _wakescaling;",
           "   _nmax = impedance->nFreqs()). Do not edit. *)",
           "From Coq Require Import List ZArith.",
           "From Inovesa Require Import Base.FieldKit.",
           "Section Gen.",
           "  Variable K : Fld.",
           "  Local Open Scope F_scope.",
           "  (* sigma_z = ps->getScale(0,\"Meter\"), delta_E = ps->getDelta(1), c = physcons::c *)",
           "  Definition wakescalining_arg (Ib dt c sigma_z delta_E sigma_delta E0 : K) : K :=",
           "    %s." % ir_coq(arg),
           "  Definition wakescaling_member (wakescalining nmax : K) : K :=",
           "    %s." % ir_coq(mem),
           "  Definition wake_scaling (Ib dt c sigma_z delta_E sigma_delta E0 nmax : K) : K :=",
           "    wakescaling_member (wakescalining_arg Ib dt c sigma_z delta_E sigma_delta E0) nmax.",
           "End Gen.",
           "Arguments wakescalining_arg {_}. Arguments wakescaling_member {_}. Arguments wake_scaling {_}."]
    return "\n".join(out) + "\n", (arg, mem)


if __name__ == "__main__":
    dst = sys.argv[1] if len(sys.argv) > 1 else os.path.join(VERIF, "coq", "Gen", "Gen_WakeScale.v")
    try:
        text, _ = translate()
    except TranslateError as e:
        print("TRANSLATE-ERROR Gen_WakeScale: %s" % e)
        sys.exit(2)
    ch = write_if_changed(dst, text)
    print("Gen_WakeScale.v %s" % ("regenerated" if ch else "unchanged"))
