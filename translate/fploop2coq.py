#!/usr/bin/env python3
# GEN: Gen_FPLoop
"""Gen_FPLoop.v: the loop nest of FokkerPlanckMap::apply (src/SM/FokkerPlanckMap.cpp, the CPU branch), read from the
clang JSON AST of /repo's working tree: which cells it writes, in which ranges, from what.

Idiom (fails loudly on anything else):

    meshdata_t* data_in = _in->getData();  meshdata_t* data_out = _out->getData();
    for (n = LO; n < HI; n++) {   [const meshindex_t locals]
      for (x = LO; x < HI; x++) {   [const meshindex_t locals]
        for (y = LO; y < HI; y++) {
          meshdata_t value = 0;
          for (j = LO; j < HI; j++) { hi h = _hinfo[E_h]; value += data_in[E_r] * (meshdata_t) h.weight; }
          data_out[E_w] = value;
    } } }

Nothing else may stand in the function body or in a loop body: no `if`, `continue`, `break`, `return`, no call, no
second write - every column of every bunch is processed unconditionally, and what is written depends on `data_in` and
the stencil table only (not on cached projections, integrals or anything else the grid object holds).  A
data-dependent shortcut is therefore a TranslateError naming the statement.  The loop ranges are emitted as they
stand (so a changed start or bound changes the generated text and the coverage theorem no longer proves), the
increment must be `++`.

Emitted over Z (C unsigned arithmetic without wrap-around): fpl_<v>_lo / fpl_<v>_hi for v in b (the bunch loop `n`),
x, y, j; the table index fpl_hinfo, the read index fpl_read (as a function of h.index) and the write index fpl_write."""
import sys, os
sys.path.insert(0, os.path.dirname(os.path.abspath(__file__)))
from cxx_ast import *
import kickindex2coq as ki

LOOPS = ["n", "x", "y", "j"]          # nesting order
COQV = {"n": "b", "x": "x", "y": "y", "j": "j"}
SIZES = ["nb", "xs", "n", "ip"]       # parameters of every emitted definition (+ the loop variables in scope)


def line_of(n):
    r = (n.get("range") or {}).get("begin") or {}
    return r.get("line") or (r.get("expansionLoc") or {}).get("line") or (n.get("loc") or {}).get("line") or "?"


def refuse(stmt, where):
    k = stmt.get("kind")
    what = {"IfStmt": "a conditional", "ContinueStmt": "`continue`", "BreakStmt": "`break`", "ReturnStmt": "`return`",
            "CallExpr": "a call", "CXXMemberCallExpr": "a call", "WhileStmt": "a while loop", "DoStmt": "a do loop",
            "SwitchStmt": "a switch", "GotoStmt": "a goto", "ConditionalOperator": "a conditional expression"}.get(k, "a statement of kind %s" % k)
    raise TranslateError("%s in %s of FokkerPlanckMap::apply (FokkerPlanckMap.cpp:%s): every column of every bunch must be "
                         "processed unconditionally from data_in and the stencil table alone" % (what, where, line_of(stmt)))


def getdata_of(vd, member):
    """`T* name = <member>->getData();`"""
    calls = ki.find(vd, lambda m: m.get("kind") == "CXXMemberCallExpr", [])
    if len(calls) != 1:
        return False
    me = kids(calls[0])[0]
    if me.get("kind") != "MemberExpr" or me.get("name") != "getData":
        return False
    names = [m.get("name") for m in ki.find(me, lambda m: m.get("kind") == "MemberExpr" and m.get("name") != "getData", [])]
    return names == [member]


def loop_header(stmt, want, env):
    """(lo, hi) of `for (T v = LO; v < HI; v++)`; the body statement"""
    ks = stmt.get("inner", [])
    if len(ks) != 5:
        raise TranslateError("unexpected shape of a for statement")
    init, condvar, cond, inc, body = ks
    vd = [c for c in kids(init or {}) if c.get("kind") == "VarDecl"] if init else []
    if len(vd) != 1 or vd[0]["name"] != want:
        raise TranslateError("loop nest of FokkerPlanckMap::apply: expected the loop over `%s` (FokkerPlanckMap.cpp:%s)" % (want, line_of(stmt)))
    if not kids(vd[0]):
        raise TranslateError("loop variable %s is not initialised" % want)
    lo = ki.expr(kids(vd[0])[0], env)
    if condvar:
        raise TranslateError("condition variable in the loop over %s" % want)
    c = strip(cond) if cond else None
    if not c or c.get("kind") != "BinaryOperator" or c.get("opcode") != "<":
        raise TranslateError("loop over %s: the condition is not `%s < bound`" % (want, want))
    a, b = kids(c)
    a = strip(a)
    if a.get("kind") != "DeclRefExpr" or a["referencedDecl"]["name"] != want:
        raise TranslateError("loop over %s: the condition does not test the loop variable" % want)
    hi = ki.expr(b, env)
    i = strip(inc) if inc else None
    if not i or i.get("kind") != "UnaryOperator" or i.get("opcode") != "++":
        raise TranslateError("loop over %s: the increment is not ++" % want)
    iv = strip(kids(i)[0])
    if iv.get("kind") != "DeclRefExpr" or iv["referencedDecl"]["name"] != want:
        raise TranslateError("loop over %s: the increment does not step the loop variable" % want)
    return lo, hi, body


def subterms(e):
    res = [e]
    for x in e[1:]:
        if isinstance(x, tuple):
            res += subterms(x)
    return res


def stmts_of(body):
    return kids(body) if body.get("kind") == "CompoundStmt" else [body]


def const_local(st, env, where):
    """`const meshindex_t name = <index arithmetic>;` -> env"""
    env = dict(env)
    for vd in kids(st):
        if vd.get("kind") != "VarDecl":
            refuse(vd, where)
        if not kids(vd):
            raise TranslateError("uninitialised local %s in %s" % (vd.get("name"), where))
        try:
            env[vd["name"]] = ki.expr(kids(vd)[0], env)
        except TranslateError as e:
            raise TranslateError("local `%s` in %s of FokkerPlanckMap::apply (FokkerPlanckMap.cpp:%s) is not index arithmetic over the "
                                 "loop variables and the mesh sizes (%s): the loop nest may only depend on data_in and the stencil table"
                                 % (vd.get("name"), where, line_of(vd), e))
    return env


def translate():
    docs = ast_of("src/SM/FokkerPlanckMap.cpp", "apply")
    fbody = None
    for d in docs:
        if d.get("kind") == "CXXMethodDecl" and d.get("name") == "apply":
            for c in d.get("inner", []):
                if c.get("kind") == "CompoundStmt":
                    fbody = c
    if fbody is None:
        raise TranslateError("FokkerPlanckMap::apply not found")
    # the CPU branch: nested blocks down to the one that holds the statements
    blk = fbody
    while len(kids(blk)) == 1 and kids(blk)[0].get("kind") == "CompoundStmt":
        blk = kids(blk)[0]
    sts = [s for s in kids(blk) if s.get("kind") != "NullStmt"]
    got = {}
    loops = []
    for s in sts:
        if s.get("kind") == "DeclStmt":
            for vd in kids(s):
                nm = vd.get("name")
                if nm == "data_in" and getdata_of(vd, "_in"):
                    got["data_in"] = True
                elif nm == "data_out" and getdata_of(vd, "_out"):
                    got["data_out"] = True
                else:
                    raise TranslateError("FokkerPlanckMap::apply: local `%s` (FokkerPlanckMap.cpp:%s) is not `data_in = _in->getData()` / "
                                         "`data_out = _out->getData()`" % (nm, line_of(vd)))
        elif s.get("kind") == "ForStmt":
            loops.append(s)
        else:
            refuse(s, "the body")
    if not got.get("data_in") or not got.get("data_out") or len(loops) != 1:
        raise TranslateError("FokkerPlanckMap::apply is not `data_in = _in->getData(); data_out = _out->getData();` followed by one loop nest")
    env = {m: ("var", v) for m, v in ki.MEMBERS.items()}
    rng = {}
    # ---- loops over n, x: locals + the next loop
    cur = loops[0]
    for lv in ("n", "x"):
        lo, hi, body = loop_header(cur, lv, env)
        rng[lv] = (lo, hi)
        env = dict(env)
        env[lv] = ("var", COQV[lv])
        nxt = None
        for s in stmts_of(body):
            k = s.get("kind")
            if k == "NullStmt":
                continue
            if k == "DeclStmt" and nxt is None:
                env = const_local(s, env, "the loop over %s" % lv)
            elif k == "ForStmt" and nxt is None:
                nxt = s
            else:
                refuse(s, "the loop over %s" % lv)
        if nxt is None:
            raise TranslateError("the loop over %s does not contain the next loop" % lv)
        cur = nxt
    # ---- loop over y: value = 0; loop over j; data_out[E_w] = value
    lo, hi, body = loop_header(cur, "y", env)
    rng["y"] = (lo, hi)
    env = dict(env)
    env["y"] = ("var", "y")
    ys = [s for s in stmts_of(body) if s.get("kind") != "NullStmt"]
    if len(ys) != 3:
        for s in ys:
            if s.get("kind") not in ("DeclStmt", "ForStmt", "BinaryOperator"):
                refuse(s, "the loop over y")
        raise TranslateError("the loop over y is not `value = 0; for (j ..) ..; data_out[..] = value;` (FokkerPlanckMap.cpp:%s)" % line_of(cur))
    d0, jl, wr = ys
    vds = [v for v in kids(d0) if v.get("kind") == "VarDecl"] if d0.get("kind") == "DeclStmt" else []
    if len(vds) != 1 or vds[0]["name"] != "value" or not kids(vds[0]) or ki.expr(kids(vds[0])[0], env) != ("num", Fraction(0)):
        if d0.get("kind") != "DeclStmt":
            refuse(d0, "the loop over y")
        raise TranslateError("the accumulator of the loop over y is not `value = 0`")
    if jl.get("kind") != "ForStmt":
        refuse(jl, "the loop over y")
    if wr.get("kind") != "BinaryOperator" or wr.get("opcode") != "=":
        refuse(wr, "the loop over y")
    idx = ki.subscript_of(kids(wr)[0], "data_out")
    rhs = strip(kids(wr)[1])
    if len(idx) != 1 or rhs.get("kind") != "DeclRefExpr" or rhs["referencedDecl"]["name"] != "value":
        raise TranslateError("the write of the loop over y is not `data_out[...] = value`")
    write = ki.expr(idx[0], env)
    # ---- loop over j
    lo, hi, body = loop_header(jl, "j", env)
    rng["j"] = (lo, hi)
    env = dict(env)
    env["j"] = ("var", "j")
    js = [s for s in stmts_of(body) if s.get("kind") != "NullStmt"]
    if len(js) != 2:
        for s in js:
            if s.get("kind") not in ("DeclStmt", "CompoundAssignOperator"):
                refuse(s, "the loop over j")
        raise TranslateError("the loop over j is not `hi h = _hinfo[..]; value += data_in[..] * h.weight;`")
    dh, acc = js
    vds = [v for v in kids(dh) if v.get("kind") == "VarDecl"] if dh.get("kind") == "DeclStmt" else []
    if len(vds) != 1 or vds[0]["name"] != "h":
        if dh.get("kind") != "DeclStmt":
            refuse(dh, "the loop over j")
        raise TranslateError("the loop over j does not start with `hi h = _hinfo[..]`")
    hidx = ki.subscript_of(vds[0], "_hinfo")
    if len(hidx) != 1:
        raise TranslateError("`hi h` is not read from _hinfo[...]")
    hinfo = ki.expr(hidx[0], env)
    if acc.get("kind") != "CompoundAssignOperator" or acc.get("opcode") != "+=":
        refuse(acc, "the loop over j")
    lhs = strip(kids(acc)[0])
    if lhs.get("kind") != "DeclRefExpr" or lhs["referencedDecl"]["name"] != "value":
        raise TranslateError("the accumulation of the loop over j does not add to `value`")
    prod = strip(kids(acc)[1])
    if prod.get("kind") != "BinaryOperator" or prod.get("opcode") != "*":
        raise TranslateError("the accumulated term is not a product data_in[..] * h.weight")
    fa, fb = [strip(x) for x in kids(prod)]

    def is_weight(m):
        if m.get("kind") != "MemberExpr" or m.get("name") != "weight":
            return False
        b = strip(kids(m)[0])
        return b.get("kind") == "DeclRefExpr" and b["referencedDecl"]["name"] == "h"

    def is_data(m):
        return m.get("kind") == "ArraySubscriptExpr" and len(ki.subscript_of(m, "data_in")) == 1
    if is_weight(fa) and is_data(fb):
        fa, fb = fb, fa
    if not (is_data(fa) and is_weight(fb)):
        raise TranslateError("the accumulated term is not data_in[..] * h.weight")
    read = ki.expr(ki.subscript_of(fa, "data_in")[0], env)
    # ---- nothing that is written or looped over may depend on a variable of an inner loop
    scope = {"n": [], "x": ["b"], "y": ["b", "x"], "j": ["b", "x", "y"]}
    for lv in LOOPS:
        for e in rng[lv]:
            bad = [t[1] for t in subterms(e) if t[0] == "var" and t[1] in ("b", "x", "y", "j", "hindex") and t[1] not in scope[lv]]
            if bad:
                raise TranslateError("range of the loop over %s mentions %s" % (lv, bad))
    out = ["(* GENERATED on every run by translate/fploop2coq.py from FokkerPlanckMap::apply (src/SM/FokkerPlanckMap.cpp, CPU branch).",
           "   Do not edit.  The function body is `data_in = _in->getData(); data_out = _out->getData();` and ONE loop nest",
           "   for b in [fpl_b_lo, fpl_b_hi)  for x in [fpl_x_lo, fpl_x_hi)  for y in [fpl_y_lo, fpl_y_hi) {",
           "     value = 0;  for j in [fpl_j_lo, fpl_j_hi) { h = _hinfo[fpl_hinfo]; value += data_in[fpl_read h.index] * h.weight }",
           "     data_out[fpl_write] = value }",
           "   with increments ++ and NO other statement (no conditional, continue, break, return or call: the translator refuses them).",
           "   nb: PhaseSpace::nb, xs: _meshxsize, n: _ysize, ip: _ip; b: the bunch loop variable `n`. *)",
           "From Coq Require Import ZArith.", "Local Open Scope Z_scope."]
    sz = " ".join(SIZES)
    for lv in LOOPS:
        ps = " ".join([sz] + scope[lv])
        out.append("Definition fpl_%s_lo (%s : Z) : Z := %s." % (COQV[lv], ps, ki.zir(rng[lv][0])))
        out.append("Definition fpl_%s_hi (%s : Z) : Z := %s." % (COQV[lv], ps, ki.zir(rng[lv][1])))
    out.append("Definition fpl_hinfo (%s b x y j : Z) : Z := %s." % (sz, ki.zir(hinfo)))
    out.append("Definition fpl_read (%s b x y j hindex : Z) : Z := %s." % (sz, ki.zir(read)))
    if any(t == ("var", "j") or t == ("var", "hindex") for t in subterms(write)):
        raise TranslateError("the write index depends on the stencil point")
    out.append("Definition fpl_write (%s b x y : Z) : Z := %s." % (sz, ki.zir(write)))
    return "\n".join(out) + "\n"


if __name__ == "__main__":
    dst = sys.argv[1] if len(sys.argv) > 1 else os.path.join(VERIF, "coq", "Gen", "Gen_FPLoop.v")
    try:
        text = translate()
    except TranslateError as e:
        print("TRANSLATE-ERROR Gen_FPLoop: %s" % e)
        sys.exit(2)
    ch = write_if_changed(dst, text)
    print("Gen_FPLoop.v %s" % ("regenerated" if ch else "unchanged"))
