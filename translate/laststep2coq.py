#!/usr/bin/env python3
# GEN: Gen_LastStep
"""Gen_LastStep.v: how many steps a run of main() takes - the bound of the main loop's test, with the code's own
arithmetic (every double product rounded to binary64, float narrowing to binary32, std::ceil / round / floor on the
rounded value, the conversion to the unsigned bound with its undefined domain).

Source read: main() of src/main.cpp by symbolic execution (translate/scaling_lib.py, class SymExec; emitter EmitZ).  The
quantities are found where they are *used*, never by the names of main()'s locals:
  gen_laststep     the bound `b` of the LAST top-level `while (<counter> < b && <other conjunct>)` of main(), where
                   <counter> is an unsigned local that is 0 when the loop is entered and that the loop itself changes;
                   the `steps` argument (length of the precomputed modulation queue) of EVERY `DynamicRFKickMap`
                   construction must be the very same expression (else TranslateError)
  gen_steps        the denominator of the time value `<counter as double> / steps` handed to HDF5File::append(ps, t, at)
                   inside and after the loop (every such call must divide by the same expression): the number of steps
                   per unit of the time axis, the `steps` of Model/Records.v ([tval], [laststep])
  gen_loop_start   value of <counter> at loop entry (must be the literal 0)
  gen_dynrf_uses   number of DynamicRFKickMap constructions that receive the bound (for the record)
Leaves: O_<getter> = option read through ProgramOptions::<getter>() (integer -> LZ, floating -> LQ, bool -> LB);
V_<local> = cut variable: a floating local whose initialiser calls sqrt/pow/... (not an exact function) is an input.
Divisions are NOT cut here (a binary64 quotient is correctly rounded: [rnd53 (a / b)]), so that `steps` stays an
expression of the options.
Fails loudly (TranslateError): no such loop; the test is not `counter < bound` joined by && with one other conjunct;
counter not 0 at entry; bound and DynamicRFKickMap `steps` differ; time values with different denominators; an
expression that leaves EmitZ's vocabulary (a libm call on the way, an opaque value, a signed conversion ...)."""
import sys, os
sys.path.insert(0, os.path.dirname(os.path.abspath(__file__)))
from cxx_ast import *
import scaling_lib as sl

LIBM_INEXACT = ("sqrt", "pow", "tan", "sin", "cos", "asin", "exp", "log", "cbrt")


def libm_cut_rule(val):
    """cut variable = floating local computed with an inexact library function"""
    if not isinstance(val, tuple) or val[0] in ("vec", "options", "lambda") or (val[0] == "leaf" and val[2] == "vec"):
        return False
    if sl.typeof(val) not in sl.FLT_TYS:
        return False
    return any(t[0] == "call" and t[1] in LIBM_INEXACT for t in sl.subterms(val))


def strip_wrappers(n):
    while n.get("kind") in sl.PASS_KINDS and len(kids(n)) == 1 and n.get("castKind") in (None, "NoOp", "LValueToRValue"):
        n = kids(n)[0]
    return n


def local_ref(n):
    """name of the local a (possibly wrapped) DeclRefExpr names, else None"""
    n = strip_wrappers(n)
    if n.get("kind") == "DeclRefExpr" and (n.get("referencedDecl") or {}).get("kind") == "VarDecl":
        return n["referencedDecl"].get("name")
    return None


def loop_test(se, w):
    """(counter name, IR of the bound) of `while (counter < bound && other)`; the environment is that at loop entry"""
    cond = strip_wrappers(kids(w)[0])
    line = (w.get("range", {}).get("begin", {}) or {}).get("line")
    if cond.get("kind") != "BinaryOperator" or cond.get("opcode") != "&&":
        raise TranslateError("the test of the main loop (main.cpp:%s) is not `<counter> < <bound> && <other>` any more" % line)
    cmps = []
    for c in kids(cond):
        c = strip_wrappers(c)
        if c.get("kind") == "BinaryOperator" and c.get("opcode") in ("<", ">", "<=", ">=", "!=", "=="):
            cmps.append(c)
    if len(cmps) != 1:
        raise TranslateError("the test of the main loop (main.cpp:%s) has %d comparisons, expected exactly one (`<counter> < <bound>`)" % (line, len(cmps)))
    c = cmps[0]
    a, b = kids(c)
    if c.get("opcode") == ">":
        a, b = b, a
    elif c.get("opcode") != "<":
        raise TranslateError("the main loop (main.cpp:%s) compares with `%s`, expected `<counter> < <bound>`" % (line, c.get("opcode")))
    counter = local_ref(a)
    changed = se.assigned_vars(w)
    if counter is None or counter not in changed:
        raise TranslateError("the left side of the main loop's comparison (main.cpp:%s) is not a local the loop itself counts up" % line)
    if sl.ctype(strip_wrappers(a)) not in ("u32", "u64"):
        raise TranslateError("the loop counter `%s` is not an unsigned integer any more" % counter)
    try:
        bound = se.ex(b)
    except sl.Unknown as e:
        raise TranslateError("the bound of the main loop (main.cpp:%s) is not an expression this translator understands: %s" % (line, e))
    bad = [v for v in changed if any(l[0] == "S_" + v for l in sl.leaves_of(bound))]
    if local_ref(b) in changed or bad:
        raise TranslateError("the bound of the main loop (main.cpp:%s) is changed by the loop itself" % line)
    start = sl.fold(se.env.get(counter))
    if not (start and start[0] == "lit" and start[1] == 0):
        raise TranslateError("the loop counter `%s` is not the literal 0 when the main loop is entered" % counter)
    return counter, bound


def translate():
    docs = ast_of("src/main.cpp", "main")
    decl, body = body_of(docs, "main")
    se = sl.SymExec(libm_cut_rule)
    loops = []
    for i, s in enumerate(kids(body)):
        if s.get("kind") == "WhileStmt":
            loops.append((s, None))
            try:
                loops[-1] = (s, loop_test(se, s))
            except TranslateError as e:
                loops[-1] = (s, e)
        se.collect_sinks(s, i)
        se.exec_stmt(s)
    if not loops:
        raise TranslateError("main() has no top-level while loop any more")
    w, res = loops[-1]
    if isinstance(res, TranslateError):
        raise res
    counter, bound = res
    # every DynamicRFKickMap precomputes `steps` modulation values: must be the loop bound
    dyn = sl.find_sinks(se, "DynamicRFKickMap", has=("steps",))
    if not dyn:
        raise TranslateError("no DynamicRFKickMap construction with a `steps` parameter found in main()")
    for s in dyn:
        if s.arg("steps") != bound:
            raise TranslateError("the `steps` argument of the DynamicRFKickMap constructed at main.cpp:%s is not the bound of the main loop" % s.line)
    # time axis: <counter as double> / steps at every append(ps, t, at) that depends on the counter
    ap = sl.find_sinks(se, "HDF5File::append")
    dens = []
    for s in ap:
        t = s.args[1]
        if t is None or not any(l[0].startswith("S_") for l in sl.leaves_of(t)):
            continue
        u = t
        while u[0] == "cast" and u[1] in sl.FLT_TYS:
            u = u[2]
        if not (u[0] == "bin" and u[1] == "/" and u[2] == "f64" and
                u[3] in [("cast", "f64", ("leaf", "S_" + counter, ty)) for ty in ("u32", "u64")]):
            raise TranslateError("the time value of HDF5File::append at main.cpp:%s is not `<loop counter as double> / <steps>` any more" % s.line)
        dens.append(u[4])
    if len(dens) < 2:
        raise TranslateError("expected HDF5File::append(ps, <counter>/<steps>, at) inside and after the main loop, found %d" % len(dens))
    for d in dens[1:]:
        if d != dens[0]:
            raise TranslateError("the time values of HDF5File::append do not divide by the same expression everywhere")
    steps = dens[0]
    if sl.typeof(bound) not in ("u32", "u64"):
        raise TranslateError("the bound of the main loop is not an unsigned integer any more (type %s)" % sl.typeof(bound))
    if sl.typeof(steps) != "f64":
        raise TranslateError("the steps per time unit are not a double any more (type %s)" % sl.typeof(steps))
    em = sl.EmitZ()
    b_last = em.definition(bound)
    em.binds, em.memo = [], {}
    b_steps = em.t(sl.fold(steps))
    if em.binds:
        raise TranslateError("the steps per time unit contain a floating -> integer conversion")
    zl, ql, bl = sorted(em.zleaves) + ["Z_unused"], sorted(em.qleaves) + ["Q_unused"], sorted(em.bleaves) + ["ZB_unused"]
    out = ["(* GENERATED on every run by translate/laststep2coq.py from main() of src/main.cpp (symbolic execution of the set-up",
           "   code): gen_laststep = bound of the main loop's test `counter < bound` = `steps` argument of every DynamicRFKickMap;",
           "   gen_steps = denominator of the time value counter/steps of HDF5File::append.  Do not edit. *)",
           "From Coq Require Import List ZArith QArith Qcanon Bool.",
           "From Inovesa Require Import Base.FieldKit Base.Float32 Model.Kick Model.Bounds Model.ScalingOps.",
           "Import ListNotations.",
           "(* leaves: O_<getter> = option read through ProgramOptions::<getter>(); V_<local> = cut variable (a floating local of",
           "   main() computed with sqrt/pow/...) *)",
           "Inductive zleaf := %s." % " | ".join(zl),
           "Inductive qleaf := %s." % " | ".join(ql),
           "Inductive zbleaf := %s." % " | ".join(bl)]
    for nm, ls in (("zleaf", zl), ("qleaf", ql), ("zbleaf", bl)):
        out.append("Definition %s_index (l : %s) : nat := match l with %s end." %
                   (nm, nm, " | ".join("%s => %d" % (x, i) for i, x in enumerate(ls))))
    out += ["Local Open Scope Z_scope.", "Local Open Scope bool_scope.", "",
            "Definition gen_laststep (LZ : zleaf -> Z) (LQ : qleaf -> Qc) (LB : zbleaf -> bool) : conv :=\n    %s." % b_last,
            "Definition gen_steps (LZ : zleaf -> Z) (LQ : qleaf -> Qc) (LB : zbleaf -> bool) : Qc :=\n    %s." % b_steps,
            "Definition gen_loop_start : Z := 0.",
            "Definition gen_dynrf_uses : Z := %d." % len(dyn),
            "",
            "(* front-end for the extracted driver: values in the order of the *_index functions *)",
            "Definition gen_laststep_list (zs : list Z) (qs : list Qc) (bs : list bool) : Z :=",
            "  conv_code (gen_laststep (env_of zleaf_index 0 zs) (env_of qleaf_index (Qcz 0) qs) (env_of zbleaf_index false bs))."]
    return "\n".join(out) + "\n"


if __name__ == "__main__":
    dst = sys.argv[1] if len(sys.argv) > 1 else os.path.join(VERIF, "coq", "Gen", "Gen_LastStep.v")
    try:
        text = translate()
    except TranslateError as e:
        print("TRANSLATE-ERROR Gen_LastStep: %s" % e)
        sys.exit(2)
    ch = write_if_changed(dst, text)
    print("Gen_LastStep.v %s" % ("regenerated" if ch else "unchanged"))
