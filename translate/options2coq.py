#!/usr/bin/env python3
# GEN: Gen_Options
"""Gen_Options.v from vfps::ProgramOptions (src/IO/ProgramOptions.cpp).

Read from clang's JSON AST of the working tree:
 * the constructor: every `<group>.add_options()("name[,s]", po::value<T>(&var)[->default_value(d[,txt])]
   [->implicit_value(v)][->multitoken()], "help")...` chain (T and the bound member come from the AST, so
   `decltype(x)` and typedefs are resolved by the compiler), the `X.add(Y)` statements that compose the
   command-line and the config-file descriptions, and the member initialisers of bound members;
 * parse(): the statement sequence (AST gives the statement structure, each statement's source text is
   matched against a narrow set of idioms; anything else is a TranslateError): the lambda that refuses a
   minus sign for unsigned options (NEGCHECK; must wrap both parsed sources), store of the command line
   (parse_command_line = bare words dropped, or command_line_parser with an empty positional description =
   bare words are errors), notify, the information switches, the config-file block, the /dev/null clears;
 * save(std::string): the if/else chain of the writer loop (skip list, alpha0 rule, type dispatch,
   precision manipulators, comment rule).
Output: the merged option table in std::map (byte) order of the names - the order in which
variables_map::notify assigns the bound variables and in which save() writes -, the parse program and
the writer rules, as data for coq/Model/Options.v.  Default values become negative token ids; the
table of their values is available to the harness through `translate()`."""
import sys, os, re, struct
sys.path.insert(0, os.path.dirname(os.path.abspath(__file__)))
from cxx_ast import *
from fractions import Fraction

SRC = "src/IO/ProgramOptions.cpp"
CTY = {"float": "TFloat", "double": "TDouble", "int": "TI32", "unsigned int": "TU32", "long": "TI64",
       "bool": "TBool", "std::string": "TString", "std::basic_string<char>": "TString",
       "unsigned char": "TUChar", "std::vector<float>": "TVecFloat",
       "std::vector<float, std::allocator<float>>": "TVecFloat"}
# spelling of types inside typeid(...) / as<...>() in save(); typedefs are resolved with inc/defines.hpp
TXT_TY = {"float": "TFloat", "double": "TDouble", "int32_t": "TI32", "uint32_t": "TU32", "int64_t": "TI64",
          "bool": "TBool", "std::string": "TString", "uint_fast8_t": "TUChar", "uint64_t": "TU64",
          "std::vector<float>": "TVecFloat"}


def src_text():
    with open(os.path.join(REPO, SRC), "rb") as f:
        return f.read()


def rng_text(n, src):
    r = n.get("range", {})
    b, e = r.get("begin", {}), r.get("end", {})
    bo = b.get("offset", b.get("expansionLoc", {}).get("offset"))
    eo = e.get("offset", e.get("expansionLoc", {}).get("offset"))
    el = e.get("tokLen", e.get("expansionLoc", {}).get("tokLen", 0))
    if bo is None or eo is None:
        raise TranslateError("node without source range: %s" % n.get("kind"))
    return src[bo:eo + el].decode()


def norm(s):
    s = re.sub(r"//[^\n]*", "", s)
    s = re.sub(r"/\*.*?\*/", "", s, flags=re.S)
    return re.sub(r"\s+", "", s)


def norm_keep_literals(s):
    """norm(), but white space inside character and string literals is kept (save() writes such literals into the file)"""
    out, i = [], 0
    s = re.sub(r"/\*.*?\*/", "", s, flags=re.S)
    while i < len(s):
        ch = s[i]
        if ch in "\"'":
            j = i + 1
            while j < len(s) and s[j] != ch:
                j += 2 if s[j] == "\\" else 1
            out.append(s[i:j + 1])
            i = j + 1
        elif s.startswith("//", i):
            while i < len(s) and s[i] != "\n":
                i += 1
        elif ch.isspace():
            i += 1
        else:
            out.append(ch)
            i += 1
    return "".join(out)


def unwrap(n):
    while n.get("kind") in ("ImplicitCastExpr", "ExprWithCleanups", "MaterializeTemporaryExpr", "ParenExpr",
                            "CXXBindTemporaryExpr", "CXXFunctionalCastExpr", "CXXStaticCastExpr",
                            "ConstantExpr") and len(kids(n)) == 1:
        n = kids(n)[0]
    return n


def f32(x):
    return struct.unpack("f", struct.pack("f", x))[0]


def lit_value(n, src):
    """value of a default_value/implicit_value argument: ('num', Fraction) | ('bool', b) | ('str', s)"""
    k = n.get("kind")
    if k in ("ImplicitCastExpr", "ExprWithCleanups", "MaterializeTemporaryExpr", "ParenExpr",
             "CXXFunctionalCastExpr", "CXXStaticCastExpr", "CXXBindTemporaryExpr", "ConstantExpr"):
        v = lit_value(kids(n)[-1], src)
        ty = n.get("type", {}).get("desugaredQualType", n.get("type", {}).get("qualType", ""))
        if v[0] == "num" and ty == "float":
            return ("num", Fraction(f32(float(v[1]))))
        return v
    if k == "IntegerLiteral":
        return ("num", Fraction(int(n["value"])))
    if k == "FloatingLiteral":
        t = rng_text(n, src).strip()
        m = re.fullmatch(r"([0-9.]+(?:[eE][-+]?[0-9]+)?)([fF]?)", t)
        if not m:
            raise TranslateError("floating literal not understood: %r" % t)
        x = float(m.group(1))
        return ("num", Fraction(f32(x) if m.group(2) else x))
    if k == "CXXBoolLiteralExpr":
        return ("bool", bool(n["value"]))
    if k == "StringLiteral":
        return ("str", n["value"].strip('"'))
    if k == "UnaryOperator" and n.get("opcode") == "-":
        v = lit_value(kids(n)[0], src)
        return ("num", -v[1])
    if k == "CXXConstructExpr" and len(kids(n)) >= 1:
        return lit_value(kids(n)[0], src)
    raise TranslateError("default value expression not understood: %s" % k)


def typed_of(n):
    t = n.get("type", {})
    q = t.get("desugaredQualType") or t.get("qualType", "")
    m = re.search(r"typed_value<(.*?)(?:, char)?>\s*\*", q)
    if not m:
        q = t.get("qualType", "")
        m = re.search(r"typed_value<(.*?)(?:, char)?>\s*\*", q)
    if not m:
        raise TranslateError("not a typed_value: %r" % q)
    ty = m.group(1).strip()
    if ty not in CTY:
        raise TranslateError("option value type %r is not known to the model" % ty)
    return CTY[ty]


def semantic(n, src):
    """po::value<T>(&var) with ->default_value / ->implicit_value / ->multitoken suffixes"""
    sem = dict(default=None, implicit=None, multitoken=False)
    n = unwrap(n)
    while n.get("kind") == "CXXMemberCallExpr":
        callee = kids(n)[0]
        if callee.get("kind") != "MemberExpr":
            raise TranslateError("unexpected callee in option semantic")
        name = callee.get("name")
        args = kids(n)[1:]
        if name == "default_value":
            sem["default"] = lit_value(args[0], src)
        elif name == "implicit_value":
            sem["implicit"] = lit_value(args[0], src)
        elif name == "multitoken":
            sem["multitoken"] = True
        else:
            raise TranslateError("option modifier %r is not modelled (composing/required/zero_tokens/notifier...)" % name)
        n = unwrap(kids(callee)[0])
    if n.get("kind") != "CallExpr":
        raise TranslateError("option semantic is not po::value<T>(&member): %s" % n.get("kind"))
    cal = unwrap(kids(n)[0])
    if cal.get("kind") != "DeclRefExpr" or cal["referencedDecl"]["name"] != "value":
        raise TranslateError("option semantic is not a call of po::value")
    sem["ty"] = typed_of(n)
    args = kids(n)[1:]
    if len(args) != 1:
        raise TranslateError("po::value without a bound variable is not modelled")
    a = unwrap(args[0])
    if a.get("kind") != "UnaryOperator" or a.get("opcode") != "&":
        raise TranslateError("po::value argument is not &member")
    m = unwrap(kids(a)[0])
    if m.get("kind") != "MemberExpr":
        raise TranslateError("po::value argument is not &member")
    sem["var"] = m["name"]
    return sem


def chain(n, src):
    """-> (group member name, [(namespec, sem|None)]) of one add_options() chain"""
    n = unwrap(n)
    entries = []
    while n.get("kind") == "CXXOperatorCallExpr":
        ks = kids(n)
        args = ks[2:]
        nm = unwrap(args[0])
        if nm.get("kind") != "StringLiteral":
            raise TranslateError("option name is not a string literal")
        name = nm["value"].strip('"')
        if len(args) == 2:
            entries.append((name, None))
        elif len(args) == 3:
            entries.append((name, semantic(args[1], src)))
        else:
            raise TranslateError("option entry with %d arguments" % len(args))
        n = unwrap(ks[1])
    if n.get("kind") != "CXXMemberCallExpr":
        raise TranslateError("add_options() chain does not start with a member call")
    cal = kids(n)[0]
    if cal.get("name") != "add_options":
        raise TranslateError("chain does not start with add_options()")
    grp = unwrap(kids(cal)[0])
    entries.reverse()
    return grp["name"], entries


def read_ctor(src):
    docs = ast_of(SRC, "vfps::ProgramOptions::ProgramOptions")
    ct = [d for d in docs if d.get("kind") == "CXXConstructorDecl" and
          any(c.get("kind") == "CompoundStmt" for c in d.get("inner", []))]
    if len(ct) != 1:
        raise TranslateError("expected exactly one ProgramOptions constructor with a body")
    d = ct[0]
    inits = {}
    for c in d["inner"]:
        if c.get("kind") == "CXXCtorInitializer" and "anyInit" in c:
            nm = c["anyInit"]["name"]
            txt = None
            ks = kids(c)
            if ks and "range" in ks[0] and ks[0]["range"].get("begin", {}).get("offset") is not None:
                try:
                    txt = norm(rng_text(ks[0], src))
                except Exception:
                    txt = None
            inits[nm] = txt
    body = [c for c in d["inner"] if c["kind"] == "CompoundStmt"][0]
    groups = {}       # group member -> list of entries (flattened, in order)
    own = {}          # group member -> entries declared directly with add_options
    for s in kids(body):
        u = unwrap(s)
        if u.get("kind") == "CXXOperatorCallExpr":
            g, es = chain(u, src)
            own.setdefault(g, [])
            groups.setdefault(g, [])
            for e in es:
                own[g].append(e)
                groups[g].append((g, e))
        elif u.get("kind") == "CXXMemberCallExpr" and kids(u)[0].get("name") == "add":
            tgt = unwrap(kids(kids(u)[0])[0])["name"]
            arg = unwrap(kids(u)[1])
            if arg.get("kind") != "MemberExpr":
                raise TranslateError("add() of something that is not a member description")
            groups.setdefault(tgt, [])
            groups[tgt] += list(groups.get(arg["name"], []))
        else:
            raise TranslateError("constructor statement not understood: %s" % u.get("kind"))
    return groups, inits


# ------------------------------------------------------------------------------------------ parse()

def stmts_of(comp):
    return [c for c in kids(comp)]


def read_parse(src):
    docs = ast_of(SRC, "vfps::ProgramOptions::parse")
    decl, body = body_of(docs, "parse")
    st = stmts_of(body)
    texts = [norm(rng_text(s, src)) for s in st]
    prog = dict(cli=[], flags=[], cfg=[], clidesc=None, cfgdesc=None, cfgvar=None, default_cfg=None,
                nopos=False, negcheck=[], checker=None, checked_cli=False, checked_cfg=False)
    i = 0
    # leading store/notify sequence
    while i < len(st) and st[i].get("kind") != "IfStmt":
        t = texts[i].rstrip(";")
        m = re.fullmatch(r"po::store\(po::parse_command_line\(ac,av,(\w+)\),_vm\)", t)
        m2 = re.fullmatch(r"po::store\((?:(\w+)\()?po::command_line_parser\(ac,av\)\.options\((\w+)\)"
                          r"(\.positional\(po::positional_options_description\(\)\))?\.run\(\)(\))?,_vm\)", t)
        m3 = NEGCHECK.fullmatch(t)
        if m3 and st[i].get("kind") == "DeclStmt" and prog["checker"] is None and not prog["cli"]:
            # the lambda that refuses a minus sign in the tokens of unsigned options before they are stored
            prog["checker"] = m3.group(1)
            prog["negcheck"] = [TXT_TY[read_typedefs().get(x, x)] if read_typedefs().get(x, x) in TXT_TY else x
                                for x in [m3.group("ty")]]
            if any(x not in ("TU32", "TU64") for x in prog["negcheck"]):
                raise TranslateError("parse(): sign check on a type that is not unsigned: %s" % prog["negcheck"])
        elif m:
            prog["cli"].append(("StoreCli",))
            prog["clidesc"] = m.group(1)
        elif m2 and bool(m2.group(1)) == bool(m2.group(4)):
            if m2.group(1):
                if m2.group(1) != prog["checker"]:
                    raise TranslateError("parse(): parsed command line passed through %s, which is not understood" % m2.group(1))
                prog["checked_cli"] = True
            prog["cli"].append(("StoreCli",))
            prog["clidesc"] = m2.group(2)
            prog["nopos"] = bool(m2.group(3))       # empty positional description: a bare word throws
        elif t == "po::notify(_vm)":
            prog["cli"].append(("Notify",))
        else:
            raise TranslateError("parse(): statement before the option tests not understood: %s" % t[:80])
        i += 1
    # tests that stop the program
    seen_cfg = False
    tail = []
    for j in range(i, len(st)):
        s, t = st[j], texts[j]
        if s.get("kind") == "ReturnStmt":
            if t.rstrip(";") != "returntrue":
                raise TranslateError("parse(): final return is not `return true`")
            continue
        if s.get("kind") != "IfStmt":
            raise TranslateError("parse(): unexpected statement %s" % t[:80])
        m = re.match(r'if\(_vm\.count\("(\w+)"\)\)\{std::cout<<.*?;returnfalse;\}$', t)
        if m and not seen_cfg:
            prog["flags"].append(m.group(1))
            continue
        m = re.match(r'if\((\w+)=="/dev/null"\)\{(\w+)\.clear\(\);\}', t)
        if m and m.group(1) == m.group(2) and not t.startswith('if(%s=="/dev/null"){%s.clear();}elseif' % (m.group(1), m.group(1))):
            tail.append(("devnull", m.group(1)))
            continue
        if re.match(r'if\(_cldevice>0&&_vm\.count\("cldev"\)\)\{std::cout<<.*?;\}$', t):
            continue
        # the config-file block
        m = re.match(r'if\((\w+)=="/dev/null"\)\{\1\.clear\(\);\}elseif\(!\1\.empty\(\)\)\{if\(boost::filesystem::exists\(\1\)&&boost::filesystem::is_regular_file\(\1\)\)\{std::ifstreamifs\(\1\.c_str\(\)\);if\(!ifs\)\{std::cout<<.*?;returnfalse;\}else\{(.*)\}\}elseif\(\1!="([^"]*)"\)\{std::cout<<.*?;returnfalse;\}\}$', t)
        if m and not seen_cfg:
            seen_cfg = True
            prog["cfgvar"] = m.group(1)
            prog["default_cfg"] = m.group(3)
            prog["cfg"] = parse_cfg_block(m.group(2), prog)
            tail.append(("devnull", m.group(1)))
            continue
        raise TranslateError("parse(): if-statement not understood: %s" % t[:120])
    if not seen_cfg:
        raise TranslateError("parse(): config-file block not found")
    prog["tail"] = tail
    if prog["checker"] is not None and not (prog["checked_cli"] and prog["checked_cfg"]):
        raise TranslateError("parse(): the sign check of unsigned options is applied to %s only - not modelled" %
                             ("the command line" if prog["checked_cli"] else "the config file" if prog["checked_cfg"] else "no source"))
    return prog


# `auto f = [this](const po::parsed_options& p) { for (opt : p.options) { unsigned typed option not given before:
#  a token starting with '-' throws invalid_option_value } return p; };`  (whitespace-free; identifiers free)
NEGCHECK = re.compile(
    r"auto(\w+)=\[this\]\(constpo::parsed_options&(\w+)\)\{for\(constauto&(\w+):\2\.options\)\{"
    r"auto(\w+)=\2\.description->find_nothrow\(\3\.string_key,false\);"
    r"auto(\w+)=dynamic_cast<constpo::typed_value_base\*>\(\4\?\4->semantic\(\)\.get\(\):nullptr\);"
    r"if\(\5==nullptr\|\|\5->value_type\(\)!=typeid\((?P<ty>[\w:]+)\)"
    r"\|\|\(_vm\.count\(\3\.string_key\)&&!_vm\[\3\.string_key\]\.defaulted\(\)\)\)\{continue;\}"
    r"for\(constauto&(\w+):\3\.value\)\{if\(!\7\.empty\(\)&&\7\.front\(\)=='-'\)\{"
    r"po::invalid_option_value(\w+)\(\7\);\8\.set_option_name\(\3\.string_key\);throw\8;\}\}\}return\2;\}")


def parse_cfg_block(t, prog):
    """t: whitespace-free text of the block that loads the file"""
    steps = []
    rest = t
    m = re.match(r'std::stringmessage="Loadingconfigurationfrom\\""\+\w+\+"\\"\.";Display::printText\(message\);', rest)
    if m:
        rest = rest[m.end():]
    while rest:
        m = re.match(r'store\((?:(\w+)\()?parse_config_file\(ifs,(\w+)\)(\))?,_vm\);', rest)
        if m and bool(m.group(1)) == bool(m.group(3)):
            if m.group(1):
                if m.group(1) != prog["checker"]:
                    raise TranslateError("parse(): parsed config file passed through %s, which is not understood" % m.group(1))
                prog["checked_cfg"] = True
            steps.append(("StoreCfg",))
            prog["cfgdesc"] = m.group(2)
            rest = rest[m.end():]
            continue
        m = re.match(r'(?:po::)?notify\(_vm\);', rest)
        if m:
            steps.append(("Notify",))
            rest = rest[m.end():]
            continue
        m = re.match(r'if\(_vm\.count\("(\w+)"\)\)\{_vm\.at\("(\w+)"\)\.value\(\)=_vm\["\1"\]\.value\(\);\}', rest)
        if m:
            steps.append(("CopyIfPresent", m.group(1), m.group(2)))
            rest = rest[m.end():]
            continue
        m = re.match(r'for\(constauto&(\w+):\{std::make_pair\("(\w+)","(\w+)"\)((?:,std::make_pair\("\w+","\w+"\))*)\}\)\{'
                     r'if\(_vm\.count\(\1\.first\)\)\{if\(_vm\[\1\.second\]\.defaulted\(\)\)\{_vm\.at\(\1\.second\)=_vm\.at\(\1\.first\);\}'
                     r'_vm\.erase\(\1\.first\);\}\}', rest)
        if m:
            pairs = [(m.group(2), m.group(3))] + re.findall(r'std::make_pair\("(\w+)","(\w+)"\)', m.group(4))
            steps.append(("FoldAliases", pairs))
            rest = rest[m.end():]
            continue
        raise TranslateError("parse(): statement in the config-file block not understood: %s" % rest[:120])
    return steps


# ------------------------------------------------------------------------------------------ save()

def read_save(src, typedefs):
    docs = ast_of(SRC, "vfps::ProgramOptions::save")
    cands = []
    for d in docs:
        if d.get("kind") == "CXXMethodDecl" and d.get("name") == "save":
            ps = [c for c in d.get("inner", []) if c.get("kind") == "ParmVarDecl"]
            if len(ps) == 1 and "string" in ps[0]["type"].get("qualType", "") and \
                    any(c.get("kind") == "CompoundStmt" for c in d.get("inner", [])):
                cands.append(d)
    if len(cands) != 1:
        raise TranslateError("save(std::string) definition not found")
    body = [c for c in cands[0]["inner"] if c["kind"] == "CompoundStmt"][0]
    t = norm_keep_literals(rng_text(body, src))
    m = re.match(r'\{std::ofstreamofs\(fname\.c_str\(\)\);ofs<<"# ?"<<vfps::inovesa_version\(\)<<std::endl;'
                 r'for\(autoit=_vm\.begin\(\);it!=_vm\.end\(\);(?:it\+\+|\+\+it)\)\{(.*)\}\}$', t)
    if not m:
        raise TranslateError("save(): frame (open, version comment, loop over _vm) not understood")
    t = m.group(1)
    W = dict(skip=[], alpha=None, types=[], precise={}, comment=[])
    # 1. skip list
    m = re.match(r'if\(((?:it->first=="\w+"\|\|)*it->first=="\w+")\)\{continue;\}else', t)
    if not m:
        raise TranslateError("save(): skip list not understood")
    W["skip"] = re.findall(r'it->first=="(\w+)"', m.group(1))
    t = t[m.end():]
    # 2. alpha0 rule
    m = re.match(r'if\(it->first=="(\w+)"&&std::fpclassify\((\w+)\)(==|!=)FP_ZERO\)\{ofs<<"(\w+)=0"<<std::endl;continue;\}else', t)
    if not m or m.group(1) != m.group(4):
        raise TranslateError("save(): alpha0 rule not understood")
    W["alpha"] = (m.group(1), m.group(2), m.group(3) == "==")
    t = t[m.end():]
    m = re.match(r'if\(!it->second\.value\(\)\.empty\(\)\)\{(.*)\}$', t)
    if not m:
        raise TranslateError("save(): non-empty test not understood")
    t = m.group(1)

    def ty_of(txt):
        x = txt
        for _ in range(4):
            x2 = re.sub(r"\b(\w+)\b", lambda mm: typedefs.get(mm.group(1), mm.group(1)), x)
            if x2 == x:
                break
            x = x2
        if x not in TXT_TY:
            raise TranslateError("save(): type %r not known to the model" % txt)
        return TXT_TY[x]

    first = True
    while True:
        m = re.match((r'' if first else r'else') + r'if\(it->second\.value\(\)\.type\(\)==typeid\(([\w:<>]+)\)\)\{', t)
        if not m:
            break
        first = False
        tytxt = m.group(1)
        ty = ty_of(tytxt)
        t = t[m.end():]
        prec = r'(?P<prec><<std::setprecision\(std::numeric_limits<(?P<pty>[\w:]+)>::max_digits10\))?'
        if ty == "TVecFloat":
            mm = re.match(r'for\((?:const)?auto&?(\w+):_vm\[it->first\]\.as<' + re.escape(tytxt) + r'>\(\)\)\{ofs<<it->first<<\'=\'' + prec + r'<<\1<<std::endl;\}\}', t)
            elty = "float"
        else:
            mm = re.match(r'ofs<<it->first<<\'=\'' + prec + r'<<_vm\[it->first\]\.as<' + re.escape(tytxt) + r'>\(\)<<std::endl;\}', t)
            elty = tytxt
        if not mm:
            raise TranslateError("save(): writer branch for %s not understood: %s" % (tytxt, t[:100]))
        pr = False
        if mm.group("prec"):
            pt = mm.group("pty")
            for _ in range(4):
                pt = typedefs.get(pt, pt)
            e = elty
            for _ in range(4):
                e = typedefs.get(e, e)
            e = {"std::vector<float>": "float"}.get(e, e)
            if pt != e:
                raise TranslateError("save(): precision of %s used for a %s" % (pt, e))
            pr = True
        W["types"].append(ty)
        W["precise"][ty] = pr
        t = t[mm.end():]
    # the string branch: one unconditional `ofs << a << b << ...;` chain whose operands are the name, the value (plain or
    # through std::quoted), character / string literals and std::endl - emitted as gen_string_line (Model/CfgText.v); the
    # token-level rule [w_comment] needs the chain to be  name '=' value endl  in this order, whatever the value's spelling
    m = re.fullmatch(r'else\{std::stringval;try\{if\(it->first=="(\w+)"\)\{ofs<<\'#\';\}val=_vm\[it->first\]\.as<std::string>\(\);'
                     r'ofs((?:<<(?:it->first|val|std::quoted\(val\)|std::endl|\'(?:[^\'\\]|\\.)\'|"(?:[^"\\]|\\.)*"))+);'
                     r'\}catch\(constboost::bad_any_cast&\)\{\}\}', t)
    if not m:
        raise TranslateError("save(): string branch not understood: %s" % t[:160])
    W["comment"] = [m.group(1)]
    pieces = []
    for op in re.findall(r'<<(it->first|val|std::quoted\(val\)|std::endl|\'(?:[^\'\\]|\\.)\'|"(?:[^"\\]|\\.)*")', m.group(2)):
        if op == "it->first":
            pieces.append(("name",))
        elif op == "val":
            pieces.append(("val",))
        elif op == "std::quoted(val)":
            pieces.append(("quoted",))
        elif op == "std::endl":
            pieces.append(("endl",))
        else:
            body = op[1:-1]
            if "\\" in body:
                esc = {"\\n": "\n", "\\t": "\t", "\\\\": "\\", "\\'": "'", '\\"': '"'}
                if body not in esc:
                    raise TranslateError("save(): string branch: escape %s in a literal is not modelled" % body)
                body = esc[body]
            pieces.append(("lit", body))
    if pieces and pieces[-1] == ("lit", "\n"):
        pieces[-1] = ("endl",)              # a final line feed written as a literal: the same text as std::endl
    kinds = [x[0] for x in pieces]
    if kinds.count("name") != 1 or kinds.count("val") + kinds.count("quoted") != 1 or kinds[-1] != "endl" or kinds.count("endl") != 1:
        raise TranslateError("save(): string branch does not write the name once, the value once and one final std::endl")
    W["string_line"] = pieces
    return W


def read_typedefs():
    td = {}
    for line in open(os.path.join(REPO, "inc", "defines.hpp")):
        m = re.match(r"\s*typedef\s+([\w:<> ]+?)\s+(\w+)\s*;", line)
        if m:
            td[m.group(2)] = m.group(1).strip()
    return td


# ------------------------------------------------------------------------------------------ table

def coq_str(s):
    return '"%s"' % s.replace('"', '""')


def translate():
    src = src_text()
    groups, inits = read_ctor(src)
    prog = read_parse(src)
    W = read_save(src, read_typedefs())
    cli, cfg = groups.get(prog["clidesc"]), groups.get(prog["cfgdesc"])
    if cli is None or cfg is None:
        raise TranslateError("descriptions used by parse() not composed in the constructor")
    alias_groups = {"_compatopts_alias"}
    ignore_groups = {"_compatopts_ignore"}
    table = {}
    defaults = []      # index k <-> token -(k+1); entries (ty, value)

    def deftok(ty, v):
        key = (ty, v)
        if key not in defaults:
            defaults.append(key)
        return -(defaults.index(key) + 1)

    for which, lst in (("cli", cli), ("file", cfg)):
        seen = set()
        for g, (spec, sem) in lst:
            parts = spec.split(",")
            name, short = parts[0], (parts[1] if len(parts) > 1 else None)
            if len(parts) > 2 or not re.fullmatch(r"\w+", name) or (short and len(short) != 1):
                raise TranslateError("option name spec %r not understood" % spec)
            if name in seen:
                raise TranslateError("option %s declared twice in the %s description" % (name, which))
            seen.add(name)
            if sem is None:
                ent = dict(var="", ty="TFlag", default=None, implicit=None, multitoken=False)
                kind = "KFlag"
            else:
                ent = sem
                kind = "KAlias" if g in alias_groups else ("KIgnored" if g in ignore_groups else "KCanon")
            if (ent["ty"] == "TVecFloat") != bool(ent["multitoken"]):
                raise TranslateError("%s: multitoken and vector type do not go together as modelled" % name)
            if ent["implicit"] is not None and not (ent["ty"] == "TBool" and ent["implicit"] == ("bool", True)):
                raise TranslateError("%s: implicit value other than bool true is not modelled" % name)
            o = table.get(name)
            if o is None:
                o = table[name] = dict(name=name, short=None, var=ent["var"], ty=ent["ty"], cli=False, file=False,
                                       defcli=None, deffile=None, implicit=False, kind=kind)
            else:
                if (o["var"], o["ty"], o["kind"]) != (ent["var"], ent["ty"], kind):
                    raise TranslateError("option %s is described differently for the command line and the file "
                                         "(variable/type/group) - not modelled" % name)
            if which == "cli":
                o["cli"] = True
                o["short"] = short
                o["implicit"] = ent["implicit"] is not None
                o["defcli"] = ent["default"]
            else:
                o["file"] = True
                o["deffile"] = ent["default"]
                if ent["implicit"] is not None:
                    raise TranslateError("%s: implicit value in the file description is not modelled" % name)
    # aliases: canonical option bound to the same variable
    for o in table.values():
        if o["kind"] == "KAlias":
            cs = [c for c in table.values() if c["kind"] == "KCanon" and c["var"] == o["var"]]
            if len(cs) != 1:
                raise TranslateError("alias %s has %d canonical options on its variable" % (o["name"], len(cs)))
            o["canon"] = cs[0]["name"]
    names = sorted(table, key=lambda s: s.encode())
    cfgopt = [o["name"] for o in table.values() if o["var"] == prog["cfgvar"]]
    if len(cfgopt) != 1:
        raise TranslateError("no unique option bound to %s" % prog["cfgvar"])
    if inits.get(prog["cfgvar"]) not in ('"%s"' % prog["default_cfg"], '%s("%s")' % (prog["cfgvar"], prog["default_cfg"])):
        raise TranslateError("the constructor does not initialise %s with the name parse() exempts (%s vs %s)" %
                             (prog["cfgvar"], inits.get(prog["cfgvar"]), prog["default_cfg"]))

    def dtok(o, d):
        if d is None:
            return "None"
        return "(Some (%d)%%Z)" % deftok(o["ty"], d)

    L = []
    L.append("(* GENERATED on every run by translate/options2coq.py from src/IO/ProgramOptions.cpp")
    L.append("   (constructor, parse, save(std::string)). Do not edit. *)")
    L.append("From Coq Require Import List String ZArith.")
    L.append("From Coq Require Ascii.")
    L.append("From Inovesa Require Import Model.OptionsTypes.")
    L.append("From Inovesa Require Model.CfgText.")
    L.append("Import ListNotations.")
    L.append("Local Open Scope string_scope.")
    L.append("")
    L.append("(* merged option table in std::map<std::string> (byte) order of the names *)")
    L.append("Definition gen_table : list opt := [")
    rows = []
    for n in names:
        o = table[n]
        kind = o["kind"] if o["kind"] != "KAlias" else "(KAlias %s)" % coq_str(o["canon"])
        rows.append("  mkOpt %s %s %s %s %s %s %s %s %s %s" % (
            coq_str(n), ("(Some %s)" % coq_str(o["short"])) if o["short"] else "None", coq_str(o["var"]), o["ty"],
            "true" if o["cli"] else "false", "true" if o["file"] else "false", dtok(o, o["defcli"]), dtok(o, o["deffile"]),
            "true" if o["implicit"] else "false", kind))
    L.append(";\n".join(rows))
    L.append("].")
    L.append("")

    def step(s):
        if s[0] in ("StoreCli", "StoreCfg", "Notify"):
            return s[0]
        if s[0] == "CopyIfPresent":
            return "CopyIfPresent %s %s" % (coq_str(s[1]), coq_str(s[2]))
        return "FoldAliases [%s]" % "; ".join("(%s, %s)" % (coq_str(a), coq_str(c)) for a, c in s[1])

    L.append("Definition gen_prog : prog := mkProg")
    L.append("  [%s]" % "; ".join(step(s) for s in prog["cli"]))
    L.append("  [%s]" % "; ".join(coq_str(f) for f in prog["flags"]))
    L.append("  %s" % coq_str(cfgopt[0]))
    L.append("  [%s]" % "; ".join(step(s) for s in prog["cfg"]))
    L.append("  %s." % ("true" if prog["nopos"] else "false"))
    L.append("")
    an, av, aeq = W["alpha"]
    prec = all(W["precise"].get(t, False) for t in ("TFloat", "TDouble") if t in W["types"]) and \
        (W["precise"].get("TVecFloat", True))
    L.append("Definition gen_wrules : wrules := mkW")
    L.append("  [%s]" % "; ".join(coq_str(s) for s in W["skip"]))
    L.append("  %s %s %s" % (coq_str(an), coq_str(av), "true" if aeq else "false"))
    L.append("  [%s]" % "; ".join(W["types"]))
    L.append("  %s" % ("true" if prec else "false"))
    L.append("  [%s]." % "; ".join(coq_str(s) for s in W["comment"]))
    L.append("")
    L.append("(* save(): the `ofs << ...` chain that writes a string option, operand by operand (Model/CfgText.v) *)")

    def piece(x):
        if x[0] == "lit":
            return "CfgText.WLit [%s]" % "; ".join("Ascii.ascii_of_nat %d" % b for b in x[1].encode())
        return {"name": "CfgText.WName", "val": "CfgText.WVal", "quoted": "CfgText.WQuotedVal", "endl": "CfgText.WEndl"}[x[0]]
    L.append("Definition gen_string_line : list CfgText.wpiece := [%s]." % "; ".join(piece(x) for x in W["string_line"]))
    info = dict(table=table, names=names, defaults=defaults, prog=prog, wrules=W, inits=inits, cfgopt=cfgopt[0],
                precise=prec)
    return "\n".join(L) + "\n", info


if __name__ == "__main__":
    dst = sys.argv[1] if len(sys.argv) > 1 else os.path.join(VERIF, "coq", "Gen", "Gen_Options.v")
    try:
        text, _ = translate()
    except TranslateError as e:
        print("TRANSLATE-ERROR Gen_Options: %s" % e)
        sys.exit(2)
    ch = write_if_changed(dst, text)
    print("Gen_Options.v %s" % ("regenerated" if ch else "unchanged"))
