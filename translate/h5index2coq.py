#!/usr/bin/env python3
# GEN: Gen_H5Index
"""Gen_H5Index.v: the index arithmetic of the results file (src/IO/HDF5File.cpp), read from the clang JSON AST of
/repo's working tree on every run:

 * `_appendData` (template pattern): the vectors handed to the HDF5 library - hyperslab start and count, the argument
   of extend(), the memory space, ds.dims after the call - as functions of ds.dims before the call and `size`;
   whether the file space is fetched after the extension;
 * the constructor: every growing dataset's path and initial extents (`_makeDatasetInfo<rank,T>(path, dims, ..)`),
   with the size members (`_nBunches`, `_psSizeX`, `_psSizeY`, `_maxn`, `_impSize`, `_nParticles`) followed to their
   mem-initialisers;
 * the append overloads: for every value of the AppendType / fullspectrum argument the list, in call order, of
   (dataset, what it is appended from, number of records) - sources are followed through locals and through the
   inline accessors of PhaseSpace (`getBunchLength` -> `_rms[0]`, `getMoment(a,o)` -> `_moment[a][o]`, ...);
 * `readPhaseSpace`: the record selection `(ps_dims[0]+use_step)%ps_dims[0]` in 64-bit unsigned arithmetic, per
   rank the grid size / bunch count read from the extents, the hyperslab start and count vectors, the memory
   space, the arguments of PhaseSpace::setSize, the acceptance test against getSelectNpoints() and which branch
   reads; `PhaseSpace::setSize`'s `_totalmeshcells`;
 * main(): the refusal of a start distribution whose grid size differs from GridSize.

Fails loudly (TranslateError) when the source no longer has a shape it understands.  Not translated: the gather
loop of append(ElectricField) (tied by correspondence and by C10_csr_spectrum_rows_are_bunches), appendRFKicks
(C19), attribute writes (h5units2coq.py)."""
import sys, os, re
sys.path.insert(0, os.path.dirname(os.path.abspath(__file__)))
from cxx_ast import *
from symloops import walk, strip1, refname, qtype, WRAPPERS

SRC = "src/IO/HDF5File.cpp"
PATHS = {"/Info/AxisValues_t": "DT", "/PhaseSpace/axis0": "DPSAxis", "/BunchProfile/data": "DProfile",
         "/BunchLength/data": "DLength", "/BunchPosition/data": "DPosition", "/EnergyProfile/data": "DEProfile",
         "/EnergySpread/data": "DESpread", "/EnergyAverage/data": "DEAverage", "/BunchPopulation/data": "DPopulation",
         "/CSR/Spectrum/data": "DCsrSpectrum", "/CSR/Intensity/data": "DCsrIntensity", "/WakePotential/data": "DWake",
         "/Particles/data": "DParticles", "/PhaseSpace/data": "DPSData", "/BunchProfile/padded": "DPadProfile",
         "/WakePotential/padded": "DPadPotential"}
ALL = ["DT", "DProfile", "DLength", "DPosition", "DEProfile", "DESpread", "DEAverage", "DPopulation", "DCsrSpectrum",
       "DCsrIntensity", "DWake", "DParticles", "DPSAxis", "DPSData", "DPadProfile", "DPadPotential"]


def unwrap(n):
    """strip wrappers and single-argument temporaries/constructions"""
    while True:
        k = n.get("kind")
        ks = kids(n)
        if k in WRAPPERS and len(ks) == 1:
            n = ks[0]
        elif k == "CXXConstructExpr" and len([c for c in ks if c.get("kind") != "CXXDefaultArgExpr"]) == 1:
            n = [c for c in ks if c.get("kind") != "CXXDefaultArgExpr"][0]
        elif k == "CXXStdInitializerListExpr" and len(ks) == 1:
            n = ks[0]
        else:
            return n


def zc(e):
    """integer IR -> Coq (Z)"""
    t = e[0]
    if t == "inum":
        return str(e[1]) if e[1] >= 0 else "(%d)" % e[1]
    if t == "ivar":
        return e[1]
    if t == "raw":
        return e[1]
    if t in ("iadd", "isub", "imul", "idiv", "imod"):
        return "(%s %s %s)" % (zc(e[1]), {"iadd": "+", "isub": "-", "imul": "*", "idiv": "/", "imod": "mod"}[t], zc(e[2]))
    if t == "wrap64":
        return "(%s mod 2 ^ 64)" % zc(e[1])
    if t == "iite":
        return "(if %s then %s else %s)" % (e[1], zc(e[2]), zc(e[3]))
    raise TranslateError("cannot print %s" % (e,))


def lst(es):
    return "[" + "; ".join(zc(e) for e in es) + "]"


# ------------------------------------------------------------------------------------------- _appendData
def member_of(n):
    """CXXDependentScopeMemberExpr / MemberExpr chain on `ds` -> tuple of member names, e.g. ('dims',), ('dataset','extend')"""
    n = unwrap(n)
    names = []
    while n.get("kind") in ("CXXDependentScopeMemberExpr", "MemberExpr"):
        names.insert(0, n.get("member") or n.get("name"))
        ks = kids(n)
        if not ks:
            return None
        n = unwrap(ks[0])
    if n.get("kind") == "DeclRefExpr":
        return (refname(n),) + tuple(names)
    return None


def append_data(docs):
    pat = None
    for d in docs:
        if d.get("kind") == "FunctionTemplateDecl" and d.get("name") == "_appendData":
            for c in d.get("inner", []):
                if c.get("kind") == "CXXMethodDecl" and any(x.get("kind") == "CompoundStmt" for x in c.get("inner", [])) and \
                        any(x.get("kind") == "ParmVarDecl" and "<rank>" in qtype(x) for x in c.get("inner", [])):
                    pat = pat or c
    if pat is None:
        raise TranslateError("template pattern of _appendData with a body not found")
    params = [c for c in pat["inner"] if c.get("kind") == "ParmVarDecl"]
    if len(params) != 3 or "DatasetInfo<rank>" not in qtype(params[0]) or "*" not in qtype(params[1]) or \
            not re.search(r"size_t|unsigned long", qtype(params[2])):
        raise TranslateError("_appendData no longer takes (DatasetInfo<rank>& ds, const datatype* data, size_t size)")
    # the parameters are identified by position; whatever they are called in the source, the rest of this function
    # (and the generated definitions) call them ds, data, size
    canon = {p_.get("id"): nm for p_, nm in zip(params, ("ds", "data", "size"))}

    def rename(n):
        if isinstance(n, dict):
            rd = n.get("referencedDecl")
            if isinstance(rd, dict) and rd.get("id") in canon:
                rd["name"] = canon[rd["id"]]
            for c in n.get("inner", []) or []:
                rename(c)
    rename(pat)
    dflt = kids(params[2])
    if not dflt or unwrap(dflt[0]).get("kind") != "IntegerLiteral" or int(unwrap(dflt[0])["value"]) != 1:
        raise TranslateError("default of _appendData's size is no longer 1")
    body = [c for c in pat["inner"] if c.get("kind") == "CompoundStmt"][0]
    HD, SZ = ("raw", "hd 0 dims"), ("ivar", "size")
    vec = {"ds.dims": (HD, "tl")}          # name -> (head expr, tail kind)
    res = {}
    trace = []

    def scalar(n):
        n = unwrap(n)
        k = n.get("kind")
        if k == "IntegerLiteral":
            return ("inum", int(n["value"]))
        if k == "DeclRefExpr" and refname(n) == "size":
            return SZ
        if k == "ArraySubscriptExpr":
            base, idx = kids(n)
            v = vecname(base)
            i = unwrap(idx)
            if v is None or i.get("kind") != "IntegerLiteral" or int(i["value"]) != 0:
                raise TranslateError("_appendData: subscript other than [0] of a dimension vector")
            return vec[v][0]
        if k == "BinaryOperator" and n.get("opcode") in ("+", "-", "*"):
            a, b = kids(n)
            return ({"+": "iadd", "-": "isub", "*": "imul"}[n["opcode"]], scalar(a), scalar(b))
        if k == "CXXOperatorCallExpr" and len(kids(n)) == 3 and unwrap(kids(n)[0]).get("kind") == "UnresolvedLookupExpr" and \
                unwrap(kids(n)[0]).get("name") in ("operator+", "operator-", "operator*"):
            # `a + b` on type-dependent operands (the template pattern): an unresolved operator call
            _, a, b = kids(n)
            return ({"operator+": "iadd", "operator-": "isub", "operator*": "imul"}[unwrap(kids(n)[0])["name"]], scalar(a), scalar(b))
        raise TranslateError("_appendData: scalar expression of kind %s" % k)

    def vecname(n):
        n = unwrap(n)
        m = member_of(n)
        if m == ("ds", "dims"):
            return "ds.dims"
        if n.get("kind") == "DeclRefExpr" and refname(n) in vec:
            return refname(n)
        return None

    def data_of(n):
        """`V.data()` -> vector name"""
        n = unwrap(n)
        if n.get("kind") == "CallExpr":
            c = unwrap(kids(n)[0])
            if (c.get("member") or c.get("name")) == "data" and kids(c):
                return vecname(kids(c)[0])
        return None

    for s in kids(body):
        k = s.get("kind")
        if k == "DeclStmt":
            for vd in kids(s):
                if vd.get("kind") != "VarDecl":
                    continue
                nm = vd["name"]
                ini = kids(vd)
                t = qtype(vd)
                if (not ini or (unwrap(ini[0]).get("kind") == "CXXConstructExpr" and not kids(unwrap(ini[0])))) and "array<" in t:
                    vec[nm] = (None, "uninit")       # `std::array<hsize_t,rank> v;` - must be filled before it is used
                    continue
                if not ini:
                    raise TranslateError("_appendData: local %s without initialiser" % nm)
                e = unwrap(ini[0])
                if "array<" in t or t == "auto":
                    src = vecname(e)
                    if src is not None:
                        vec[nm] = vec[src]
                        continue
                    # aggregate initialisation {{ e0 }}: remaining elements are zero
                    il = e
                    while il.get("kind") == "InitListExpr" and len(kids(il)) == 1 and unwrap(kids(il)[0]).get("kind") == "InitListExpr":
                        il = unwrap(kids(il)[0])
                    if il.get("kind") == "InitListExpr" and len(kids(il)) == 1:
                        vec[nm] = (scalar(kids(il)[0]), "zeros")
                        continue
                    raise TranslateError("_appendData: initialiser of %s not understood" % nm)
                if "DataSpace" in t:
                    args = kids(e) if e.get("kind") == "ParenListExpr" else [e]
                    a0 = unwrap(args[0])
                    if a0.get("kind") == "CallExpr" and (unwrap(kids(a0)[0]).get("member") == "getSpace"):
                        trace.append("getspace")
                        res["filespace"] = nm
                        continue
                    if len(args) >= 2 and member_of(args[0]) == ("ds", "rank") and data_of(args[1]):
                        res["mem"] = vec[data_of(args[1])]
                        res["memspace"] = nm
                        continue
                    raise TranslateError("_appendData: DataSpace %s is neither the dataset's space nor (rank, V.data())" % nm)
                raise TranslateError("_appendData: local %s of type %s" % (nm, t))
            continue
        if k in ("BinaryOperator", "CompoundAssignOperator") and (k == "CompoundAssignOperator" or s.get("opcode") == "="):
            lhs, rhs = kids(s)
            l = unwrap(lhs)
            if l.get("kind") != "ArraySubscriptExpr":
                raise TranslateError("_appendData: assignment to something else than V[0]")
            v = vecname(kids(l)[0])
            i = unwrap(kids(l)[1])
            if v is None or i.get("kind") != "IntegerLiteral" or int(i["value"]) != 0:
                raise TranslateError("_appendData: assignment to something else than V[0]")
            r = scalar(rhs)
            op = s.get("opcode")
            if op == "=":
                new = r
            elif op == "+=":
                new = ("iadd", vec[v][0], r)
            else:
                raise TranslateError("_appendData: assignment operator %s" % op)
            vec[v] = (new, vec[v][1])
            continue
        if k == "CallExpr":
            c = unwrap(kids(s)[0])
            nm = c.get("member") or c.get("name")
            args = kids(s)[1:]
            if nm == "fill" and kids(c) and vecname(kids(c)[0]) and vecname(kids(c)[0]) != "ds.dims" and len(args) == 1:
                a0 = unwrap(args[0])
                if a0.get("kind") != "IntegerLiteral" or int(a0["value"]) != 0:
                    raise TranslateError("_appendData: fill() with something else than 0")
                vec[vecname(kids(c)[0])] = (("inum", 0), "zeros")
                continue
            if nm == "extend":
                v = data_of(args[0]) if args else None
                if v is None:
                    raise TranslateError("_appendData: extend() is not called with V.data()")
                res["extent"] = vec[v]
                trace.append("extend")
                continue
            if nm == "selectHyperslab":
                if refname(unwrap(kids(c)[0])) != res.get("filespace"):
                    raise TranslateError("_appendData: the selection is not made on the dataset's file space")
                if len(args) < 3 or refname(unwrap(args[0])) != "H5S_SELECT_SET":
                    raise TranslateError("_appendData: selectHyperslab is not (H5S_SELECT_SET, count, start)")
                cv, sv = data_of(args[1]), data_of(args[2])
                if cv is None or sv is None:
                    raise TranslateError("_appendData: selectHyperslab arguments are not V.data()")
                res["count"], res["start"] = vec[cv], vec[sv]
                trace.append("select")
                continue
            if nm == "write":
                names = [refname(unwrap(a)) for a in args]
                if len(args) != 4 or names[0] != "data" or names[2] != res.get("memspace") or names[3] != res.get("filespace"):
                    raise TranslateError("_appendData: write is not (data, datatype, memspace, filespace)")
                trace.append("write")
                continue
            raise TranslateError("_appendData: call of %s" % nm)
        if k == "NullStmt":
            continue
        raise TranslateError("_appendData: statement of kind %s" % k)
    for w in ("start", "count", "extent", "mem"):
        if w not in res:
            raise TranslateError("_appendData: %s vector not found" % w)
        if res[w][1] == "uninit" or res[w][0] is None:
            raise TranslateError("_appendData: the %s vector is used without having been initialised" % w)
    res["after"] = vec["ds.dims"]
    order_ok = trace == ["extend", "getspace", "select", "write"]

    def v2c(v):
        return "%s :: %s" % (zc(v[0]), "tl dims" if v[1] == "tl" else "map (fun _ : Z => 0) (tl dims)")
    out = ["(* _appendData(ds, data, size): what reaches the library, from ds.dims before the call *)"]
    for w, nm in (("start", "gen_ad_start"), ("count", "gen_ad_count"), ("extent", "gen_ad_extent"), ("mem", "gen_ad_mem"),
                  ("after", "gen_ad_dims_after")):
        out.append("Definition %s (dims : list Z) (size : Z) : list Z := %s." % (nm, v2c(res[w])))
    out.append("(* extend(); getSpace(); selectHyperslab(); write() in this order *)")
    out.append("Definition gen_ad_order_ok : bool := %s." % ("true" if order_ok else "false"))
    return out


# ------------------------------------------------------------------------------------------- constructor
def ctor_sizes(ctor):
    """size members -> integer IR over the parameters nb nx ny nmax nfreqs np and the flags has_ef has_imp"""
    env = {}

    def ev(n):
        n = unwrap(n)
        k = n.get("kind")
        if k == "IntegerLiteral":
            return ("inum", int(n["value"]))
        if k == "DeclRefExpr":
            nm = refname(n)
            if nm in ("nb", "nx", "ny"):
                return ("ivar", nm)
            if nm == "nparticles":
                return ("ivar", "np")
            raise TranslateError("constructor: size expression mentions %s" % nm)
        if k == "MemberExpr" and n.get("name") in env:
            return env[n["name"]]
        if k == "BinaryOperator" and n.get("opcode") in ("+", "-", "*", "/"):
            a, b = kids(n)
            return ({"+": "iadd", "-": "isub", "*": "imul", "/": "idiv"}[n["opcode"]], ev(a), ev(b))
        if k == "CXXMemberCallExpr":
            c = kids(n)[0]
            prm = [refname(x) for x in walk(c) if x.get("kind") == "DeclRefExpr" and (x.get("referencedDecl") or {}).get("kind") == "ParmVarDecl"]
            base = prm[0] if len(prm) == 1 else None
            if c.get("name") == "getNMax" and base == "ef":
                return ("ivar", "nmax")
            if c.get("name") == "nFreqs" and base == "imp":
                return ("ivar", "nfreqs")
            raise TranslateError("constructor: call of %s in a size expression" % c.get("name"))
        if k == "ConditionalOperator":
            c, a, b = kids(n)
            c = unwrap(c)
            opc, operands = None, None
            if c.get("kind") == "BinaryOperator" and c.get("opcode") in ("!=", "=="):
                opc, operands = c["opcode"], kids(c)
            elif c.get("kind") == "CXXOperatorCallExpr" and refname(unwrap(kids(c)[0])) in ("operator!=", "operator==") and len(kids(c)) == 3:
                opc, operands = refname(unwrap(kids(c)[0]))[8:], kids(c)[1:]
            if opc:
                x, y = [unwrap(z) for z in operands]
                if y.get("kind") != "CXXNullPtrLiteralExpr":
                    x, y = y, x
                if y.get("kind") == "CXXNullPtrLiteralExpr" and refname(x) in ("ef", "imp"):
                    flag = "has_" + refname(x)
                    return ("iite", flag, ev(a), ev(b)) if opc == "!=" else ("iite", flag, ev(b), ev(a))
            raise TranslateError("constructor: condition of a size expression is not a null test of ef/imp")
        raise TranslateError("constructor: size expression of kind %s" % k)
    for c in ctor.get("inner", []):
        if c.get("kind") == "CXXCtorInitializer" and c.get("anyInit"):
            nm = c["anyInit"].get("name")
            if nm in ("_nBunches", "_nParticles", "_psSizeX", "_psSizeY", "_maxn", "_impSize"):
                env[nm] = ev(kids(c)[0])
    for nm in ("_nBunches", "_nParticles", "_psSizeX", "_psSizeY", "_maxn", "_impSize"):
        if nm not in env:
            raise TranslateError("constructor: mem-initialiser of %s not found" % nm)
    return env, ev


def ctor_datasets(docs):
    ctor = None
    for d in docs:
        if d.get("kind") == "CXXConstructorDecl" and any(c.get("kind") == "CompoundStmt" for c in d.get("inner", [])) and \
                any(c.get("kind") == "CXXCtorInitializer" for c in d.get("inner", [])):
            ctor = d
    if ctor is None:
        raise TranslateError("HDF5File constructor not found")
    env, ev = ctor_sizes(ctor)
    member_ds, dims_of = {}, {}
    for c in ctor.get("inner", []):
        if c.get("kind") != "CXXCtorInitializer" or not c.get("anyInit"):
            continue
        calls = [x for x in walk(c) if x.get("kind") == "CXXMemberCallExpr" and kids(x)[0].get("name") == "_makeDatasetInfo"]
        if not calls:
            continue
        if len(calls) != 1:
            raise TranslateError("constructor: several _makeDatasetInfo calls in one initialiser")
        args = kids(calls[0])[1:]
        strs = [x.get("value", "").strip('"') for x in walk(args[0]) if x.get("kind") == "StringLiteral"]
        if len(strs) != 1 or len(args) != 4:
            raise TranslateError("constructor: _makeDatasetInfo is no longer (path, dims, chunkdims, maxdims)")
        path = strs[0]
        if path not in PATHS:
            continue                     # axes written once, /RFKicks (C19), impedance: not growing datasets of the model
        il = unwrap(args[1])
        while il.get("kind") == "InitListExpr" and len(kids(il)) == 1 and unwrap(kids(il)[0]).get("kind") == "InitListExpr":
            il = unwrap(kids(il)[0])
        if il.get("kind") != "InitListExpr":
            raise TranslateError("constructor: dims of %s are not an initialiser list" % path)
        ds = PATHS[path]
        if ds in dims_of:
            raise TranslateError("constructor: two datasets with path %s" % path)
        dims_of[ds] = [ev(x) for x in kids(il)]
        member_ds[c["anyInit"]["name"]] = ds
    for ds in ALL:
        if ds not in dims_of:
            raise TranslateError("constructor: dataset %s is no longer created" % ds)
    out = ["(* the constructor: initial extents of every growing dataset (size members followed to their initialisers) *)",
           "Definition gen_ds_dims (has_ef has_imp : bool) (nb nx ny nmax nfreqs np : Z) (d : dset) : list Z :=",
           "  match d with"]
    for ds in ALL:
        out.append("  | %s => %s" % (ds, lst(dims_of[ds])))
    out.append("  end.")
    return out, member_ds


# ------------------------------------------------------------------------------------------- append overloads
def ps_accessors(psdocs):
    """inline accessors of PhaseSpace that return a member (sub-)array: name -> (member, [param index or literal])"""
    acc = {}
    for d in psdocs:
        if d.get("kind") != "CXXMethodDecl":
            continue
        body = [c for c in d.get("inner", []) if c.get("kind") == "CompoundStmt"]
        if not body or len(kids(body[0])) != 1 or kids(body[0])[0].get("kind") != "ReturnStmt":
            continue
        params = [c for c in d.get("inner", []) if c.get("kind") == "ParmVarDecl"]
        r = unwrap(kids(kids(body[0])[0])[0]) if kids(kids(body[0])[0]) else None
        if r is None:
            continue
        idx = []
        cur = r
        ok = True
        while cur.get("kind") == "CXXOperatorCallExpr" and refname(unwrap(kids(cur)[0])) == "operator[]":
            i = unwrap(kids(cur)[2])
            if i.get("kind") == "IntegerLiteral":
                idx.insert(0, ("lit", int(i["value"])))
            elif i.get("kind") == "DeclRefExpr" and any(p.get("id") == (i.get("referencedDecl") or {}).get("id") for p in params):
                idx.insert(0, ("par", [p.get("id") for p in params].index(i["referencedDecl"]["id"])))
            else:
                ok = False
            cur = unwrap(kids(cur)[1])
        if cur.get("kind") == "CXXMemberCallExpr" and kids(cur)[0].get("name") == "data" and kids(kids(cur)[0]):
            cur = unwrap(kids(kids(cur)[0])[0])
        if ok and cur.get("kind") == "MemberExpr" and cur.get("name", "").startswith("_"):
            key = (d["name"], len(params))
            if key not in acc:
                acc[key] = (cur["name"], idx)
    return acc


def classify(n, locs, acc):
    """source expression of an _appendData call -> Coq term of type psrc"""
    n = unwrap(n)
    k = n.get("kind")
    if k == "UnaryOperator" and n.get("opcode") == "&":
        x = unwrap(kids(n)[0])
        if x.get("kind") == "DeclRefExpr" and refname(x) == "t":
            return "SrcTime"
        return "SrcOther"
    if k == "DeclRefExpr":
        rid = (n.get("referencedDecl") or {}).get("id")
        if rid in locs:
            return locs[rid]
        return "SrcOther"
    if k == "CXXMemberCallExpr":
        c = kids(n)[0]
        nm = c.get("name")
        base = unwrap(kids(c)[0]) if kids(c) else {}
        args = kids(n)[1:]
        if nm in ("origin", "data"):
            return classify(base, locs, acc)
        bname = refname(base)
        if bname == "ps" or (base.get("kind") == "MemberExpr" and base.get("name") == "_ps"):
            key = (nm, len(args))
            if key in acc:
                member, idx = acc[key]
                vals = []
                for i in idx:
                    if i[0] == "lit":
                        vals.append(i[1])
                    else:
                        a = unwrap(args[i[1]])
                        if a.get("kind") != "IntegerLiteral":
                            return "SrcOther"
                        vals.append(int(a["value"]))
                if member == "_data" and not vals:
                    return "SrcData"
                if member == "_projection" and len(vals) == 1:
                    return "(SrcProj %d)" % vals[0]
                if member == "_rms" and len(vals) == 1:
                    return "(SrcRms %d)" % vals[0]
                if member == "_moment" and len(vals) == 2:
                    return "(SrcMoment %d %d)" % tuple(vals)
                if member == "_filling" and not vals:
                    return "SrcFilling"
            return "SrcOther"
        if bname in ("ef", "wkm"):
            return {"getCSRPower": "SrcCsrPower", "getForce": "SrcForce", "getPaddedBunchProfiles": "SrcPadProfile",
                    "getPaddedWakePotential": "SrcPadPotential"}.get(nm, "SrcOther")
        return "SrcOther"
    return "SrcOther"


def eval_cond(n, val):
    """condition over one parameter (enum constant name or bool) -> bool"""
    n = unwrap(n)
    k = n.get("kind")
    if k == "BinaryOperator":
        op = n.get("opcode")
        a, b = kids(n)
        if op == "||":
            return eval_cond(a, val) or eval_cond(b, val)
        if op == "&&":
            return eval_cond(a, val) and eval_cond(b, val)
        if op in ("==", "!="):
            x, y = unwrap(a), unwrap(b)
            if (y.get("referencedDecl") or {}).get("kind") != "EnumConstantDecl":
                x, y = y, x
            if (y.get("referencedDecl") or {}).get("kind") == "EnumConstantDecl" and \
                    (x.get("referencedDecl") or {}).get("kind") == "ParmVarDecl":
                eq = refname(y) == val
                return eq if op == "==" else not eq
    if k == "DeclRefExpr" and (n.get("referencedDecl") or {}).get("kind") == "ParmVarDecl" and isinstance(val, bool):
        return val
    if k == "UnaryOperator" and n.get("opcode") == "!":
        return not eval_cond(kids(n)[0], val)
    raise TranslateError("append: condition not understood")


def run_append(body, val, member_ds, acc):
    calls = []
    locs = {}

    def go(s):
        k = s.get("kind")
        if k == "CompoundStmt":
            for c in kids(s):
                go(c)
            return
        if k in WRAPPERS and len(kids(s)) == 1:
            return go(kids(s)[0])
        if k == "IfStmt":
            ks = [c for c in s.get("inner", []) if c]
            if eval_cond(ks[0], val):
                go(ks[1])
            elif len(ks) > 2:
                go(ks[2])
            return
        if k == "DeclStmt":
            for vd in kids(s):
                if vd.get("kind") == "VarDecl" and kids(vd):
                    t = qtype(vd)
                    if "vector<" in t:
                        nm = vd.get("name")
                        locs[vd["id"]] = {"rows": "SrcCsrRows", "physcords": "SrcParticles"}.get(nm, "SrcOther")
                        if nm == "rows":
                            c = unwrap(kids(vd)[0])
                            locs["rows_len"] = c
                    else:
                        locs[vd["id"]] = classify(kids(vd)[0], locs, acc)
            return
        if k == "CXXMemberCallExpr" and kids(s)[0].get("name") == "_appendData":
            args = kids(s)[1:]
            m = unwrap(args[0])
            if m.get("kind") != "MemberExpr" or m.get("name") not in member_ds:
                if m.get("kind") == "MemberExpr" and m.get("name") == "_dynamicRFKick":
                    return
                raise TranslateError("append: _appendData on %s, which is not a dataset created by the constructor" % m.get("name"))
            size = "1"
            if len(args) > 2 and args[2].get("kind") != "CXXDefaultArgExpr":
                z = unwrap(args[2])
                if z.get("kind") == "IntegerLiteral":
                    size = z["value"]
                else:
                    raise TranslateError("append: record count of %s is not a literal" % m.get("name"))
            calls.append((member_ds[m["name"]], classify(args[1], locs, acc), size))
            return
        if k in ("ForStmt", "CXXForRangeStmt", "WhileStmt"):
            if any(x.get("kind") == "CXXMemberCallExpr" and kids(x)[0].get("name") == "_appendData" for x in walk(s)):
                raise TranslateError("append: _appendData inside a loop")
            return
        if any(x.get("kind") == "CXXMemberCallExpr" and kids(x) and kids(x)[0].get("name") == "_appendData" for x in walk(s)):
            raise TranslateError("append: _appendData inside a statement of kind %s" % k)
    go(body)
    return calls


def appends(docs, member_ds, acc):
    meth = {}
    for d in docs:
        if d.get("kind") == "CXXMethodDecl" and d.get("name") in ("append", "appendPadded", "appendTracks"):
            body = [c for c in d.get("inner", []) if c.get("kind") == "CompoundStmt"]
            if not body:
                continue
            ps = [(p.get("name"), qtype(p)) for p in d.get("inner", []) if p.get("kind") == "ParmVarDecl"]
            if d["name"] == "append":
                if any("PhaseSpace" in t and "AppendType" not in t for _, t in ps[:1]):
                    key = "ps"
                elif any("ElectricField" in t for _, t in ps[:1]):
                    key = "ef"
                elif any("WakeKickMap" in t for _, t in ps[:1]):
                    key = "wake"
                else:
                    raise TranslateError("append overload with first parameter of type %s" % (ps[:1],))
            else:
                key = {"appendPadded": "padded", "appendTracks": "tracks"}[d["name"]]
            meth[key] = body[0]
    for k in ("ps", "ef", "wake", "padded", "tracks"):
        if k not in meth:
            raise TranslateError("append overload %s not found" % k)

    def tab(calls):
        return "[" + "; ".join("(%s, %s, %s)" % c for c in calls) + "]"
    out = ["(* the append overloads: (dataset, source, records) in call order *)",
           "Definition gen_append_ps (a : atype) : list (dset * psrc * Z) :=", "  match a with"]
    for coq, cxx in (("AtAll", "All"), ("AtDefaults", "Defaults"), ("AtPhaseSpace", "PhaseSpace")):
        out.append("  | %s => %s" % (coq, tab(run_append(meth["ps"], cxx, member_ds, acc))))
    out.append("  end.")
    out.append("Definition gen_append_ef (fullspectrum : bool) : list (dset * psrc * Z) :=\n  if fullspectrum then %s else %s." %
               (tab(run_append(meth["ef"], True, member_ds, acc)), tab(run_append(meth["ef"], False, member_ds, acc))))
    for k in ("wake", "tracks", "padded"):
        out.append("Definition gen_append_%s : list (dset * psrc * Z) := %s." % (k, tab(run_append(meth[k], None, member_ds, acc))))
    return out


# ------------------------------------------------------------------------------------------- readPhaseSpace
def rank_case(ifstmt, rank_id):
    """K when the condition of the if statement is `rank == K` (either order), else None"""
    iks = [c for c in ifstmt.get("inner", []) if c]
    if not iks or ifstmt.get("hasInit") or ifstmt.get("hasVar"):
        return None
    c = unwrap(iks[0])
    if c.get("kind") != "BinaryOperator" or c.get("opcode") != "==":
        return None
    a, b = [unwrap(x) for x in kids(c)]
    for x, y in ((a, b), (b, a)):
        if (x.get("referencedDecl") or {}).get("id") == rank_id and y.get("kind") == "IntegerLiteral":
            return int(y["value"])
    return None


def read_ps(docs, psdocs):
    d = body = None
    for x in docs:
        if x.get("kind") == "CXXMethodDecl" and x.get("name") == "readPhaseSpace":
            for c in x.get("inner", []):
                if c.get("kind") == "CompoundStmt":
                    d, body = x, c
    if body is None:
        raise TranslateError("definition of readPhaseSpace not found")
    params = {p["id"]: p["name"] for p in d["inner"] if p.get("kind") == "ParmVarDecl"}
    stepid = [i for i, n in params.items() if n == "use_step"]
    if len(stepid) != 1:
        raise TranslateError("readPhaseSpace: parameter use_step not found")
    stepid = stepid[0]
    env = {stepid: ("ivar", "step")}      # decl id -> integer IR
    vecs = {}                              # decl id -> list of IR
    names = {}
    dimsid = [None]
    rankid = [None]

    def is_u64(n):
        t = qtype(n)
        return "unsigned long long" in t or "hsize_t" in t

    def ev(n):
        k0 = n.get("kind")
        if k0 in WRAPPERS and len(kids(n)) == 1:
            inner = kids(n)[0]
            v = ev(inner)
            if n.get("castKind") == "IntegralCast" and is_u64(n) and not qtype(inner).replace("const ", "").startswith("unsigned") \
                    and unwrap(inner).get("kind") != "IntegerLiteral" and "size_type" not in qtype(inner) and "uint" not in qtype(inner) \
                    and "meshindex_t" not in qtype(inner):
                return ("wrap64", v)
            return v
        n2 = unwrap(n)
        k = n2.get("kind")
        if k == "IntegerLiteral":
            return ("inum", int(n2["value"]))
        if k == "DeclRefExpr":
            rid = (n2.get("referencedDecl") or {}).get("id")
            if rid in env:
                return env[rid]
            raise TranslateError("readPhaseSpace: variable %s used before it has a value" % refname(n2))
        if k == "CXXOperatorCallExpr" and refname(unwrap(kids(n2)[0])) == "operator[]":
            b = unwrap(kids(n2)[1])
            i = unwrap(kids(n2)[2])
            if (b.get("referencedDecl") or {}).get("id") == dimsid[0] and i.get("kind") == "IntegerLiteral":
                return ("raw", "nth %d dims 0" % int(i["value"]))
            raise TranslateError("readPhaseSpace: subscript of something else than the extents")
        if k == "BinaryOperator" and n2.get("opcode") in ("+", "-", "*", "%", "/"):
            a, b = kids(n2)
            op = {"+": "iadd", "-": "isub", "*": "imul", "%": "imod", "/": "idiv"}[n2["opcode"]]
            e = (op, ev(a), ev(b))
            if is_u64(n2) and op in ("iadd", "isub", "imul"):
                return ("wrap64", e)
            return e
        if k == "CXXMemberCallExpr" and kids(n2)[0].get("name") == "size":
            b = unwrap(kids(kids(n2)[0])[0])
            rid = (b.get("referencedDecl") or {}).get("id")
            if rid in vecs:
                return ("inum", len(vecs[rid]))
        raise TranslateError("readPhaseSpace: integer expression of kind %s" % k)

    def initlist(n):
        il = [x for x in walk(n) if x.get("kind") == "InitListExpr"]
        if not il:
            return None
        return il[0]

    out = {}
    cases = {}

    def vec_of_data(n):
        n = unwrap(n)
        if n.get("kind") == "CXXMemberCallExpr" and kids(n)[0].get("name") == "data":
            b = unwrap(kids(kids(n)[0])[0])
            return (b.get("referencedDecl") or {}).get("id")
        return None

    def assign_stmt(s, envl, vecl):
        s2 = s
        while s2.get("kind") in WRAPPERS and len(kids(s2)) == 1:
            s2 = kids(s2)[0]
        k = s2.get("kind")
        if k == "BinaryOperator" and s2.get("opcode") == "=":
            l = unwrap(kids(s2)[0])
            rid = (l.get("referencedDecl") or {}).get("id")
            envl[rid] = ev_in(kids(s2)[1], envl)
            return True
        if k == "CXXOperatorCallExpr" and refname(unwrap(kids(s2)[0])) == "operator=":
            l = unwrap(kids(s2)[1])
            rid = (l.get("referencedDecl") or {}).get("id")
            il = initlist(kids(s2)[2])
            if il is None:
                raise TranslateError("readPhaseSpace: vector assigned from something else than an initialiser list")
            vecl[rid] = [ev_in(x, envl) for x in kids(il)]
            return True
        return False

    def ev_in(n, envl):
        saved = dict(env)
        env.clear()
        env.update(envl)
        try:
            return ev(n)
        finally:
            env.clear()
            env.update(saved)

    sel = {}
    for s in kids(body):
        k = s.get("kind")
        if k == "DeclStmt":
            for vd in kids(s):
                if vd.get("kind") != "VarDecl":
                    continue
                names[vd["id"]] = vd["name"]
                t = qtype(vd)
                ini = kids(vd)
                if vd["name"] == "rank" or (ini and any(x.get("name") == "getSimpleExtentNdims" for x in walk(ini[0]))):
                    rankid[0] = vd["id"]
                    continue
                if "vector<" in t and ("hsize_t" in t or "unsigned long long" in t):
                    c = unwrap(ini[0]) if ini else {}
                    if ini and rankid[0] and any((x.get("referencedDecl") or {}).get("id") == rankid[0] for x in walk(ini[0])):
                        dimsid[0] = vd["id"]          # std::vector<hsize_t> ps_dims(rank)
                    else:
                        vecs[vd["id"]] = []
                    continue
                if "vector<" in t:
                    il = initlist(ini[0]) if ini else None
                    vecs[vd["id"]] = [None] * len(kids(il)) if il is not None else []
                    continue
                if "DataSpace" in t and ini:
                    c = unwrap(ini[0])
                    args = [a for a in kids(c)] if c.get("kind") == "CXXConstructExpr" else []
                    if len(args) >= 2 and vec_of_data(args[1]) in vecs:
                        if (unwrap(args[0]).get("referencedDecl") or {}).get("id") != rankid[0]:
                            raise TranslateError("readPhaseSpace: memory space rank is not the dataset's rank")
                        sel["mem"] = vec_of_data(args[1])
                        sel["memspace"] = vd["id"]
                    elif any(x.get("name") == "getSpace" for x in walk(ini[0])):
                        sel["filespace"] = vd["id"]
                    continue
                if ini and ("int" in t or "meshindex_t" in t or "size_t" in t or "long" in t or "unsigned" in t) and "vector" not in t \
                        and "unique_ptr" not in t and "*" not in t:
                    try:
                        env[vd["id"]] = ev(ini[0])
                    except TranslateError:
                        pass
            continue
        if k == "SwitchStmt":
            ks = kids(s)
            c = unwrap(ks[0])
            if (c.get("referencedDecl") or {}).get("id") != rankid[0]:
                raise TranslateError("readPhaseSpace: switch on something else than the dataset's rank")
            cur = None
            envl = vecl = None
            stack = list(kids(ks[1]))
            while stack:
                st = stack.pop(0)
                if st.get("kind") == "CaseStmt":
                    cks = kids(st)
                    val = unwrap(cks[0])
                    cur = int(val["value"]) if "value" in val else int(unwrap(kids(cks[0])[0])["value"])
                    envl, vecl = dict(env), {kk: list(vv) for kk, vv in vecs.items()}
                    cases[cur] = (envl, vecl)
                    stack = cks[1:] + stack
                    continue
                if st.get("kind") == "BreakStmt":
                    cur = None
                    continue
                if st.get("kind") == "DefaultStmt":
                    raise TranslateError("readPhaseSpace: default branch in the rank switch")
                if cur is None:
                    raise TranslateError("readPhaseSpace: statement outside a case of the rank switch")
                if not assign_stmt(st, envl, vecl):
                    raise TranslateError("readPhaseSpace: statement of kind %s in the rank switch" % st.get("kind"))
            continue
        if k == "IfStmt" and rank_case(s, rankid[0]) is not None:
            # the same selection written as a chain `if (rank == K) {..} else if (rank == K') {..}` (no final else)
            node = s
            while node is not None:
                if node.get("kind") != "IfStmt" or rank_case(node, rankid[0]) is None:
                    raise TranslateError("readPhaseSpace: the chain of rank tests ends in a branch that is not a rank test")
                cur = rank_case(node, rankid[0])
                if cur in cases:
                    raise TranslateError("readPhaseSpace: rank %d is tested twice" % cur)
                iks = [c for c in node.get("inner", []) if c]
                envl, vecl = dict(env), {kk: list(vv) for kk, vv in vecs.items()}
                cases[cur] = (envl, vecl)
                body = iks[1]
                for st in (kids(body) if body.get("kind") == "CompoundStmt" else [body]):
                    if not assign_stmt(st, envl, vecl):
                        raise TranslateError("readPhaseSpace: statement of kind %s in a rank branch" % st.get("kind"))
                node = iks[2] if len(iks) > 2 else None
            continue
        s2 = s
        while s2.get("kind") in WRAPPERS and len(kids(s2)) == 1:
            s2 = kids(s2)[0]
        k = s2.get("kind")
        if k == "BinaryOperator" and s2.get("opcode") == "=" and \
                (unwrap(kids(s2)[0]).get("referencedDecl") or {}).get("id") == stepid:
            if cases:
                raise TranslateError("readPhaseSpace: use_step is re-assigned after the rank switch")
            e = ev(kids(s2)[1])
            out["use_step"] = e
            env[stepid] = ("ivar", "u")
            continue
        if k == "CXXMemberCallExpr" and kids(s2)[0].get("name") == "selectHyperslab":
            args = kids(s2)[1:]
            if refname(unwrap(args[0])) != "H5S_SELECT_SET":
                raise TranslateError("readPhaseSpace: selection operator is not H5S_SELECT_SET")
            sel["count"], sel["start"] = vec_of_data(args[1]), vec_of_data(args[2])
            sel["sel_on"] = (unwrap(kids(kids(s2)[0])[0]).get("referencedDecl") or {}).get("id")
            continue
        if k == "CallExpr" and refname(unwrap(kids(s2)[0])) == "setSize":
            sel["setsize"] = kids(s2)[1:]
            continue
        if k == "IfStmt":
            ks = [c for c in s2.get("inner", []) if c]
            if any(x.get("name") == "getSelectNpoints" for x in walk(ks[0])):
                c = unwrap(ks[0])
                if c.get("kind") != "BinaryOperator" or c.get("opcode") not in ("==", "!=", "<=", ">=", "<", ">"):
                    raise TranslateError("readPhaseSpace: acceptance test is not a comparison")
                a, b = kids(c)
                an = any(x.get("name") == "getSelectNpoints" for x in walk(a))
                other = unwrap(b if an else a)
                if refname(other) != "nxyb":
                    raise TranslateError("readPhaseSpace: acceptance test does not compare PhaseSpace::nxyb")
                op = c["opcode"]
                if an:      # npoints OP nxyb  ->  nxyb OP' npoints
                    op = {"==": "==", "!=": "!=", "<": ">", ">": "<", "<=": ">=", ">=": "<="}[op]
                reads = [any(x.get("kind") == "CXXMemberCallExpr" and kids(x)[0].get("name") == "read" for x in walk(br)) for br in ks[1:]]
                throws = [any(x.get("kind") == "CXXThrowExpr" for x in walk(br)) for br in ks[1:]]
                if len(ks) != 3 or reads == throws or sum(reads) != 1 or sum(throws) != 1:
                    raise TranslateError("readPhaseSpace: acceptance test is not `read in one branch, throw in the other`")
                sel["accept"] = (op, reads[0])
                rd = [x for x in walk(ks[1 if reads[0] else 2]) if x.get("kind") == "CXXMemberCallExpr" and kids(x)[0].get("name") == "read"][0]
                rargs = [a for a in kids(rd)[1:] if a.get("kind") != "CXXDefaultArgExpr"]
                ids = [(unwrap(a).get("referencedDecl") or {}).get("id") for a in rargs]
                if len(rargs) != 4 or ids[2] != sel.get("memspace") or ids[3] != sel.get("sel_on"):
                    raise TranslateError("readPhaseSpace: read is not (buffer, datatype, memspace, selected file space)")
                if not any(x.get("name") == "getData" for x in walk(rargs[0])):
                    raise TranslateError("readPhaseSpace: read does not fill ps->getData()")
            continue
    for w in ("count", "start", "mem", "setsize", "accept"):
        if w not in sel:
            raise TranslateError("readPhaseSpace: %s not found" % w)
    if "use_step" not in out:
        raise TranslateError("readPhaseSpace: assignment to use_step not found")
    if sorted(cases) != [3, 4]:
        raise TranslateError("readPhaseSpace: the rank switch has cases %s" % sorted(cases))
    L = ["(* readPhaseSpace: record selection in hsize_t (unsigned 64 bit) arithmetic; dims = extents of /PhaseSpace/data *)",
         "Definition gen_use_step (dims : list Z) (step : Z) : Z := %s." % zc(out["use_step"])]
    for r in (3, 4):
        envl, vecl = cases[r]

        def vv(idv):
            v = vecl.get(idv)
            if not v or any(x is None for x in v):
                raise TranslateError("readPhaseSpace: a selection vector has no value in case %d" % r)
            return lst(v)
        L.append("Definition gen_r%d_start (dims : list Z) (u : Z) : list Z := %s." % (r, vv(sel["start"])))
        L.append("Definition gen_r%d_count (dims : list Z) (u : Z) : list Z := %s." % (r, vv(sel["count"])))
        L.append("Definition gen_r%d_mem (dims : list Z) (u : Z) : list Z := %s." % (r, vv(sel["mem"])))
        a = [ev_in(x, envl) for x in sel["setsize"]]
        if len(a) != 2:
            raise TranslateError("readPhaseSpace: setSize is not called with two arguments")
        L.append("Definition gen_r%d_setsize (dims : list Z) (u : Z) : Z * Z := (%s, %s)." % (r, zc(a[0]), zc(a[1])))
    op, then_reads = sel["accept"]
    cmpc = {"==": "(nxyb =? npoints)", "!=": "(negb (nxyb =? npoints))", "<": "(nxyb <? npoints)", "<=": "(nxyb <=? npoints)",
            ">": "(npoints <? nxyb)", ">=": "(npoints <=? nxyb)"}[op]
    L.append("(* the data are read iff *)")
    L.append("Definition gen_accept (nxyb npoints : Z) : bool := %s." % (cmpc if then_reads else "negb (%s)" % cmpc))
    # PhaseSpace::setSize
    ss = None
    for x in psdocs:
        if x.get("kind") == "CXXMethodDecl" and x.get("name") == "setSize":
            for c in x.get("inner", []):
                if c.get("kind") == "CompoundStmt":
                    ss = (x, c)
    if ss is None:
        raise TranslateError("definition of PhaseSpace::setSize not found")
    sp = [p for p in ss[0]["inner"] if p.get("kind") == "ParmVarDecl"]
    if len(sp) != 2:
        raise TranslateError("PhaseSpace::setSize no longer takes two parameters")
    penv = {sp[0]["id"]: ("ivar", "x"), sp[1]["id"]: ("ivar", "b")}
    found = {}
    for x in walk(ss[1]):
        if x.get("kind") == "BinaryOperator" and x.get("opcode") == "=":
            l = unwrap(kids(x)[0])
            if refname(l) in ("_totalmeshcells", "_nmeshcellsX", "_nmeshcellsY", "_nbunches"):
                saved = dict(env)
                env.clear()
                env.update(penv)
                try:
                    found[refname(l)] = ev(kids(x)[1])
                finally:
                    env.clear()
                    env.update(saved)
    for w in ("_totalmeshcells", "_nmeshcellsX", "_nmeshcellsY", "_nbunches"):
        if w not in found:
            raise TranslateError("PhaseSpace::setSize no longer assigns %s" % w)
    L.append("(* PhaseSpace::setSize(x, b): nx, ny, nb, nxyb *)")
    L.append("Definition gen_setsize (x b : Z) : Z * Z * Z * Z := (%s, %s, %s, %s)." %
             tuple(zc(found[w]) for w in ("_nmeshcellsX", "_nmeshcellsY", "_nbunches", "_totalmeshcells")))
    return L


# ------------------------------------------------------------------------------------------- readPhaseSpace: the object read into

def read_ps_object(docs):
    """(st2h5) how readPhaseSpace gets the object whose grid it fills: ONE construction of a PhaseSpace (make_unique /
    make_shared / new), whether the constructor's last parameter (`data`: start values) is passed - it is not: the object
    is the constructor's own Gaussian start distribution with its cached projections and charges - and how many member
    functions other than getData() are called on it before it is returned (none: the caches stay the constructor's)."""
    d = body = None
    for x in docs:
        if x.get("kind") == "CXXMethodDecl" and x.get("name") == "readPhaseSpace":
            for c in x.get("inner", []):
                if c.get("kind") == "CompoundStmt":
                    d, body = x, c
    if body is None:
        raise TranslateError("definition of readPhaseSpace not found")
    cons = []
    for s in kids(body):
        if s.get("kind") != "DeclStmt":
            continue
        for v in kids(s):
            if v.get("kind") != "VarDecl":
                continue
            for m in walk(v):
                q = qtype(m)
                if m.get("kind") == "CallExpr" and refname(unwrap(kids(m)[0])) in ("make_unique", "make_shared") and "PhaseSpace" in q:
                    cons.append((v, [a for a in kids(m)[1:] if a.get("kind") != "CXXDefaultArgExpr"]))
                elif m.get("kind") == "CXXNewExpr" and "PhaseSpace" in q:
                    ce = [c for c in kids(m) if c.get("kind") == "CXXConstructExpr"]
                    if len(ce) == 1:
                        cons.append((v, [a for a in kids(ce[0]) if a.get("kind") != "CXXDefaultArgExpr"]))
    if len(cons) != 1:
        raise TranslateError("readPhaseSpace: expected one construction of the PhaseSpace that is read into, found %d" % len(cons))
    var, args = cons[0]
    # the constructor that takes the axis extents has 12 parameters, the last one the start data
    nargs = len(args)
    if nargs not in (9, 10, 11, 12):
        raise TranslateError("readPhaseSpace: the PhaseSpace is constructed with %d arguments" % nargs)
    other = 0
    for m in walk(body):
        if m.get("kind") == "CXXMemberCallExpr" and kids(m)[0].get("kind") == "MemberExpr":
            me = kids(m)[0]
            refs = [x for x in walk(me) if x.get("kind") == "DeclRefExpr" and (x.get("referencedDecl") or {}).get("id") == var.get("id")]
            if refs and me.get("name") not in ("getData", "get", "operator->"):
                other += 1
    return ["(* readPhaseSpace: the object the record is read into is constructed with start data? other member calls on it? *)",
            "Definition gen_read_ctor_passes_data : bool := %s." % ("true" if nargs == 12 else "false"),
            "Definition gen_read_object_other_calls : Z := %d." % other]


# ------------------------------------------------------------------------------------------- main(): grid size refusal
def main_refusal():
    docs = ast_of("src/main.cpp", "main")
    body = None
    for d in docs:
        if d.get("kind") == "FunctionDecl" and d.get("name") == "main":
            for c in d.get("inner", []):
                if c.get("kind") == "CompoundStmt":
                    body = c
    if body is None:
        raise TranslateError("main() not found")
    hits = []
    for s in walk(body):
        if s.get("kind") != "IfStmt":
            continue
        ks = [c for c in s.get("inner", []) if c]
        c = unwrap(ks[0])
        if c.get("kind") != "BinaryOperator" or c.get("opcode") not in ("!=", "==", "<", ">", "<=", ">="):
            continue
        a, b = [unwrap(x) for x in kids(c)]
        na, nb_ = refname(a), refname(b)
        if {na, nb_} != {"nx", "ps_bins"}:
            continue
        op = c["opcode"]
        if na == "ps_bins":
            op = {"==": "==", "!=": "!=", "<": ">", ">": "<", "<=": ">=", ">=": "<="}[op]
        ret = [any(x.get("kind") == "ReturnStmt" for x in walk(br)) for br in ks[1:]]
        hits.append((op, ret))
    if len(hits) != 1:
        raise TranslateError("main(): expected one comparison of PhaseSpace::nx with ps_bins guarding a return, found %d" % len(hits))
    op, ret = hits[0]
    if ret not in ([True], [True, False], [False, True]):
        raise TranslateError("main(): the grid-size test does not return in exactly one branch")
    cmpc = {"==": "(nx =? gridsize)", "!=": "(negb (nx =? gridsize))", "<": "(nx <? gridsize)", "<=": "(nx <=? gridsize)",
            ">": "(gridsize <? nx)", ">=": "(gridsize <=? nx)"}[op]
    return ["(* main(): the program quits before the simulation when *)",
            "Definition gen_main_refuses_gridsize (nx gridsize : Z) : bool := %s." % (cmpc if ret[0] else "negb (%s)" % cmpc)]


def translate():
    docs = ast_of(SRC, "vfps::HDF5File::")
    psdocs = ast_of("src/PS/PhaseSpace.cpp", "vfps::PhaseSpace::")
    out = ["(* GENERATED on every run by translate/h5index2coq.py from src/IO/HDF5File.cpp, PhaseSpace::setSize and main().",
           "   Do not edit. *)",
           "From Coq Require Import List ZArith Bool.",
           "From Inovesa Require Import Base.FieldKit Model.Records Model.H5Slab.",
           "Import ListNotations.", "Local Open Scope Z_scope."]
    out += append_data(docs)
    ds, member_ds = ctor_datasets(docs)
    out += ds
    out += appends(docs, member_ds, ps_accessors(psdocs))
    out += read_ps(docs, psdocs)
    out += main_refusal()
    out += read_ps_object(docs)
    return "\n".join(out) + "\n"


if __name__ == "__main__":
    dst = sys.argv[1] if len(sys.argv) > 1 else os.path.join(VERIF, "coq", "Gen", "Gen_H5Index.v")
    try:
        text = translate()
    except TranslateError as e:
        print("TRANSLATE-ERROR Gen_H5Index: %s" % e)
        sys.exit(2)
    ch = write_if_changed(dst, text)
    print("Gen_H5Index.v %s" % ("regenerated" if ch else "unchanged"))
