#!/usr/bin/env python3
# GEN: Gen_KickIndex
"""Gen_KickIndex.v: the flat index arithmetic of KickMap::apply (both branches) and of
FokkerPlanckMap::apply, read from the clang JSON AST of /repo's working tree.

Idiom (fails loudly on anything else): nested `for` loops over the bunch `n`, `x`, `y` and the stencil
point `j`; local `const meshindex_t` offsets; `hi h = _hinfo[E_h]`; optionally
`const meshindex_t xs|ys = static_cast<meshindex_t>(static_cast<int32_t>(A) - static_cast<int32_t>(B))`
guarded by `if (xs|ys < static_cast<meshindex_t>(BOUND))`; `value += data_in[E_r] * weight`;
`data_out[E_w] = value`.  Emitted over Z (C unsigned arithmetic without wrap-around except the one explicit
uint32 conversion of the source cell, which the model applies as `wrap32`): the table index E_h, the source
cell A - B before the conversion, BOUND, the read index E_r (as a function of the converted source cell or of
h.index) and the write index E_w."""
import sys, os
sys.path.insert(0, os.path.dirname(os.path.abspath(__file__)))
from cxx_ast import *
from fractions import Fraction

LOOPVARS = {"n": "b", "x": "x", "y": "y", "j": "j"}
MEMBERS = {"_meshsize_kd": "kd", "_meshsize_pd": "pd", "_ip": "ip", "_lastbunch": "lastbunch",
           "_meshxsize": "xs", "_ysize": "n", "nb": "nb"}


def zir(e):
    t = e[0]
    if t == "num":
        if e[1].denominator != 1:
            raise TranslateError("non-integer literal in index arithmetic")
        return str(e[1].numerator) if e[1] >= 0 else "(%d)" % e[1].numerator
    if t == "var":
        return e[1]
    if t == "min":
        return "(Z.min %s %s)" % (zir(e[1]), zir(e[2]))
    if t == "neg":
        return "(- %s)" % zir(e[1])
    op = {"add": "+", "sub": "-", "mul": "*", "div": "/"}[t]
    return "(%s %s %s)" % (zir(e[1]), op, zir(e[2]))


def call_hook(n, env):
    """std::min(a, b)"""
    ks = kids(n)
    callee = strip(ks[0])
    nm = (callee.get("referencedDecl") or {}).get("name")
    if nm == "min" and len(ks) == 3:
        return ("min", expr(ks[1], env), expr(ks[2], env))
    return None


def expr(n, env):
    """to_ir with the call hook passed down into sub-expressions"""
    n = strip(n)
    k = n.get("kind")
    if k == "BinaryOperator":
        op = {"+": "add", "-": "sub", "*": "mul", "/": "div"}.get(n["opcode"])
        if not op:
            raise TranslateError("binary %s in index arithmetic" % n["opcode"])
        a, b = kids(n)
        return (op, expr(a, env), expr(b, env))
    if k in ("CXXMemberCallExpr", "CallExpr", "CXXOperatorCallExpr"):
        r = call_hook(n, env)
        if r is None:
            raise TranslateError("call not understood in index arithmetic")
        return r
    if k == "MemberExpr":
        nm = n.get("name")
        base = strip(kids(n)[0]) if kids(n) else {}
        if nm == "index" and base.get("kind") == "DeclRefExpr" and base["referencedDecl"]["name"] == "h":
            return ("var", "hindex")
        if nm in env:
            return env[nm]
        raise TranslateError("unknown member %s" % nm)
    if k == "DeclRefExpr":
        nm = n["referencedDecl"]["name"]
        if nm in env:
            return env[nm]
        raise TranslateError("unknown variable %s" % nm)
    return to_ir(n, env)


def find(n, pred, out):
    if pred(n):
        out.append(n)
    for c in kids(n):
        find(c, pred, out)
    return out


def subscript_of(n, basename):
    """ArraySubscriptExpr nodes below n whose base is the variable/member basename -> index expression nodes"""
    res = []
    for s in find(n, lambda m: m.get("kind") == "ArraySubscriptExpr", []):
        base, idx = [strip(x) for x in kids(s)]
        nm = base.get("name") or (base.get("referencedDecl") or {}).get("name")
        if nm == basename:
            res.append(idx)
    return res


class Branch:
    def __init__(self):
        self.hinfo = self.src = self.bound = self.read = self.write = None
        self.srcvar = None


def walk(stmt, env, br):
    k = stmt.get("kind")
    if k == "CompoundStmt":
        env = dict(env)
        for c in kids(stmt):
            env = walk(c, env, br) or env
        return None
    if k == "ForStmt":
        ks = stmt.get("inner", [])
        init = ks[0]
        vd = [c for c in kids(init) if c.get("kind") == "VarDecl"]
        if len(vd) != 1 or vd[0]["name"] not in LOOPVARS:
            raise TranslateError("unexpected loop variable")
        iv = strip(kids(vd[0])[0]) if kids(vd[0]) else None
        if iv is None or iv.get("kind") != "IntegerLiteral" or iv["value"] != "0":
            raise TranslateError("loop %s does not start at 0" % vd[0]["name"])
        env2 = dict(env)
        env2[vd[0]["name"]] = ("var", LOOPVARS[vd[0]["name"]])
        walk(ks[-1], env2, br)
        return None
    if k == "DeclStmt":
        env = dict(env)
        for vd in kids(stmt):
            if vd.get("kind") != "VarDecl":
                continue
            nm = vd["name"]
            init = kids(vd)[0] if kids(vd) else None
            if nm == "h":
                idx = subscript_of(vd, "_hinfo")
                if len(idx) == 1:
                    hexpr = expr(idx[0], env)
                else:
                    # `hi h = P[j]` with a hoisted row pointer `const hi* const P = _hinfo + E`
                    hexpr = None
                    for s in find(vd, lambda m: m.get("kind") == "ArraySubscriptExpr", []):
                        base, ix = [strip(x) for x in kids(s)]
                        bn = (base.get("referencedDecl") or {}).get("name")
                        if bn in env and isinstance(env[bn], tuple) and env[bn][0] == "ptr" and env[bn][1] == "_hinfo":
                            if hexpr is not None:
                                raise TranslateError("two table reads in one declaration")
                            hexpr = ("add", env[bn][2], expr(ix, env))
                    if hexpr is None:
                        raise TranslateError("`hi h` is not read from _hinfo[...]")
                if br.hinfo is not None:
                    raise TranslateError("two table reads in one branch")
                br.hinfo = hexpr
                continue
            if init is not None and "*" in ((vd.get("type") or {}).get("qualType") or "") and "hi" in ((vd.get("type") or {}).get("qualType") or ""):
                # hoisted pointer into the table: `_hinfo + E` (or `&_hinfo[E]`)
                e = strip(init)
                off = None
                if e.get("kind") == "BinaryOperator" and e.get("opcode") == "+":
                    a, b = [strip(x) for x in kids(e)]
                    if a.get("kind") == "MemberExpr" and a.get("name") == "_hinfo":
                        off = expr(b, env)
                    elif b.get("kind") == "MemberExpr" and b.get("name") == "_hinfo":
                        off = expr(a, env)
                elif e.get("kind") == "UnaryOperator" and e.get("opcode") == "&":
                    ix = subscript_of(e, "_hinfo")
                    if len(ix) == 1:
                        off = expr(ix[0], env)
                elif e.get("kind") == "MemberExpr" and e.get("name") == "_hinfo":
                    off = ("num", Fraction(0))
                if off is None:
                    raise TranslateError("pointer %s into the table is not `_hinfo + E`" % nm)
                env[nm] = ("ptr", "_hinfo", off)
                continue
            if nm == "value":
                continue
            if nm in ("xs", "ys"):
                # static_cast<meshindex_t>(static_cast<int32_t>(A) - static_cast<int32_t>(B))
                e = strip(init)
                if e.get("kind") != "BinaryOperator" or e.get("opcode") != "-":
                    raise TranslateError("source cell is not a difference of two int32 casts")
                br.src = expr(e, env)
                br.srcvar = nm
                env[nm] = ("var", "src")
                continue
            if init is None:
                raise TranslateError("uninitialised local %s" % nm)
            env[nm] = expr(init, env)
        return env
    if k == "IfStmt":
        ks = kids(stmt)
        c = strip(ks[0])
        if c.get("kind") != "BinaryOperator" or c.get("opcode") != "<":
            raise TranslateError("guard is not `src < bound`")
        a, b = kids(c)
        if expr(a, env) != ("var", "src"):
            raise TranslateError("guard does not test the source cell")
        br.bound = expr(b, env)
        if len(ks) != 2:
            raise TranslateError("guard with an else branch")
        walk(ks[1], env, br)
        return None
    if k == "CompoundAssignOperator":
        if stmt.get("opcode") != "+=":
            raise TranslateError("accumulation is not +=")
        idx = subscript_of(stmt, "data_in")
        if len(idx) != 1:
            raise TranslateError("accumulation does not read data_in[...] exactly once")
        if br.read is not None:
            raise TranslateError("two reads in one branch")
        br.read = expr(idx[0], env)
        return None
    if k == "BinaryOperator" and stmt.get("opcode") == "=":
        idx = subscript_of(kids(stmt)[0], "data_out")
        if len(idx) != 1:
            raise TranslateError("assignment is not data_out[...] = value")
        if br.write is not None:
            raise TranslateError("two writes in one branch")
        br.write = expr(idx[0], env)
        return None
    if k in ("NullStmt",):
        return None
    raise TranslateError("statement kind %s in apply()" % k)


def branch_of(stmt, env):
    br = Branch()
    walk(stmt, env, br)
    for f in ("hinfo", "read", "write"):
        if getattr(br, f) is None:
            raise TranslateError("branch without %s index" % f)
    return br


def emit(prefix, br, params):
    out = []
    ps = " ".join(params)
    out.append("Definition %s_hinfo (%s : Z) : Z := %s." % (prefix, ps, zir(br.hinfo)))
    if br.src is not None:
        out.append("Definition %s_src (%s hindex : Z) : Z := %s." % (prefix, ps, zir(br.src)))
        out.append("Definition %s_bound (%s : Z) : Z := %s." % (prefix, ps, zir(br.bound)))
        out.append("Definition %s_read (%s src : Z) : Z := %s." % (prefix, ps, zir(br.read)))
    else:
        out.append("Definition %s_read (%s hindex : Z) : Z := %s." % (prefix, ps, zir(br.read)))
    out.append("Definition %s_write (%s : Z) : Z := %s." % (prefix, ps, zir(br.write)))
    return out


def translate():
    env0 = {m: ("var", v) for m, v in MEMBERS.items()}
    # ---- KickMap::apply
    docs = ast_of("src/SM/KickMap.cpp", "apply")
    decl = body = None
    for d in docs:
        if d.get("kind") == "CXXMethodDecl" and d.get("name") == "apply":
            for c in d.get("inner", []):
                if c.get("kind") == "CompoundStmt":
                    decl, body = d, c
    if body is None:
        raise TranslateError("KickMap::apply not found")
    ifs = find(body, lambda m: m.get("kind") == "IfStmt" and any(
        (x.get("referencedDecl") or {}).get("name") == "_kickdirection" or x.get("name") == "_kickdirection"
        for x in find(kids(m)[0], lambda q: q.get("kind") in ("MemberExpr", "DeclRefExpr"), [])), [])
    if len(ifs) != 1:
        raise TranslateError("expected one `if (_kickdirection == Axis::x)`, found %d" % len(ifs))
    ks = kids(ifs[0])
    if len(ks) != 3:
        raise TranslateError("direction test without else branch")
    cond = find(ks[0], lambda q: q.get("kind") == "DeclRefExpr" and (q.get("referencedDecl") or {}).get("name") in ("x", "y"), [])
    if not cond or cond[0]["referencedDecl"]["name"] != "x":
        raise TranslateError("first branch is not Axis::x")
    bx = branch_of(ks[1], env0)
    by = branch_of(ks[2], env0)
    if bx.src is None or by.src is None:
        raise TranslateError("kick branch without guarded source cell")
    # ---- FokkerPlanckMap::apply
    docs = ast_of("src/SM/FokkerPlanckMap.cpp", "apply")
    fbody = None
    for d in docs:
        if d.get("kind") == "CXXMethodDecl" and d.get("name") == "apply":
            for c in d.get("inner", []):
                if c.get("kind") == "CompoundStmt":
                    fbody = c
    if fbody is None:
        raise TranslateError("FokkerPlanckMap::apply not found")
    fors = [c for c in find(fbody, lambda m: m.get("kind") == "ForStmt", [])]
    if not fors:
        raise TranslateError("no loop in FokkerPlanckMap::apply")
    bf = branch_of(fors[0], env0)
    if bf.src is not None:
        raise TranslateError("FokkerPlanckMap::apply has a guarded source cell")
    kp = ["kd", "pd", "ip", "lastbunch", "b", "x", "y", "j"]
    fp = ["n", "xs", "ip", "b", "x", "y", "j"]
    out = ["(* GENERATED on every run by translate/kickindex2coq.py from KickMap::apply (src/SM/KickMap.cpp) and",
           "   FokkerPlanckMap::apply (src/SM/FokkerPlanckMap.cpp). Do not edit.",
           "   kx_* : kick along x (drift), ky_* : kick along y (RF kick, wake kick), fp_* : Fokker-Planck step.",
           "   kd/pd: mesh size along / perpendicular to the kick; b: bunch; j: stencil point; hindex: h.index;",
           "   src: the source cell after its conversion to uint32. *)",
           "From Coq Require Import ZArith.", "Local Open Scope Z_scope."]
    out += emit("kx", bx, kp) + emit("ky", by, kp) + emit("fpg", bf, fp)
    return "\n".join(out) + "\n"


if __name__ == "__main__":
    dst = sys.argv[1] if len(sys.argv) > 1 else os.path.join(VERIF, "coq", "Gen", "Gen_KickIndex.v")
    try:
        text = translate()
    except TranslateError as e:
        print("TRANSLATE-ERROR Gen_KickIndex: %s" % e)
        sys.exit(2)
    ch = write_if_changed(dst, text)
    print("Gen_KickIndex.v %s" % ("regenerated" if ch else "unchanged"))
