#!/usr/bin/env python3
# GEN: Gen_KickLoop
"""Gen_KickLoop.v: the two loop nests of KickMap::apply (src/SM/KickMap.cpp, the CPU branch), read from the clang JSON AST
of /repo's working tree: which cells they write, in which ranges, from what - and which members of the map the function
reads at all.

Idiom (fails loudly on anything else):

    meshdata_t* data_in = _in->getData();  meshdata_t* data_out = _out->getData();
    if (_kickdirection == Axis::x) { NEST } else { NEST }
    NEST:
    for (n = LO; n < HI; n++) {   [const meshindex_t locals: index arithmetic]
      for (x = LO; x < HI; x++) {   [const meshindex_t locals: index arithmetic]
        for (y = LO; y < HI; y++) {
          meshdata_t value = 0;
          for (j = LO; j < HI; j++) {
            hi h = _hinfo[E_h];
            const meshindex_t xs|ys = static_cast<meshindex_t>(static_cast<int32_t>(A) - static_cast<int32_t>(B));
            if (xs|ys < static_cast<meshindex_t>(BOUND)) { value += data_in[E_r] * (meshdata_t) h.weight; }
          }
          data_out[E_w] = value;
    } } }

Nothing else may stand in the function body, in a branch or in a loop body: no other `if`, no `continue`, `break`,
`return`, no call (std::min in index arithmetic excepted), no second write, no local that is not index arithmetic over the
loop variables and the mesh sizes.  Every cell of every column of every bunch is therefore written unconditionally, from
`data_in` and the table `_hinfo` alone - not from a cached bunch profile, a filling pattern, an integral, a clamp flag or
anything else the grid or the map holds.  A data-dependent or cache-dependent shortcut (a skipped bunch, a skipped or
zero-filled column, a clamped value) is a TranslateError naming the statement.  The loop ranges are emitted as they stand
(a changed start or bound changes the generated text and the coverage theorem no longer proves); the increment must be `++`.

Emitted over Z (C unsigned arithmetic without wrap-around except the explicit uint32 conversion of the source cell, which
the model applies as `wrap32`), for P in kxl (kick along x: drift) and kyl (kick along y: RF kick, wake kick):
P_<v>_lo / P_<v>_hi for v in b (the bunch loop `n`), x, y, j; the table index P_hinfo, the source cell P_src before the
conversion, its bound P_bound, the read index P_read (as a function of the converted source cell), the write index
P_write.  kl_members: the names of all members of the map (and of PhaseSpace statics) the CPU branch mentions."""
import sys, os
sys.path.insert(0, os.path.dirname(os.path.abspath(__file__)))
from cxx_ast import *
import kickindex2coq as ki

LOOPS = ["n", "x", "y", "j"]
COQV = {"n": "b", "x": "x", "y": "y", "j": "j"}
SIZES = ["nb", "kd", "pd", "ip", "lastbunch"]
FN = "KickMap::apply"
FILE = "KickMap.cpp"


def line_of(n):
    r = (n.get("range") or {}).get("begin") or {}
    return r.get("line") or (r.get("expansionLoc") or {}).get("line") or (r.get("spellingLoc") or {}).get("line") or (n.get("loc") or {}).get("line") or "?"


def refuse(stmt, where):
    k = stmt.get("kind")
    what = {"IfStmt": "a conditional", "ContinueStmt": "`continue`", "BreakStmt": "`break`", "ReturnStmt": "`return`",
            "CallExpr": "a call", "CXXMemberCallExpr": "a call", "WhileStmt": "a while loop", "DoStmt": "a do loop",
            "SwitchStmt": "a switch", "GotoStmt": "a goto", "ConditionalOperator": "a conditional expression",
            "DeclStmt": "a local declaration", "ForStmt": "an extra loop"}.get(k, "a statement of kind %s" % k)
    raise TranslateError("%s in %s of %s (%s:%s): every cell of every column of every bunch must be written unconditionally "
                         "from data_in and the table alone" % (what, where, FN, FILE, line_of(stmt)))


def getdata_of(vd, member):
    calls = ki.find(vd, lambda m: m.get("kind") == "CXXMemberCallExpr", [])
    if len(calls) != 1:
        return False
    me = kids(calls[0])[0]
    if me.get("kind") != "MemberExpr" or me.get("name") != "getData":
        return False
    names = [m.get("name") for m in ki.find(me, lambda m: m.get("kind") == "MemberExpr" and m.get("name") != "getData", [])]
    return names == [member]


def loop_header(stmt, want, env):
    ks = stmt.get("inner", [])
    if len(ks) != 5:
        raise TranslateError("unexpected shape of a for statement")
    init, condvar, cond, inc, body = ks
    vd = [c for c in kids(init or {}) if c.get("kind") == "VarDecl"] if init else []
    if len(vd) != 1 or vd[0]["name"] != want:
        raise TranslateError("loop nest of %s: expected the loop over `%s` (%s:%s)" % (FN, want, FILE, line_of(stmt)))
    if not kids(vd[0]):
        raise TranslateError("loop variable %s is not initialised" % want)
    lo = ki.expr(kids(vd[0])[0], env)
    if condvar:
        raise TranslateError("condition variable in the loop over %s" % want)
    c = strip(cond) if cond else None
    if not c or c.get("kind") != "BinaryOperator" or c.get("opcode") != "<":
        raise TranslateError("loop over %s: the condition is not `%s < bound` (%s:%s)" % (want, want, FILE, line_of(stmt)))
    a, b = kids(c)
    a = strip(a)
    if a.get("kind") != "DeclRefExpr" or a["referencedDecl"]["name"] != want:
        raise TranslateError("loop over %s: the condition does not test the loop variable" % want)
    hi = ki.expr(b, env)
    i = strip(inc) if inc else None
    if not i or i.get("kind") != "UnaryOperator" or i.get("opcode") != "++":
        raise TranslateError("loop over %s: the increment is not ++" % want)
    iv = strip(kids(i)[0])
    if iv.get("kind") != "DeclRefExpr" or iv["referencedDecl"]["name"] != want:
        raise TranslateError("loop over %s: the increment does not step the loop variable" % want)
    return lo, hi, body


def subterms(e):
    res = [e]
    for x in e[1:]:
        if isinstance(x, tuple):
            res += subterms(x)
    return res


def stmts_of(body):
    return [s for s in (kids(body) if body.get("kind") == "CompoundStmt" else [body]) if s.get("kind") != "NullStmt"]


def const_local(st, env, where):
    env = dict(env)
    for vd in kids(st):
        if vd.get("kind") != "VarDecl":
            refuse(vd, where)
        if not kids(vd):
            raise TranslateError("uninitialised local %s in %s" % (vd.get("name"), where))
        try:
            env[vd["name"]] = ki.expr(kids(vd)[0], env)
        except TranslateError as e:
            raise TranslateError("local `%s` in %s of %s (%s:%s) is not index arithmetic over the loop variables and the mesh "
                                 "sizes (%s): the loop nest may only depend on data_in and the table"
                                 % (vd.get("name"), where, FN, FILE, line_of(vd), e))
    return env


def nest(loop, env0, srcname):
    """one loop nest -> dict(rng, hinfo, src, bound, read, write)"""
    env = dict(env0)
    rng = {}
    cur = loop
    for lv in ("n", "x"):
        lo, hi, body = loop_header(cur, lv, env)
        rng[lv] = (lo, hi)
        env = dict(env)
        env[lv] = ("var", COQV[lv])
        nxt = None
        for s in stmts_of(body):
            k = s.get("kind")
            if k == "DeclStmt" and nxt is None:
                env = const_local(s, env, "the loop over %s" % lv)
            elif k == "ForStmt" and nxt is None:
                nxt = s
            else:
                refuse(s, "the loop over %s" % lv)
        if nxt is None:
            raise TranslateError("the loop over %s does not contain the next loop" % lv)
        cur = nxt
    lo, hi, body = loop_header(cur, "y", env)
    rng["y"] = (lo, hi)
    env = dict(env)
    env["y"] = ("var", "y")
    ys = stmts_of(body)
    if len(ys) != 3:
        for s in ys:
            if s.get("kind") not in ("DeclStmt", "ForStmt", "BinaryOperator"):
                refuse(s, "the loop over y")
        for s in ys[1:-1]:
            if s.get("kind") != "ForStmt" or s is not ys[1]:
                refuse(s, "the loop over y")
        raise TranslateError("the loop over y is not `value = 0; for (j ..) ..; data_out[..] = value;` (%s:%s)" % (FILE, line_of(cur)))
    d0, jl, wr = ys
    vds = [v for v in kids(d0) if v.get("kind") == "VarDecl"] if d0.get("kind") == "DeclStmt" else []
    if len(vds) != 1 or vds[0]["name"] != "value" or not kids(vds[0]) or ki.expr(kids(vds[0])[0], env) != ("num", Fraction(0)):
        if d0.get("kind") != "DeclStmt":
            refuse(d0, "the loop over y")
        raise TranslateError("the accumulator of the loop over y is not `value = 0`")
    if jl.get("kind") != "ForStmt":
        refuse(jl, "the loop over y")
    if wr.get("kind") != "BinaryOperator" or wr.get("opcode") != "=":
        refuse(wr, "the loop over y")
    idx = ki.subscript_of(kids(wr)[0], "data_out")
    rhs = strip(kids(wr)[1])
    if len(idx) != 1 or rhs.get("kind") != "DeclRefExpr" or rhs["referencedDecl"]["name"] != "value":
        raise TranslateError("the write of the loop over y is not `data_out[...] = value` (%s:%s)" % (FILE, line_of(wr)))
    write = ki.expr(idx[0], env)
    # ---- loop over j: h = _hinfo[..]; src = (int32) A - (int32) B; if (src < BOUND) value += data_in[..] * h.weight
    lo, hi, body = loop_header(jl, "j", env)
    rng["j"] = (lo, hi)
    env = dict(env)
    env["j"] = ("var", "j")
    js = stmts_of(body)
    if len(js) != 3:
        for s in js:
            if s.get("kind") not in ("DeclStmt", "IfStmt"):
                refuse(s, "the loop over j")
        raise TranslateError("the loop over j is not `hi h = _hinfo[..]; const meshindex_t %s = ..; if (%s < bound) value += data_in[..] * h.weight;` (%s:%s)"
                             % (srcname, srcname, FILE, line_of(jl)))
    dh, ds, gd = js
    vds = [v for v in kids(dh) if v.get("kind") == "VarDecl"] if dh.get("kind") == "DeclStmt" else []
    if len(vds) != 1 or vds[0]["name"] != "h":
        if dh.get("kind") != "DeclStmt":
            refuse(dh, "the loop over j")
        raise TranslateError("the loop over j does not start with `hi h = _hinfo[..]`")
    hidx = ki.subscript_of(vds[0], "_hinfo")
    if len(hidx) != 1:
        raise TranslateError("`hi h` is not read from _hinfo[...]")
    hinfo = ki.expr(hidx[0], env)
    vds = [v for v in kids(ds) if v.get("kind") == "VarDecl"] if ds.get("kind") == "DeclStmt" else []
    if len(vds) != 1 or vds[0]["name"] != srcname or not kids(vds[0]):
        if ds.get("kind") != "DeclStmt":
            refuse(ds, "the loop over j")
        raise TranslateError("the second statement of the loop over j is not the source cell `%s`" % srcname)
    e = strip(kids(vds[0])[0])
    if e.get("kind") != "BinaryOperator" or e.get("opcode") != "-":
        raise TranslateError("source cell is not a difference of two int32 casts")
    src = ki.expr(e, env)
    env[srcname] = ("var", "src")
    if gd.get("kind") != "IfStmt":
        refuse(gd, "the loop over j")
    gk = kids(gd)
    if len(gk) != 2:
        raise TranslateError("the guard of the source cell has an else branch (%s:%s)" % (FILE, line_of(gd)))
    c = strip(gk[0])
    if c.get("kind") != "BinaryOperator" or c.get("opcode") != "<":
        raise TranslateError("the guard in the loop over j is not `%s < bound` (%s:%s)" % (srcname, FILE, line_of(gd)))
    a, b = kids(c)
    if ki.expr(a, env) != ("var", "src"):
        raise TranslateError("the guard in the loop over j does not test the source cell (%s:%s)" % (FILE, line_of(gd)))
    bound = ki.expr(b, env)
    gs = stmts_of(gk[1])
    if len(gs) != 1:
        for s in gs:
            if s.get("kind") != "CompoundAssignOperator":
                refuse(s, "the guarded accumulation")
        raise TranslateError("the guarded statement is not the single accumulation `value += data_in[..] * h.weight`")
    acc = gs[0]
    if acc.get("kind") != "CompoundAssignOperator" or acc.get("opcode") != "+=":
        refuse(acc, "the guarded accumulation")
    lhs = strip(kids(acc)[0])
    if lhs.get("kind") != "DeclRefExpr" or lhs["referencedDecl"]["name"] != "value":
        raise TranslateError("the accumulation of the loop over j does not add to `value`")
    prod = strip(kids(acc)[1])
    if prod.get("kind") != "BinaryOperator" or prod.get("opcode") != "*":
        raise TranslateError("the accumulated term is not a product data_in[..] * h.weight")
    fa, fb = [strip(x) for x in kids(prod)]

    def is_weight(m):
        if m.get("kind") != "MemberExpr" or m.get("name") != "weight":
            return False
        bb = strip(kids(m)[0])
        return bb.get("kind") == "DeclRefExpr" and bb["referencedDecl"]["name"] == "h"

    def is_data(m):
        return m.get("kind") == "ArraySubscriptExpr" and len(ki.subscript_of(m, "data_in")) == 1
    if is_weight(fa) and is_data(fb):
        fa, fb = fb, fa
    if not (is_data(fa) and is_weight(fb)):
        raise TranslateError("the accumulated term is not data_in[..] * h.weight")
    read = ki.expr(ki.subscript_of(fa, "data_in")[0], env)
    scope = {"n": [], "x": ["b"], "y": ["b", "x"], "j": ["b", "x", "y"]}
    for lv in LOOPS:
        for e_ in rng[lv]:
            bad = [t[1] for t in subterms(e_) if t[0] == "var" and t[1] in ("b", "x", "y", "j", "hindex", "src") and t[1] not in scope[lv]]
            if bad:
                raise TranslateError("range of the loop over %s mentions %s" % (lv, bad))
    if any(t in (("var", "j"), ("var", "hindex"), ("var", "src")) for t in subterms(write)):
        raise TranslateError("the write index depends on the stencil point")
    if any(t == ("var", "src") for e_ in (hinfo, bound, src) for t in subterms(e_)):
        raise TranslateError("table index / bound / source cell mention the converted source cell")
    return dict(rng=rng, hinfo=hinfo, src=src, bound=bound, read=read, write=write, scope=scope)


def emit(prefix, r):
    out = []
    sz = " ".join(SIZES)
    for lv in LOOPS:
        ps = " ".join([sz] + r["scope"][lv])
        out.append("Definition %s_%s_lo (%s : Z) : Z := %s." % (prefix, COQV[lv], ps, ki.zir(r["rng"][lv][0])))
        out.append("Definition %s_%s_hi (%s : Z) : Z := %s." % (prefix, COQV[lv], ps, ki.zir(r["rng"][lv][1])))
    out.append("Definition %s_hinfo (%s b x y j : Z) : Z := %s." % (prefix, sz, ki.zir(r["hinfo"])))
    out.append("Definition %s_src (%s b x y j hindex : Z) : Z := %s." % (prefix, sz, ki.zir(r["src"])))
    out.append("Definition %s_bound (%s b x y j : Z) : Z := %s." % (prefix, sz, ki.zir(r["bound"])))
    out.append("Definition %s_read (%s b x y j src : Z) : Z := %s." % (prefix, sz, ki.zir(r["read"])))
    out.append("Definition %s_write (%s b x y : Z) : Z := %s." % (prefix, sz, ki.zir(r["write"])))
    return out


def translate():
    docs = ast_of("src/SM/KickMap.cpp", "apply")
    fbody = None
    for d in docs:
        if d.get("kind") == "CXXMethodDecl" and d.get("name") == "apply":
            for c in d.get("inner", []):
                if c.get("kind") == "CompoundStmt":
                    fbody = c
    if fbody is None:
        raise TranslateError("KickMap::apply not found")
    blk = fbody
    while len(stmts_of(blk)) == 1 and stmts_of(blk)[0].get("kind") == "CompoundStmt":
        blk = stmts_of(blk)[0]
    got = {}
    branch = None
    for s in stmts_of(blk):
        if s.get("kind") == "DeclStmt" and branch is None:
            for vd in kids(s):
                nm = vd.get("name")
                if nm == "data_in" and getdata_of(vd, "_in"):
                    got["data_in"] = True
                elif nm == "data_out" and getdata_of(vd, "_out"):
                    got["data_out"] = True
                else:
                    raise TranslateError("%s: local `%s` (%s:%s) is not `data_in = _in->getData()` / `data_out = _out->getData()`: "
                                         "the kick may read nothing of its grids but the data" % (FN, nm, FILE, line_of(vd)))
        elif s.get("kind") == "IfStmt" and branch is None:
            branch = s
        else:
            refuse(s, "the body")
    if not got.get("data_in") or not got.get("data_out") or branch is None:
        raise TranslateError("%s is not `data_in = _in->getData(); data_out = _out->getData(); if (_kickdirection == Axis::x) {..} else {..}`" % FN)
    ks = kids(branch)
    if len(ks) != 3:
        raise TranslateError("direction test without else branch")
    c = strip(ks[0])
    if c.get("kind") != "BinaryOperator" or c.get("opcode") != "==":
        raise TranslateError("the branch of %s is not `_kickdirection == Axis::x`" % FN)
    names = [(q.get("referencedDecl") or {}).get("name") or q.get("name") for q in ki.find(c, lambda q: q.get("kind") in ("MemberExpr", "DeclRefExpr"), [])]
    if sorted(names) != ["_kickdirection", "x"]:
        raise TranslateError("the branch of %s is not `_kickdirection == Axis::x` (mentions %s)" % (FN, sorted(names)))
    env0 = {m: ("var", v) for m, v in ki.MEMBERS.items()}
    res = {}
    for pre, st, srcname in (("kxl", ks[1], "xs"), ("kyl", ks[2], "ys")):
        ss = stmts_of(st)
        if len(ss) != 1 or ss[0].get("kind") != "ForStmt":
            for s in ss:
                if s.get("kind") != "ForStmt":
                    refuse(s, "the %s branch" % ("x" if pre == "kxl" else "y"))
            raise TranslateError("the %s branch of %s is not one loop nest" % ("x" if pre == "kxl" else "y", FN))
        res[pre] = nest(ss[0], env0, srcname)
    # every member of the map / static of PhaseSpace the CPU branch mentions
    mem = set()
    for m in ki.find(blk, lambda q: q.get("kind") == "MemberExpr", []):
        base = kids(m)[0] if kids(m) else {}
        if strip(base).get("kind") == "CXXThisExpr":
            mem.add(m.get("name"))
    for m in ki.find(blk, lambda q: q.get("kind") == "DeclRefExpr", []):
        rd = m.get("referencedDecl") or {}
        if rd.get("kind") in ("VarDecl",) and rd.get("name") == "nb":
            mem.add("PhaseSpace::nb")
    out = ["(* GENERATED on every run by translate/kickloop2coq.py from KickMap::apply (src/SM/KickMap.cpp, CPU branch). Do not edit.",
           "   The function body is `data_in = _in->getData(); data_out = _out->getData(); if (_kickdirection == Axis::x) NEST else NEST`,",
           "   NEST (kxl_*: kick along x, kyl_*: kick along y):",
           "   for b in [P_b_lo, P_b_hi)  for x in [P_x_lo, P_x_hi)  for y in [P_y_lo, P_y_hi) {",
           "     value = 0;  for j in [P_j_lo, P_j_hi) { h = _hinfo[P_hinfo]; s = (uint32) P_src h.index;",
           "                                             if (s < P_bound) value += data_in[P_read s] * h.weight }",
           "     data_out[P_write] = value }",
           "   with increments ++ and NO other statement (no other conditional, no continue, break, return or call: the translator",
           "   refuses them).  nb: PhaseSpace::nb, kd/pd: _meshsize_kd/_meshsize_pd, ip: _ip, lastbunch: _lastbunch; b: the bunch loop",
           "   variable `n`.  kl_members: every member of the map the CPU branch mentions. *)",
           "From Coq Require Import ZArith String List.", "Import ListNotations.", "Local Open Scope Z_scope."]
    out += emit("kxl", res["kxl"]) + emit("kyl", res["kyl"])
    out.append("Definition kl_members : list string := [%s]%%string." % "; ".join('"%s"' % m for m in sorted(mem)))
    return "\n".join(out) + "\n"


if __name__ == "__main__":
    dst = sys.argv[1] if len(sys.argv) > 1 else os.path.join(VERIF, "coq", "Gen", "Gen_KickLoop.v")
    try:
        text = translate()
    except TranslateError as e:
        print("TRANSLATE-ERROR Gen_KickLoop: %s" % e)
        sys.exit(2)
    ch = write_if_changed(dst, text)
    print("Gen_KickLoop.v %s" % ("regenerated" if ch else "unchanged"))
