#!/usr/bin/env python3
# GEN: Gen_Rotation
"""Gen_Rotation.v: RotationMap::genHInfo, the CPU branch of RotationMap::apply and the RotationMap / SourceMap
constructors (src/SM/RotationMap.cpp, src/SM/SourceMap.cpp), by symbolic execution of the clang JSON AST of the
repository's working tree.  Vocabulary: coq/Model/RotX.v.  What is emitted is what the code does, not a tidied form:

 * integer arithmetic with the C++ types clang gives every node: `unsigned int` results under `wrap32`, `unsigned long`
   under `rx_wrap64`, `unsigned char` under `rx_wrap8`, `int` unreduced with `Z.quot`; every conversion kept;
 * float arithmetic as expressions over a generic field with a rounding symbol at every operation: `rd` where the result
   reaches a float -> integer split (std::modf, static_cast<meshindex_t>), `rw` where it ends in a table weight, `ro` in
   the accumulation of apply (the hand-written model instantiates rd := rnd32, rw := ro := identity; the theorems
   of the exact stream take all three as the identity); std::modf(a, &b) is `fpart a` / `ipart a`;
 * local arrays written in a loop nest are WRITE LOGS in program order (`(slot, loop variables)`, last write wins on a
   read: `rx_lookup`), so a transposed slot or a changed loop order is visible to Coq and not resolved here; the 2-D
   view `ph[i] = &ph1D[i*_it]` is recorded (`gen_rot_ph_row`); a cell `ph[a][b]` written and read back in the same
   iteration with syntactically equal subscripts is forwarded;
 * a loop that carries scalars (the accumulation, the clamp window) is a `fold_left` over its range with the carried
   variables as the state, in the order they are first assigned.

Idioms (anything else raises TranslateError; the translation is then reported as failed):
 genHInfo : declarations of std::unique_ptr<T[]> locals; the loop `ph[i] = &ph1D[E]`; float declarations;
   `T f = std::modf(x, &x)`; `meshindex_t v = static_cast<meshindex_t>(x)`; one `if (guard) {..} else {..}` whose
   branches consist of calcCoefficiants(A.get(), f, n) calls, one loop nest (depth <= 2) assigning one float array, and one
   loop nest (depth <= 2) with integer declarations, an if/else assigning the fields of one cell and one assignment
   `myhinfo[S] = cell`, or `myhinfo[S] = {i, w}`.
 apply : `data_in = _in->getData()`, `data_out = _out->getData()`, `if (_rotmapsize == 0) { loop nest over cells } else
   { loop over cells }`; cell bodies made of integer declarations, `data_out[I] = e`, `data_out[I] += e`, genHInfo(a, b, &_hinfo[B]),
   `hi h = _hinfo[E]`, counted loops, `if (_clamp) {...}`, float declarations and assignments, std::max/std::min,
   std::numeric_limits<meshdata_t>::min()/max()/lowest().
 constructors : member initialisers that are parameters or arithmetic of parameters, `new hi[E]`, std::cos/std::sin;
   the body: `if (_rotmapsize == 0) {} else { loop nest calling genHInfo(a, b, &_hinfo[B]) }` and
   `if (C) throw ...`.
Every float operation must have type `float`."""
import sys, os, re, struct
sys.path.insert(0, os.path.dirname(os.path.abspath(__file__)))
from cxx_ast import *
import coeffs2coq

SRC = "src/SM/RotationMap.cpp"
SRC_SM = "src/SM/SourceMap.cpp"

NOOP_WRAPPERS = ("ParenExpr", "ExprWithCleanups", "MaterializeTemporaryExpr", "CXXBindTemporaryExpr", "ConstantExpr")
CAST_KINDS = ("ImplicitCastExpr", "CXXFunctionalCastExpr", "CStyleCastExpr", "CXXStaticCastExpr")
RESERVED = {"K", "rd", "rw", "ro", "ipart", "fpart", "xsize", "ysize", "it", "ip", "cos_dt", "sin_dt", "at0", "at1",
            "delta0", "delta1", "zerobin0", "zerobin1", "x0", "y0", "old", "k", "G", "hinfo", "D", "clamp", "rotmapsize",
            "angle", "cosf", "sinf", "fst", "snd", "map", "if", "then", "else", "let", "in", "fun", "match", "with", "end",
            "Some", "None", "s", "st"}


def find(n, pred, out):
    if pred(n):
        out.append(n)
    for c in kids(n):
        find(c, pred, out)
    return out


def dq(n):
    t = n.get("type") or {}
    s = t.get("desugaredQualType") or t.get("qualType") or ""
    return s.replace("const ", "").replace("volatile ", "").strip()


def ity(n):
    """C++ integer type class of an expression / declaration node"""
    s = dq(n)
    if s in ("int",):
        return "int"
    if s in ("unsigned int",):
        return "u32"
    if s in ("unsigned long", "unsigned long long"):
        return "u64"
    if s in ("unsigned char",):
        return "u8"
    if s in ("bool",):
        return "bool"
    if s.endswith("InterpolationType"):
        return "u8"        # enum InterpolationType : uint_fast8_t
    return None


def is_float(n):
    return dq(n) == "float"


WRAP = {"u32": "wrap32", "u64": "rx_wrap64", "u8": "rx_wrap8"}
RANGE = {"u32": 2 ** 32, "u64": 2 ** 64, "u8": 2 ** 8}


def refname(n):
    return (n.get("referencedDecl") or {}).get("name")


def src_text(n, src_rel=SRC):
    r = n.get("range", {})
    b, e = r.get("begin", {}), r.get("end", {})
    if "offset" not in b or "offset" not in e:
        return ""
    with open(os.path.join(REPO, src_rel), "rb") as f:
        data = f.read()
    return data[b["offset"]:e["offset"] + e.get("tokLen", 0)].decode("utf-8", "replace")


class Z:
    """integer value: Coq term (string) over Z, `lit` when it is a literal"""
    def __init__(self, s, lit=None):
        self.s, self.lit = s, lit


class B:
    def __init__(self, s):
        self.s = s


class F:
    """float value: expression tree; nodes ('var', s) ('num', Fraction) ('fz', zterm) ('op', c, a, b) ('neg', a)
    ('call', f, [args]) ('ipart', tree): a float that holds the integer part std::modf stored"""
    def __init__(self, t):
        self.t = t


class H:
    """struct hi value: (index term, weight tree) or a rendered conditional"""
    def __init__(self, idx=None, w=None, cond=None, a=None, b=None, whole=None):
        self.idx, self.w, self.cond, self.a, self.b, self.whole = idx, w, cond, a, b, whole


SCOPE = ["F"]      # notation scope of the float expressions being printed: F (generic field) or Qc (apply)


def fcoq(t, rnd):
    """print a float tree; `rnd` is the rounding symbol of its arithmetic operations (None: exact)"""
    k = t[0]
    sc = SCOPE[0]
    if k == "var":
        return t[1]
    if k == "num":
        return "(%s)%%%s" % (num_coq(t[1]), sc) if t[1] != 0 else "0%%%s" % sc
    if k == "fz":
        return "(fz %s)" % t[1]
    if k == "ipart":
        return "(fz (ipart %s))" % fcoq(t[1], rnd)
    if k == "neg":
        return "(- %s)%%%s" % (fcoq(t[1], rnd), sc)
    if k == "op":
        s = "(%s %s %s)%%%s" % (fcoq(t[2], rnd), t[1], fcoq(t[3], rnd), sc)
        return "(%s %s)" % (rnd, s) if rnd else s
    if k == "call":
        return "(%s %s)" % (t[1], " ".join(fcoq(a, rnd) for a in t[2]))
    raise TranslateError("float tree node %s" % k)


def hcoq(h, rnd):
    if h.whole is not None:
        return h.whole
    if h.cond is not None:
        return "(if %s then %s else %s)" % (h.cond, hcoq(h.a, rnd), hcoq(h.b, rnd))
    return "(%s, %s)" % (h.idx, fcoq(h.w, rnd))


def f32_exact(text):
    v = float(text)
    w = struct.unpack("f", struct.pack("f", v))[0]
    return Fraction(w)


class St:
    """symbolic state of one function body"""
    def __init__(self, members, fmembers=None):
        self.env = {}           # C++ local -> Z | B | F | H | ('arr', desc) | ('ptr', ...)
        self.members = members  # member / parameter name -> Coq parameter (integers, booleans)
        self.fmembers = fmembers or {}
        self.arrays = {}        # local array name -> dict
        self.cells = {}         # (array, subscripts...) -> H   straight-line struct cells
        self.lets = []          # "let x := e in" lines of the definition being built
        self.used = set(RESERVED)
        self.hinfo = "hinfo"    # current name of the _hinfo table (apply)
        self.roles = {}         # data_in / data_out locals -> role

    def fresh(self, base):
        base = re.sub(r"\W", "_", base)
        nm = base
        i = 0
        while nm in self.used:
            i += 1
            nm = "%s%d" % (base, i)
        self.used.add(nm)
        return nm

    def clone(self):
        c = St(self.members, self.fmembers)
        c.env = dict(self.env)
        c.arrays = self.arrays
        c.cells = dict(self.cells)
        c.lets = []
        c.used = self.used
        c.hinfo = self.hinfo
        c.roles = self.roles
        return c


def unwrap(n):
    while n.get("kind") in NOOP_WRAPPERS:
        ks = kids(n)
        if len(ks) != 1:
            raise TranslateError("wrapper %s with %d children" % (n.get("kind"), len(ks)))
        n = ks[0]
    return n


def is_this_member(n):
    """MemberExpr on `this` (possibly through a derived-to-base cast) -> member name"""
    if n.get("kind") != "MemberExpr":
        return None
    b = kids(n)
    if not b:
        return None
    b = b[0]
    while b.get("kind") == "ImplicitCastExpr":
        b = kids(b)[0]
    if b.get("kind") == "CXXThisExpr":
        return n.get("name")
    return None


def axis_call(n):
    """_axis[K]->NAME(args) -> (K, NAME, [arg nodes]) or None"""
    if n.get("kind") != "CXXMemberCallExpr":
        return None
    ks = kids(n)
    me = ks[0]
    if me.get("kind") != "MemberExpr":
        return None
    sub = find(me, lambda m: m.get("kind") == "CXXOperatorCallExpr" and any(is_this_member(x) == "_axis" for x in kids(m)), [])
    if len(sub) != 1:
        return None
    sk = kids(sub[0])
    if len(sk) != 3 or refname(unwrap_casts(sk[0])) != "operator[]" or is_this_member(sk[1]) != "_axis":
        raise TranslateError("_axis accessed other than by _axis[K]")
    lit = unwrap_casts(sk[2])
    if lit.get("kind") != "IntegerLiteral":
        raise TranslateError("_axis[...] with a subscript that is not a literal")
    return int(lit["value"]), me.get("name"), ks[1:]


def unwrap_casts(n):
    while n.get("kind") in NOOP_WRAPPERS + CAST_KINDS:
        ks = kids(n)
        if len(ks) != 1:
            break
        n = ks[0]
    return n


def local_array_access(n, st):
    """operator[] on a std::unique_ptr local, or a plain subscript of a pointer local/parameter -> (name, index node)"""
    n = unwrap(n)
    if n.get("kind") == "CXXOperatorCallExpr":
        ks = kids(n)
        if refname(unwrap_casts(ks[0])) == "operator[]" and len(ks) == 3:
            base = unwrap_casts(ks[1])
            if base.get("kind") == "DeclRefExpr":
                return refname(base), ks[2]
    if n.get("kind") == "ArraySubscriptExpr":
        base, idx = kids(n)
        b = unwrap_casts(base)
        if b.get("kind") == "DeclRefExpr":
            return refname(b), idx
        m = is_this_member(b)
        if m:
            return m, idx
        # ph[a][b]: the base is itself an access that yields a pointer
        inner = local_array_access(b, st)
        if inner:
            return ("2d", inner[0], inner[1]), idx
    return None


# ------------------------------------------------------------------------------------------ integers

def zcast(v, frm, to, what):
    if to is None or frm is None:
        raise TranslateError("integral cast between types that are not understood (%s)" % what)
    if frm == to or to == "bool":
        return v
    if v.lit is not None:
        if to == "int" or 0 <= v.lit < RANGE[to]:
            return Z(v.s, v.lit)
    if to == "int":
        if frm in ("u8", "bool"):
            return v
        raise TranslateError("narrowing conversion %s -> int" % frm)
    order = ["bool", "u8", "u32", "u64"]
    if frm in order and order.index(frm) <= order.index(to):
        return v
    return Z("(%s %s)" % (WRAP[to], v.s))


def zeval(n, st):
    n = unwrap(n)
    k = n.get("kind")
    if k in CAST_KINDS:
        ck = n.get("castKind")
        c = kids(n)[0]
        if ck in ("LValueToRValue", "NoOp"):
            return zeval(c, st)
        if ck == "IntegralCast":
            return zcast(zeval(c, st), ity(c), ity(n), src_text(n))
        if ck == "FloatingToIntegral":
            to = ity(n)
            if to != "u32":
                raise TranslateError("float -> %s conversion (only float -> meshindex_t is understood)" % dq(n))
            f = feval(c, st)
            t = f.t
            if t[0] == "ipart":
                return Z("(rx_f2u (ipart %s))" % fcoq(t[1], "rd"))
            return Z("(rx_f2u (ipart %s))" % fcoq(t, "rd"))
        raise TranslateError("cast %s in integer arithmetic" % ck)
    if k == "IntegerLiteral":
        return Z(n["value"], int(n["value"]))
    if k == "DeclRefExpr":
        rd = n.get("referencedDecl") or {}
        nm = rd.get("name")
        if rd.get("kind") == "EnumConstantDecl":
            ev = coeffs2coq.enum_values()
            if nm not in ev:
                raise TranslateError("enumerator %s" % nm)
            return Z(str(ev[nm]), ev[nm])
        v = st.env.get(nm)
        if isinstance(v, Z):
            return v
        if nm in st.members and v is None:
            return Z(st.members[nm])
        raise TranslateError("integer variable %s is not understood" % nm)
    if k == "MemberExpr":
        m = is_this_member(n)
        if m is not None:
            if m in st.members:
                return Z(st.members[m])
            raise TranslateError("member %s in integer arithmetic" % m)
        if n.get("name") == "index":
            h = heval(kids(n)[0], st)
            if h.cond is not None:
                return Z("(fst %s)" % hcoq(h, "rw"))
            return Z(h.idx)
        raise TranslateError("member access .%s in integer arithmetic" % n.get("name"))
    if k == "UnaryOperator" and n.get("opcode") == "-" and ity(n) == "int":
        a = zeval(kids(n)[0], st)
        return Z("(- %s)" % a.s, -a.lit if a.lit is not None else None)
    if k == "BinaryOperator" and n.get("opcode") in ("+", "-", "*", "/", "%"):
        t = ity(n)
        if t not in ("int", "u32", "u64"):
            raise TranslateError("integer arithmetic of type %s" % dq(n))
        a, b = [zeval(c, st) for c in kids(n)]
        op = n["opcode"]
        if op == "/":
            s = "(Z.quot %s %s)" % (a.s, b.s)
        elif op == "%":
            s = "(Z.rem %s %s)" % (a.s, b.s)
        else:
            s = "(%s %s %s)" % (a.s, op, b.s)
        if t != "int":
            s = "(%s %s)" % (WRAP[t], s)
        return Z(s)
    raise TranslateError("integer expression of kind %s: %s" % (k, src_text(n)[:60]))


def beval(n, st):
    n = unwrap(n)
    k = n.get("kind")
    if k in CAST_KINDS:
        if n.get("castKind") in ("LValueToRValue", "NoOp"):
            return beval(kids(n)[0], st)
        raise TranslateError("cast %s in a condition" % n.get("castKind"))
    if k == "BinaryOperator":
        op = n.get("opcode")
        if op in ("&&", "||"):
            a, b = [beval(c, st) for c in kids(n)]
            return B("(%s %s %s)" % (a.s, op, b.s))
        if op in ("<", "<=", ">", ">=", "==", "!="):
            ca, cb = kids(n)
            if ity(ca) is None or ity(cb) is None or ity(ca) != ity(cb):
                raise TranslateError("comparison of operands that are not integers of one type: %s" % src_text(n))
            a, b = zeval(ca, st), zeval(cb, st)
            return B({"<": "(%s <? %s)" % (a.s, b.s), "<=": "(%s <=? %s)" % (a.s, b.s), ">": "(%s <? %s)" % (b.s, a.s),
                      ">=": "(%s <=? %s)" % (b.s, a.s), "==": "(%s =? %s)" % (a.s, b.s),
                      "!=": "(negb (%s =? %s))" % (a.s, b.s)}[op])
    if k == "UnaryOperator" and n.get("opcode") == "!":
        return B("(negb %s)" % beval(kids(n)[0], st).s)
    if k == "DeclRefExpr":
        nm = refname(n)
        v = st.env.get(nm)
        if isinstance(v, B):
            return v
        if nm in st.members and ity(n) == "bool":
            return B(st.members[nm])
    m = is_this_member(n) if k == "MemberExpr" else None
    if m in st.members and ity(n) == "bool":
        return B(st.members[m])
    raise TranslateError("condition not understood: %s" % src_text(n)[:80])


# ------------------------------------------------------------------------------------------ floats / structs

def feval(n, st):
    n = unwrap(n)
    k = n.get("kind")
    if k in CAST_KINDS:
        ck = n.get("castKind")
        c = kids(n)[0]
        if ck in ("LValueToRValue", "NoOp"):
            return feval(c, st)
        if ck == "FloatingCast":
            if dq(n) == dq(c) == "float":
                return feval(c, st)
            raise TranslateError("conversion %s -> %s: the model's arithmetic is binary32 throughout" % (dq(c), dq(n)))
        if ck == "IntegralToFloating":
            if not is_float(n):
                raise TranslateError("integer -> %s conversion" % dq(n))
            z = zeval(c, st)
            if z.lit is not None:
                return F(("num", Fraction(z.lit)))
            return F(("fz", z.s))
        raise TranslateError("cast %s in float arithmetic" % ck)
    if k == "FloatingLiteral":
        if not is_float(n):
            raise TranslateError("literal of type %s" % dq(n))
        return F(("num", f32_exact(n["value"])))
    if k == "DeclRefExpr":
        v = st.env.get(refname(n))
        if isinstance(v, F):
            return v
        raise TranslateError("float variable %s is not understood" % refname(n))
    if k == "MemberExpr":
        m = is_this_member(n)
        if m is not None:
            if m in st.fmembers:
                return F(("var", st.fmembers[m]))
            raise TranslateError("member %s in float arithmetic" % m)
        if n.get("name") == "weight":
            h = heval(kids(n)[0], st)
            if h.cond is not None:
                return F(("var", "(snd %s)" % hcoq(h, "rw")))
            return F(h.w)
        raise TranslateError("member access .%s in float arithmetic" % n.get("name"))
    if k == "UnaryOperator" and n.get("opcode") == "-":
        return F(("neg", feval(kids(n)[0], st).t))
    if k == "BinaryOperator" and n.get("opcode") in ("+", "-", "*", "/"):
        if not is_float(n):
            raise TranslateError("operation of type %s: the model's arithmetic is binary32 throughout (%s)" % (dq(n), src_text(n)[:60]))
        a, b = [feval(c, st) for c in kids(n)]
        return F(("op", n["opcode"], a.t, b.t))
    ac = axis_call(n)
    if ac is not None:
        ax, meth, args = ac
        if ax not in (0, 1):
            raise TranslateError("_axis[%d]" % ax)
        if meth == "at" and len(args) == 1:
            return F(("var", "(at%d %s)" % (ax, zeval(args[0], st).s)))
        if meth in ("delta", "zerobin") and not args:
            return F(("var", "%s%d" % (meth, ax)))
        raise TranslateError("_axis[%d]->%s(...)" % (ax, meth))
    if k == "CallExpr":
        ks = kids(n)
        callee = refname(unwrap_casts(ks[0]))
        args = ks[1:]
        txt = src_text(n)
        if callee in ("max", "min") and len(args) == 2 and re.match(r"\s*std::(max|min)\s*\(", txt):
            a, b = [feval(c, st) for c in args]
            return F(("call", "rx_" + callee, [a.t, b.t]))
        if callee in ("min", "max", "lowest") and not args:
            if not re.match(r"\s*std::numeric_limits<\s*(vfps::)?(meshdata_t|float)\s*>::%s\(\)\s*$" % callee, txt):
                raise TranslateError("call not understood: %s" % txt[:80])
            return F(("var", "rx_flt_" + callee))
        if callee in ("cos", "sin") and len(args) == 1 and re.match(r"\s*std::(cos|sin)\s*\(", txt) and is_float(n):
            return F(("call", callee + "f", [feval(args[0], st).t]))
        raise TranslateError("call not understood: %s" % txt[:80])
    acc = local_array_access(n, st)
    if acc is not None:
        return array_read(acc, st, n)
    raise TranslateError("float expression of kind %s: %s" % (k, src_text(n)[:60]))


def array_read(acc, st, n):
    nm, idx = acc
    if isinstance(nm, tuple):
        raise TranslateError("a cell of the 2-D view read as a float")
    role = st.roles.get(nm)
    if role == "in":
        return F(("var", "(D %s)" % zeval(idx, st).s))
    if role == "out":
        key = ("out", zeval(idx, st).s)
        if key not in st.cells:
            raise TranslateError("data_out[%s] read before it is written" % key[1])
        return F(("var", st.cells[key]))
    a = st.arrays.get(nm)
    if a is None:
        raise TranslateError("array %s is not understood" % nm)
    if a["kind"] == "coeffs":
        return F(("var", "(rx_nth %s %s)" % (a["name"], zeval(idx, st).s)))
    if a["kind"] == "log":
        return F(("var", "(%s %s)" % (a["name"], zeval(idx, st).s)))
    raise TranslateError("array %s read before it is filled" % nm)


def heval(n, st):
    """struct hi values"""
    n = unwrap(n)
    k = n.get("kind")
    if k in CAST_KINDS and n.get("castKind") in ("LValueToRValue", "NoOp"):
        return heval(kids(n)[0], st)
    if k == "CXXConstructExpr" and len(kids(n)) == 1:       # copy construction
        return heval(kids(n)[0], st)
    if k == "InitListExpr":
        ks = kids(n)
        if len(ks) != 2:
            raise TranslateError("hi initialiser with %d elements" % len(ks))
        return H(idx=zeval(ks[0], st).s, w=feval(ks[1], st).t)
    if k == "DeclRefExpr":
        v = st.env.get(refname(n))
        if isinstance(v, H):
            return v
        raise TranslateError("struct variable %s" % refname(n))
    acc = local_array_access(n, st)
    if acc is not None:
        nm, idx = acc
        if isinstance(nm, tuple):
            key = ("2d", nm[1], zeval(nm[2], st).s, zeval(idx, st).s)
            if key not in st.cells:
                raise TranslateError("cell %s[%s][%s] read without a preceding complete write in the same iteration" % key[1:])
            return st.cells[key]
        if nm == "_hinfo":
            e = zeval(idx, st).s
            return H(idx="(fst (%s %s))" % (st.hinfo, e), w=("var", "(snd (%s %s))" % (st.hinfo, e)), whole="(%s %s)" % (st.hinfo, e))
    raise TranslateError("struct expression not understood: %s" % src_text(n)[:60])


# ------------------------------------------------------------------------------------------ loops

def parse_for(stmt, st):
    """-> (C++ variable, Coq variable, range term, body); the Coq variable is bound in st.env"""
    ks = stmt.get("inner", [])
    if len(ks) != 5:
        raise TranslateError("for statement with %d parts" % len(ks))
    init, _, cond, inc, body = ks
    if init is None or init.get("kind") != "DeclStmt" or len(kids(init)) != 1 or kids(init)[0].get("kind") != "VarDecl":
        raise TranslateError("loop without a single counter declaration")
    vd = kids(init)[0]
    var = vd["name"]
    vt = ity(vd)
    if vt not in ("u8", "u32", "u64", "int") or not kids(vd):
        raise TranslateError("loop counter %s of type %s" % (var, dq(vd)))
    lo = zcast(zeval(kids(vd)[0], st), ity(kids(vd)[0]), vt, "loop start")
    if cond is None or inc is None:
        raise TranslateError("loop %s without condition or increment" % var)
    c = unwrap(cond)
    if c.get("kind") != "BinaryOperator" or c.get("opcode") not in ("<", "<=", ">", ">=", "!="):
        raise TranslateError("loop condition of %s" % var)
    a, b = kids(c)
    op = c["opcode"]
    if refname(unwrap_casts(b)) == var and op in (">", ">="):
        a, b, op = b, a, {">": "<", ">=": "<="}[op]
    if refname(unwrap_casts(a)) != var or op not in ("<", "<=", "!="):
        raise TranslateError("loop condition of %s is not `%s < bound`" % (var, var))
    if op == "!=" and lo.lit != 0:
        raise TranslateError("loop %s: `!=` bound with a start other than 0" % var)
    i = unwrap(inc)
    ok = False
    if i.get("kind") == "UnaryOperator" and i.get("opcode") == "++" and refname(unwrap_casts(kids(i)[0])) == var:
        ok = True
    if i.get("kind") == "CompoundAssignOperator" and i.get("opcode") == "+=" and refname(unwrap_casts(kids(i)[0])) == var:
        r = unwrap_casts(kids(i)[1])
        ok = r.get("kind") == "IntegerLiteral" and r.get("value") == "1"
    if not ok:
        raise TranslateError("loop %s does not advance by one" % var)
    cv = st.fresh(var)
    st.env[var] = Z(cv)
    hi = zeval(b, st)           # evaluated with the counter bound: a bound that mentions it is refused below
    if re.search(r"\b%s\b" % re.escape(cv), hi.s):
        raise TranslateError("loop bound of %s depends on the counter" % var)
    if op == "<=":
        cnt = "(%s + 1)" % hi.s
    else:
        cnt = hi.s
    if lo.lit == 0:
        rng = "(zrange %s)" % cnt
    else:
        rng = "(rx_span %s (%s - %s))" % (lo.s, cnt, lo.s)
    writes = find(body, lambda m: m.get("kind") in ("UnaryOperator", "CompoundAssignOperator", "BinaryOperator") and
                  m.get("opcode") in ("++", "--", "=", "+=", "-=", "*=", "/=") and kids(m) and
                  refname(unwrap_casts(kids(m)[0])) == var and unwrap_casts(kids(m)[0]).get("kind") == "DeclRefExpr", [])
    if writes:
        raise TranslateError("loop body assigns its counter %s" % var)
    return var, cv, rng, body


def body_stmts(b):
    return kids(b) if b.get("kind") == "CompoundStmt" else [b]


def nest_of(stmt, st, maxdepth=2, stmts_only=False):
    """a loop nest of depth 1 or 2 -> ([(cvar, range)], [(level, statement)]): the statements of all levels in order;
    level k statements see the first k+1 counters.  A loop below depth 2 or two loops at one level are refused."""
    loops, stmts = [], []
    cur = stmt
    while True:
        var, cv, rng, body = parse_for(cur, st)
        loops.append((cv, rng))
        inner = None
        for s in body_stmts(body):
            if s.get("kind") == "ForStmt" and len(loops) >= maxdepth and maxdepth < 2 + 1 and len(loops) == maxdepth and stmts_only:
                stmts.append((len(loops) - 1, s))
            elif s.get("kind") == "ForStmt":
                if inner is not None or len(loops) >= 2:
                    raise TranslateError("loop nest deeper than two or with two loops at one level")
                inner = s
            else:
                if inner is not None:
                    raise TranslateError("statement after the inner loop of a nest")
                stmts.append((len(loops) - 1, s))
        if inner is None:
            return loops, stmts
        cur = inner


def comprehension(loops, item):
    """program-order list of `item` over the nest"""
    if len(loops) == 1:
        return "map (fun %s => %s) %s" % (loops[0][0], item, loops[0][1])
    return "flat_map (fun %s => map (fun %s => %s) %s) %s" % (loops[0][0], loops[1][0], item, loops[1][1], loops[0][1])


def tuple_of(loops):
    return loops[0][0] if len(loops) == 1 else "(%s, %s)" % (loops[0][0], loops[1][0])


def closed_over(s, allowed, st):
    """the slot of a write log may mention loop counters and the size parameters only"""
    for w in set(re.findall(r"[A-Za-z_][A-Za-z_0-9.']*", s)):
        if w in allowed or w in ("wrap32", "rx_wrap64", "rx_wrap8", "Z.quot", "Z.rem", "Z"):
            continue
        raise TranslateError("subscript of a logged array mentions %s" % w)


# ------------------------------------------------------------------------------------------ genHInfo

GH_MEMBERS = {"_xsize": "xsize", "_ysize": "ysize", "_it": "it", "_ip": "ip"}
GH_FMEMBERS = {"_cos_dt": "cos_dt", "_sin_dt": "sin_dt"}
SIZES = "(it ip : Z)"


def method_body(docs, name, cls="RotationMap"):
    res = []
    for d in docs:
        if d.get("kind") in ("CXXMethodDecl", "CXXConstructorDecl") and d.get("name") == name:
            for c in kids(d):
                if c.get("kind") == "CompoundStmt":
                    res.append((d, c))
    return res


def new_size(vd, st):
    ne = find(vd, lambda m: m.get("kind") == "CXXNewExpr", [])
    if len(ne) != 1 or not kids(ne[0]):
        raise TranslateError("local array %s is not `new T[n]`" % vd["name"])
    return zeval(kids(ne[0])[0], st).s


class GenH:
    def __init__(self):
        self.defs = []          # top-level definitions emitted before the main one
        self.coeff_sizes = []
        self.smc = None
        self.ph = None
        self.coords = []


def assign_parts(n):
    """`lhs = rhs` as BinaryOperator or as the struct's operator= -> (lhs, rhs) or None"""
    n = unwrap(n)
    if n.get("kind") == "BinaryOperator" and n.get("opcode") == "=":
        return tuple(kids(n))
    if n.get("kind") == "CXXOperatorCallExpr":
        ks = kids(n)
        if refname(unwrap_casts(ks[0])) == "operator=" and len(ks) == 3:
            return ks[1], ks[2]
    return None


def exec_cell_stmt(s, st, g):
    """statements allowed inside the table-writing nest: integer declarations, cell writes, if/else over them.
    Returns a myhinfo write (slot, H) or None."""
    k = s.get("kind")
    if k == "DeclStmt":
        for vd in kids(s):
            if vd.get("kind") != "VarDecl" or not kids(vd) or ity(vd) not in ("int", "u32", "u64", "u8"):
                raise TranslateError("declaration of %s inside the table loop" % vd.get("name"))
            v = zcast(zeval(kids(vd)[0], st), ity(kids(vd)[0]), ity(vd), vd["name"])
            nm = st.fresh(vd["name"])
            st.lets.append("let %s := %s in" % (nm, v.s))
            st.env[vd["name"]] = Z(nm)
        return None
    if k == "CompoundStmt":
        r = None
        for c in kids(s):
            w = exec_cell_stmt(c, st, g)
            if w is not None:
                if r is not None:
                    raise TranslateError("two writes to the output table in one iteration")
                r = w
        return r
    if k == "IfStmt":
        ks = kids(s)
        if len(ks) not in (2, 3):
            raise TranslateError("if statement with an initialiser")
        c = beval(ks[0], st)
        sa, sb = st.clone(), st.clone()
        wa = exec_cell_stmt(ks[1], sa, g)
        wb = exec_cell_stmt(ks[2], sb, g) if len(ks) == 3 else None
        if wa is not None or wb is not None:
            raise TranslateError("write to the output table under a condition")
        if sa.lets or sb.lets:
            raise TranslateError("declaration under a condition inside the table loop")
        for key in set(sa.cells) | set(sb.cells):
            a, b = sa.cells.get(key), sb.cells.get(key)
            if a is st.cells.get(key) and b is st.cells.get(key):
                continue
            if a is None or b is None:
                raise TranslateError("cell written in one branch only and not defined before")
            for h in (a, b):
                if h.cond is None and (h.idx is None or h.w is None):
                    raise TranslateError("cell with only one of its two fields assigned")
            st.cells[key] = H(cond=c.s, a=a, b=b)
        return None
    ap = assign_parts(s)
    if ap is not None:
        lhs, rhs = ap
        l = unwrap(lhs)
        field = None
        if l.get("kind") == "MemberExpr" and n_is_cell(kids(l)[0], st):
            field = l.get("name")
            l = unwrap(kids(l)[0])
        acc = local_array_access(l, st)
        if acc is None:
            raise TranslateError("assignment not understood: %s" % src_text(s)[:80])
        nm, idx = acc
        if isinstance(nm, tuple):
            key = ("2d", nm[1], zeval(nm[2], st).s, zeval(idx, st).s)
            if g.ph is None or nm[1] != g.ph:
                raise TranslateError("2-D access to %s, which is not the recorded view" % nm[1])
            if field is None:
                st.cells[key] = heval(rhs, st)
            else:
                old = st.cells.get(key)
                cur = H(idx=old.idx if old is not None and old.cond is None else None,
                        w=old.w if old is not None and old.cond is None else None)
                if field == "index":
                    cur.idx = zcast(zeval(rhs, st), ity(rhs), "u32", "index").s
                elif field == "weight":
                    cur.w = feval(rhs, st).t
                else:
                    raise TranslateError("field %s" % field)
                st.cells[key] = cur
            return None
        if nm == g.outp and field is None:
            h = heval(rhs, st)
            if h.cond is None and (h.idx is None or h.w is None):
                raise TranslateError("table entry with only one of its two fields assigned")
            return (zeval(idx, st).s, h)
    if k == "NullStmt":
        return None
    raise TranslateError("statement not understood inside the table loop: %s" % src_text(s)[:80])


def n_is_cell(n, st):
    n = unwrap(n)
    acc = local_array_access(n, st)
    return acc is not None


def gh_branch(stmts, st, g, tag):
    """one branch of the guard: returns the Coq term giving entry k of myhinfo afterwards"""
    table = None
    for s in stmts:
        k = s.get("kind")
        if k == "CallExpr" and refname(unwrap_casts(kids(s)[0])) == "calcCoefficiants":
            a = kids(s)[1:]
            if len(a) != 3:
                raise TranslateError("calcCoefficiants with %d arguments" % len(a))
            tgt = unwrap_casts(a[0])
            getc = find(a[0], lambda m: m.get("kind") == "MemberExpr" and m.get("name") == "get", [])
            arr = find(a[0], lambda m: m.get("kind") == "DeclRefExpr" and refname(m) in st.arrays, [])
            if len(getc) != 1 or len(arr) != 1:
                raise TranslateError("first argument of calcCoefficiants is not A.get(): %s" % src_text(a[0])[:40])
            nm = refname(arr[0])
            if st.arrays[nm]["elem"] != "float":
                raise TranslateError("calcCoefficiants into %s" % nm)
            f = feval(a[1], st)
            cnt = zeval(a[2], st)
            cn = st.fresh(nm)
            st.lets.append("let %s := coeffs %s %s in" % (cn, cnt.s, fcoq(f.t, "rw")))
            st.arrays[nm] = dict(st.arrays[nm], kind="coeffs", name=cn)
            g.coeff_sizes.append("(%s, %s)" % (st.arrays[nm]["size"], cnt.s))
            continue
        if k == "ForStmt":
            sub = st.clone()
            sub.lets = []
            loops, body = nest_of(s, sub)
            # (a) the float array filled by the nest
            if len(body) == 1 and assign_parts(body[0][1]) is not None:
                lhs, rhs = assign_parts(body[0][1])
                acc = local_array_access(lhs, sub)
                if acc is not None and not isinstance(acc[0], tuple) and acc[0] in st.arrays and st.arrays[acc[0]]["elem"] == "float" \
                        and body[0][0] == len(loops) - 1:
                    nm = acc[0]
                    if g.smc is not None:
                        raise TranslateError("two float arrays filled by loop nests")
                    slot = zeval(acc[1], sub).s
                    closed_over(slot, {c for c, _ in loops} | {"it", "ip"}, sub)
                    val = feval(rhs, sub)
                    g.smc = nm
                    g.defs.append("(** the float array filled in a loop nest (`%s`): slots written, in program order, with the counters of the iteration *)\n"
                                  "Definition gen_rot_smc_slots %s : list (Z * %s) :=\n  %s.\n"
                                  "Definition gen_rot_smc_size %s : Z := %s." %
                                  (nm, SIZES, "Z" if len(loops) == 1 else "(Z * Z)",
                                   comprehension(loops, "(%s, %s)" % (slot, tuple_of(loops))), SIZES, st.arrays[nm]["size"]))
                    fn = st.fresh(nm)
                    st.lets.append("let %s := fun s => match rx_lookup (gen_rot_smc_slots it ip) s with Some %s => %s | None => 0%%F end in" %
                                   (fn, tuple_of(loops), fcoq(val.t, "rw")))
                    st.arrays[nm] = dict(st.arrays[nm], kind="log", name=fn)
                    continue
            # (b) the nest that writes the output table
            if table is not None:
                raise TranslateError("two loop nests write the output table in one branch")
            w = None
            sub.cells = {}
            for lvl, b in body:
                r = exec_cell_stmt(b, sub, g)
                if r is not None:
                    if w is not None or lvl != len(loops) - 1:
                        raise TranslateError("output table written twice or outside the innermost loop")
                    w = r
            if w is None:
                raise TranslateError("loop nest without a write to the output table")
            slot, h = w
            closed_over(slot, {c for c, _ in loops} | {"it", "ip"}, sub)
            g.defs.append("(** myhinfo[...] written by the %s branch: slots in program order with the counters of the iteration *)\n"
                          "Definition gen_rot_%s_slots %s : list (Z * %s) :=\n  %s." %
                          (tag, tag, SIZES, "Z" if len(loops) == 1 else "(Z * Z)",
                           comprehension(loops, "(%s, %s)" % (slot, tuple_of(loops)))))
            table = "match rx_lookup (gen_rot_%s_slots it ip) k with\n      | Some %s =>\n        %s\n      | None => old k\n      end" % \
                    (tag, tuple_of(loops), "\n        ".join(sub.lets + [hcoq(h, "rw")]))
            continue
        if k == "NullStmt":
            continue
        if k == "DeclStmt":
            for vd in kids(s):
                if vd.get("kind") != "VarDecl" or not kids(vd) or ity(vd) not in ("int", "u32", "u64", "u8"):
                    raise TranslateError("declaration of %s in the %s branch of genHInfo" % (vd.get("name"), tag))
                v = zcast(zeval(kids(vd)[0], st), ity(kids(vd)[0]), ity(vd), vd["name"])
                nm = st.fresh(vd["name"])
                st.lets.append("let %s := %s in" % (nm, v.s))
                st.env[vd["name"]] = Z(nm)
            continue
        raise TranslateError("statement not understood in the %s branch of genHInfo: %s" % (tag, src_text(s)[:80]))
    if table is None:
        raise TranslateError("the %s branch of genHInfo does not write the output table" % tag)
    return table


def tr_genhinfo():
    docs = ast_of(SRC, "genHInfo")
    mb = method_body(docs, "genHInfo")
    if len(mb) != 1:
        raise TranslateError("RotationMap::genHInfo: %d definitions found" % len(mb))
    decl, body = mb[0]
    pv = [c for c in kids(decl) if c.get("kind") == "ParmVarDecl"]
    if len(pv) != 3 or [ity(p) for p in pv[:2]] != ["u32", "u32"]:
        raise TranslateError("genHInfo does not take (meshindex_t, meshindex_t, hi*)")
    st = St(GH_MEMBERS, GH_FMEMBERS)
    st.env[pv[0]["name"]] = Z("x0")
    st.env[pv[1]["name"]] = Z("y0")
    outp = pv[2]["name"]
    g = GenH()
    g.outp = outp
    nmodf = 0
    result = None
    for s in kids(body):
        k = s.get("kind")
        if result is not None:
            raise TranslateError("statement after the guarded branches of genHInfo")
        if k == "DeclStmt":
            for vd in kids(s):
                if vd.get("kind") != "VarDecl":
                    raise TranslateError("declaration of kind %s" % vd.get("kind"))
                nm = vd["name"]
                t = dq(vd)
                if t.startswith("std::unique_ptr<"):
                    elem = {"std::unique_ptr<vfps::SourceMap::hi[]>": "hi", "std::unique_ptr<vfps::SourceMap::hi *[]>": "hiptr",
                            "std::unique_ptr<float[]>": "float"}.get(t)
                    if elem is None:
                        raise TranslateError("local array of type %s" % t)
                    st.arrays[nm] = dict(elem=elem, size=new_size(vd, st), kind="raw", name=nm)
                    continue
                if not kids(vd):
                    raise TranslateError("uninitialised local %s" % nm)
                init = kids(vd)[0]
                if t == "float":
                    call = unwrap_casts(init)
                    if call.get("kind") == "CallExpr" and refname(unwrap_casts(kids(call)[0])) == "modf":
                        a = kids(call)[1:]
                        if len(a) != 2 or not re.match(r"\s*(std::)?modf\s*\(", src_text(call)):
                            raise TranslateError("modf call: %s" % src_text(call)[:60])
                        src = feval(a[0], st)
                        ptr = unwrap_casts(a[1])
                        if ptr.get("kind") != "UnaryOperator" or ptr.get("opcode") != "&" or \
                                unwrap_casts(kids(ptr)[0]).get("kind") != "DeclRefExpr":
                            raise TranslateError("second argument of modf is not the address of a local")
                        tgt = refname(unwrap_casts(kids(ptr)[0]))
                        if not isinstance(st.env.get(tgt), F):
                            raise TranslateError("modf stores the integer part into %s" % tgt)
                        nmodf += 1
                        cn = st.fresh("c%d" % nmodf)
                        g.coords.append("(** argument of the %s std::modf split *)\n"
                                        "Definition gen_rot_c%d (cos_dt sin_dt : K) (at0 at1 : Z -> K) (delta0 delta1 zerobin0 zerobin1 : K) (x0 y0 : Z) : K :=\n  %s." %
                                        (["first", "second"][nmodf - 1] if nmodf <= 2 else "next", nmodf, fcoq(src.t, "rd")))
                        st.lets.append("let %s := gen_rot_c%d cos_dt sin_dt at0 at1 delta0 delta1 zerobin0 zerobin1 x0 y0 in" % (cn, nmodf))
                        st.env[tgt] = F(("ipart", ("var", cn)))
                        st.env[nm] = F(("var", "(fpart %s)" % cn))
                        continue
                    st.env[nm] = feval(init, st)
                    continue
                if ity(vd) in ("u32", "u64", "int", "u8"):
                    v = zcast(zeval(init, st), ity(init), ity(vd), nm)
                    cn = st.fresh(nm)
                    st.lets.append("let %s := %s in" % (cn, v.s))
                    st.env[nm] = Z(cn)
                    continue
                raise TranslateError("local %s of type %s" % (nm, t))
            continue
        if k == "ForStmt":
            # ph[i] = &ph1D[E]
            sub = st.clone()
            var, cv, rng, b = parse_for(s, sub)
            bs = body_stmts(b)
            ap = assign_parts(bs[0]) if len(bs) == 1 else None
            if ap is None:
                raise TranslateError("loop before the guard is not `ph[i] = &ph1D[E]`")
            lhs, rhs = ap
            la = local_array_access(lhs, sub)
            r = unwrap_casts(rhs)
            if la is None or isinstance(la[0], tuple) or st.arrays.get(la[0], {}).get("elem") != "hiptr" or \
                    zeval(la[1], sub).s != cv or r.get("kind") != "UnaryOperator" or r.get("opcode") != "&":
                raise TranslateError("loop before the guard is not `ph[i] = &ph1D[E]`")
            ra = local_array_access(kids(r)[0], sub)
            if ra is None or isinstance(ra[0], tuple) or st.arrays.get(ra[0], {}).get("elem") != "hi":
                raise TranslateError("loop before the guard is not `ph[i] = &ph1D[E]`")
            if g.ph is not None:
                raise TranslateError("two 2-D views")
            g.ph = la[0]
            row = zeval(ra[1], sub).s
            closed_over(row, {cv, "it", "ip"}, sub)
            g.defs.append("(** the 2-D view `%s[i] = &%s[...]`: rows set up, first element of row i, sizes of the two arrays *)\n"
                          "Definition gen_rot_ph_rows %s : list Z := %s.\n"
                          "Definition gen_rot_ph_row %s (%s : Z) : Z := %s.\n"
                          "Definition gen_rot_ph_sizes %s : Z * Z := (%s, %s)." %
                          (la[0], ra[0], SIZES, rng, SIZES, cv, row, SIZES, st.arrays[la[0]]["size"], st.arrays[ra[0]]["size"]))
            continue
        if k == "IfStmt":
            ks = kids(s)
            if len(ks) != 3:
                raise TranslateError("the guard of genHInfo has no else branch")
            c = beval(ks[0], st)
            sa, sb = st.clone(), st.clone()
            sa.arrays, sb.arrays = dict(st.arrays), dict(st.arrays)
            st.env[outp] = ("ptr", "myhinfo")
            ta = gh_branch(body_stmts(ks[1]), sa, g, "then")
            tb = gh_branch(body_stmts(ks[2]), sb, g, "else")
            result = "if %s then\n    %s\n  else\n    %s" % (c.s, "\n    ".join(sa.lets + [ta]), "\n    ".join(sb.lets + [tb]))
            continue
        raise TranslateError("statement of kind %s at the top level of genHInfo" % k)
    if result is None:
        raise TranslateError("genHInfo without its guard")
    if nmodf != 2:
        raise TranslateError("genHInfo with %d std::modf splits" % nmodf)
    main = ("(** RotationMap::genHInfo(x0, y0, myhinfo): entry k of myhinfo afterwards; `old`: its content before *)\n"
            "Definition gen_rot_genHInfo (xsize ysize it ip : Z) (cos_dt sin_dt : K) (at0 at1 : Z -> K)\n"
            "    (delta0 delta1 zerobin0 zerobin1 : K) (x0 y0 : Z) (old : Z -> Z * K) (k : Z) : Z * K :=\n  %s\n  %s." %
            ("\n  ".join(st.lets), result))
    g.defs.append("(** calcCoefficiants calls: (size of the target array, number of weights written) *)\n"
                  "Definition gen_rot_coeff_sizes %s : list (Z * Z) := [%s]." % (SIZES, "; ".join(g.coeff_sizes)))
    return g.defs, "\n".join(g.coords) + "\n" + main, outp


# ------------------------------------------------------------------------------------------ apply

AP_MEMBERS = {"_xsize": "xsize", "_ysize": "ysize", "_it": "it", "_ip": "ip", "_rotmapsize": "rotmapsize", "_clamp": "clamp"}


def assigned_in(n, st):
    """carried variables a statement assigns: scalars declared outside it and data_out cells, in order of first assignment"""
    res = []
    declared = set()

    def visit(m):
        if m.get("kind") == "VarDecl":
            declared.add(m.get("name"))
        ops = m.get("kind") in ("BinaryOperator", "CompoundAssignOperator") and m.get("opcode") in ("=", "+=", "-=", "*=", "/=")
        if ops:
            l = unwrap(kids(m)[0])
            if l.get("kind") == "DeclRefExpr":
                nm = refname(l)
                if nm not in declared and ("v", nm) not in res:
                    res.append(("v", nm))
            else:
                acc = local_array_access(l, st)
                if acc is not None and not isinstance(acc[0], tuple) and st.roles.get(acc[0]) == "out":
                    if ("out",) not in res:
                        res.append(("out",))
                else:
                    raise TranslateError("assignment target not understood: %s" % src_text(l)[:60])
        if m.get("kind") == "CXXMemberCallExpr" and find(kids(m)[0], lambda q: q.get("name") == "genHInfo", []):
            if ("hinfo",) not in res:
                res.append(("hinfo",))
        for c in kids(m):
            visit(c)
    visit(n)
    return res


class Cell:
    """execution of one cell body of apply"""
    def __init__(self, st):
        self.st = st
        self.outidx = None     # index term of the data_out cell
        self.out = None        # current Coq name of its value

    def get(self, key):
        if key[0] == "out":
            if self.out is None:
                raise TranslateError("data_out cell carried before it is written")
            return self.out
        if key[0] == "hinfo":
            return self.st.hinfo
        v = self.st.env.get(key[1])
        if not isinstance(v, F) or v.t[0] != "var":
            raise TranslateError("carried variable %s is not a float local" % key[1])
        return v.t[1]

    def bind(self, key, name):
        if key[0] == "out":
            self.out = name
            self.st.cells[("out", self.outidx)] = name
        elif key[0] == "hinfo":
            self.st.hinfo = name
        else:
            self.st.env[key[1]] = F(("var", name))

    def out_target(self, idxnode):
        e = zeval(idxnode, self.st).s
        if self.outidx is None:
            self.outidx = e
        elif self.outidx != e:
            raise TranslateError("data_out written at two different subscripts in one cell body")

    def run(self, stmts):
        st = self.st
        for s in stmts:
            k = s.get("kind")
            if k == "CompoundStmt":
                self.run(kids(s))
                continue
            if k == "NullStmt":
                continue
            if k == "DeclStmt":
                for vd in kids(s):
                    nm = vd.get("name")
                    if vd.get("kind") != "VarDecl" or not kids(vd):
                        raise TranslateError("declaration of %s in apply" % nm)
                    init = kids(vd)[0]
                    if dq(vd) == "float":
                        cn = st.fresh(nm)
                        st.lets.append("let %s := %s in" % (cn, fcoq(feval(init, st).t, "ro")))
                        st.env[nm] = F(("var", cn))
                    elif dq(vd).endswith("SourceMap::hi"):
                        h = heval(init, st)
                        cn = st.fresh(nm)
                        st.lets.append("let %s := %s in" % (cn, hcoq(h, "ro")))
                        st.env[nm] = H(idx="(fst %s)" % cn, w=("var", "(snd %s)" % cn))
                    elif ity(vd) in ("u32", "u64", "int", "u8"):
                        v = zcast(zeval(init, st), ity(init), ity(vd), nm)
                        cn = st.fresh(nm)
                        st.lets.append("let %s := %s in" % (cn, v.s))
                        st.env[nm] = Z(cn)
                    else:
                        raise TranslateError("local %s of type %s in apply" % (nm, dq(vd)))
                continue
            if k in ("BinaryOperator", "CompoundAssignOperator") and s.get("opcode") in ("=", "+=", "-=", "*=", "/="):
                lhs, rhs = kids(s)
                l = unwrap(lhs)
                r = feval(rhs, st)
                if l.get("kind") == "DeclRefExpr":
                    key = ("v", refname(l))
                    base = "v"
                else:
                    acc = local_array_access(l, st)
                    if acc is None or isinstance(acc[0], tuple) or st.roles.get(acc[0]) != "out":
                        raise TranslateError("assignment target not understood: %s" % src_text(l)[:60])
                    self.out_target(acc[1])
                    key = ("out",)
                if s["opcode"] == "=":
                    t = r.t
                else:
                    t = ("op", s["opcode"][0], ("var", self.get(key)), r.t)
                cn = st.fresh("out" if key[0] == "out" else key[1])
                st.lets.append("let %s := %s in" % (cn, fcoq(t, "ro")))
                self.bind(key, cn)
                continue
            if k == "CXXMemberCallExpr":
                ks = kids(s)
                if not find(ks[0], lambda q: q.get("name") == "genHInfo", []) or len(ks) != 4:
                    raise TranslateError("call not understood in apply: %s" % src_text(s)[:60])
                a, b = zeval(ks[1], st), zeval(ks[2], st)
                base = hinfo_base(ks[3], st)
                cn = st.fresh("hinfo")
                st.lets.append("let %s := fun s => G %s %s (fun k => %s (%s + k)) (s - %s) in" % (cn, a.s, b.s, st.hinfo, base, base))
                st.hinfo = cn
                continue
            if k == "ForStmt":
                carried = assigned_in(s, st)
                if not carried:
                    raise TranslateError("loop in apply that assigns nothing")
                sub = st.clone()
                inner = Cell(sub)
                inner.outidx, inner.out = self.outidx, self.out
                var, cv, rng, body = parse_for(s, sub)
                pats = []
                for key in carried:
                    if key[0] == "out" and self.outidx is None:
                        raise TranslateError("data_out accumulated in a loop before it is initialised")
                    self.get(key)          # must have a value before the loop
                    pn = st.fresh("a_" + ("out" if key[0] == "out" else "hinfo" if key[0] == "hinfo" else key[1]))
                    pats.append(pn)
                    inner.bind(key, pn)
                inner.run(body_stmts(body))
                res = [inner.get(key) for key in carried]
                init = [self.get(key) for key in carried]
                if len(carried) == 1:
                    fn = "fold_left (fun %s %s => %s %s) %s %s" % (pats[0], cv, " ".join(sub.lets), res[0], rng, init[0])
                    cn = st.fresh(pats[0][2:])
                    st.lets.append("let %s := %s in" % (cn, fn))
                    self.bind(carried[0], cn)
                else:
                    fn = "fold_left (fun '(%s) %s => %s (%s)) %s (%s)" % (", ".join(pats), cv, " ".join(sub.lets), ", ".join(res),
                                                                          rng, ", ".join(init))
                    cns = [st.fresh(p[2:]) for p in pats]
                    st.lets.append("let '(%s) := %s in" % (", ".join(cns), fn))
                    for key, cn in zip(carried, cns):
                        self.bind(key, cn)
                continue
            if k == "IfStmt":
                ks = kids(s)
                if len(ks) != 2:
                    raise TranslateError("if statement with else branch or initialiser in a cell body of apply")
                c = beval(ks[0], st)
                carried = assigned_in(ks[1], st)
                if not carried:
                    raise TranslateError("conditional block in apply that assigns nothing")
                sub = st.clone()
                inner = Cell(sub)
                inner.outidx, inner.out = self.outidx, self.out
                inner.run(body_stmts(ks[1]))
                res = [inner.get(key) for key in carried]
                cur = [self.get(key) for key in carried]
                if len(carried) == 1:
                    cn = st.fresh("out" if carried[0][0] == "out" else carried[0][-1])
                    st.lets.append("let %s := if %s then (%s %s) else %s in" % (cn, c.s, " ".join(sub.lets), res[0], cur[0]))
                    self.bind(carried[0], cn)
                else:
                    cns = [st.fresh("c_" + str(i)) for i in range(len(carried))]
                    st.lets.append("let '(%s) := if %s then (%s (%s)) else (%s) in" %
                                   (", ".join(cns), c.s, " ".join(sub.lets), ", ".join(res), ", ".join(cur)))
                    for key, cn in zip(carried, cns):
                        self.bind(key, cn)
                continue
            raise TranslateError("statement of kind %s in a cell body of apply: %s" % (k, src_text(s)[:60]))


def hinfo_base(n, st):
    """&_hinfo[B] or &(_hinfo[B]) -> B"""
    r = unwrap_casts(n)
    if r.get("kind") != "UnaryOperator" or r.get("opcode") != "&":
        raise TranslateError("third argument of genHInfo is not &_hinfo[...]")
    acc = local_array_access(kids(r)[0], st)
    if acc is None or acc[0] != "_hinfo":
        raise TranslateError("third argument of genHInfo is not &_hinfo[...]")
    return zeval(acc[1], st).s


def tr_apply():
    docs = ast_of(SRC, "apply")
    mb = [x for x in method_body(docs, "apply") if (x[0].get("type") or {}).get("qualType") == "void ()" and
          "RotationMap" in (x[0].get("mangledName") or "")]
    if len(mb) != 1:
        raise TranslateError("RotationMap::apply: %d definitions found" % len(mb))
    body = mb[0][1]
    stmts = kids(body)
    while len(stmts) == 1 and stmts[0].get("kind") == "CompoundStmt":
        stmts = kids(stmts[0])
    st = St(AP_MEMBERS)
    SCOPE[0] = "Qc"
    top = None
    for s in stmts:
        if s.get("kind") == "DeclStmt":
            for vd in kids(s):
                gd = find(vd, lambda m: m.get("kind") == "MemberExpr" and m.get("name") == "getData", [])
                src = [x.get("name") for x in find(vd, lambda m: m.get("kind") == "MemberExpr" and m.get("name") in ("_in", "_out"), [])]
                if len(gd) != 1 or len(src) != 1:
                    raise TranslateError("declaration in apply is not `p = _in/_out->getData()`")
                st.roles[vd["name"]] = "in" if src[0] == "_in" else "out"
            continue
        if s.get("kind") == "IfStmt" and top is None:
            top = s
            continue
        raise TranslateError("statement of kind %s at the top level of apply" % s.get("kind"))
    if top is None or sorted(st.roles.values()) != ["in", "out"]:
        raise TranslateError("apply without its two data pointers or its branch on _rotmapsize")
    ks = kids(top)
    if len(ks) != 3:
        raise TranslateError("branch on _rotmapsize without else")
    cond = beval(ks[0], st)
    out = ["(** RotationMap::apply, CPU branch: which of the two cell loops runs *)",
           "Definition gen_rot_apply_onthefly (rotmapsize : Z) : bool := %s." % cond.s]
    for tag, blk, depth in (("fly", ks[1], 2), ("table", ks[2], 1)):
        fs = [x for x in body_stmts(blk) if x.get("kind") != "NullStmt"]
        if len(fs) != 1 or fs[0].get("kind") != "ForStmt":
            raise TranslateError("%s branch of apply is not one loop nest" % tag)
        sub = st.clone()
        sub.used = set(st.used)
        loops, body = nest_of(fs[0], sub, depth, True)
        if len(loops) != depth:
            raise TranslateError("%s branch of apply: loop nest of depth %d" % (tag, len(loops)))
        sub.lets = []
        cell = Cell(sub)
        cell.run([b for _, b in body if _ == depth - 1])
        if any(l != depth - 1 for l, _ in body):
            raise TranslateError("%s branch of apply: statements between the cell loops" % tag)
        if cell.outidx is None:
            raise TranslateError("%s branch of apply does not write data_out" % tag)
        cvs = " ".join(c for c, _ in loops)
        if tag == "fly":
            out += ["(** `_rotmapsize == 0`: cells in program order; one cell: (subscript of data_out written, value).",
                    "    G a b old k: entry k of myhinfo after genHInfo(a, b, myhinfo) (gen_rot_genHInfo); hinfo: _hinfo before *)",
                    "Definition gen_rot_fly_cells (xsize ysize : Z) : list (Z * Z) :=\n  %s." % comprehension(loops, tuple_of(loops)),
                    "Definition gen_rot_fly_cell (xsize ysize it ip : Z) (clamp : bool) (G : Z -> Z -> (Z -> Z * Qc) -> Z -> Z * Qc)\n"
                    "    (hinfo : Z -> Z * Qc) (D : Z -> Qc) (%s : Z) : Z * Qc :=\n  %s\n  (%s, %s)." %
                    (cvs, "\n  ".join(sub.lets), cell.outidx, cell.out)]
        else:
            out += ["(** precomputed table: cells in program order; one cell *)",
                    "Definition gen_rot_table_cells (rotmapsize : Z) : list Z := %s." % loops[0][1],
                    "Definition gen_rot_table_cell (xsize ysize it ip : Z) (clamp : bool) (hinfo : Z -> Z * Qc) (D : Z -> Qc) (%s : Z) : Z * Qc :=\n"
                    "  %s\n  (%s, %s)." % (cvs, "\n  ".join(sub.lets), cell.outidx, cell.out)]
    return out


# ------------------------------------------------------------------------------------------ constructors

def tr_ctor():
    docs = ast_of(SRC, "RotationMap")
    mb = method_body(docs, "RotationMap")
    mb = [x for x in mb if x[0].get("kind") == "CXXConstructorDecl"]
    if len(mb) != 1:
        raise TranslateError("RotationMap constructor: %d definitions" % len(mb))
    decl, body = mb[0]
    params = {}
    fparams = {}
    st = St(params, fparams)
    want = {"xsize": "u32", "ysize": "u32", "rotmapsize": "u32", "it": "u8", "interpol_clamped": "bool"}
    for p in kids(decl):
        if p.get("kind") == "ParmVarDecl":
            nm = p["name"]
            if nm in want:
                if ity(p) != want[nm]:
                    raise TranslateError("constructor parameter %s of type %s" % (nm, dq(p)))
                params[nm] = {"interpol_clamped": "a_clamp"}.get(nm, "a_" + nm)
            if nm == "angle":
                if not is_float(p):
                    raise TranslateError("angle of type %s" % dq(p))
                st.env["angle"] = F(("var", "angle"))
    if set(params) != set(want) or "angle" not in st.env:
        raise TranslateError("constructor parameters %s" % sorted(params))
    inits = [c for c in kids(decl) if c.get("kind") == "CXXCtorInitializer"]
    base = [c for c in inits if "baseInit" in c]
    if len(base) != 1:
        raise TranslateError("RotationMap constructor without its SourceMap base initialiser")
    ce = find(base[0], lambda m: m.get("kind") == "CXXConstructExpr" and dq(m).endswith("SourceMap"), [])
    if not ce:
        raise TranslateError("SourceMap base initialiser")
    args = kids(ce[0])
    # the SourceMap constructor with that many parameters
    sdocs = ast_of(SRC_SM, "SourceMap")
    cands = []
    for d in sdocs:
        if d.get("kind") == "CXXConstructorDecl" and any(c.get("kind") == "CompoundStmt" for c in kids(d)):
            ps = [c for c in kids(d) if c.get("kind") == "ParmVarDecl"]
            if len(ps) == len(args) and not any("delegatingInit" in c for c in kids(d) if c.get("kind") == "CXXCtorInitializer"):
                cands.append((d, ps))
    if len(cands) != 1:
        raise TranslateError("SourceMap constructor with %d parameters: %d candidates" % (len(args), len(cands)))
    sd, sps = cands[0]
    sst = St({}, {})
    for p, a in zip(sps, args):
        t = ity(p)
        if t in ("u32", "u64", "u8"):
            sst.env[p["name"]] = zcast(zeval(a, st), ity(a), t, p["name"])
    member = {}
    for c in kids(sd):
        if c.get("kind") == "CXXCtorInitializer" and "anyInit" in c:
            nm = c["anyInit"]["name"]
            if nm in ("_ip", "_it", "_xsize", "_ysize"):
                member[nm] = zcast(zeval(kids(c)[0], sst), ity(kids(c)[0]), ity(c["anyInit"]), nm).s
            if nm == "_hinfo":
                ne = find(c, lambda m: m.get("kind") == "CXXNewExpr", [])
                if len(ne) != 1:
                    raise TranslateError("_hinfo is not initialised by new hi[...]")
                sz = unwrap_casts(kids(ne[0])[0])
                if sz.get("kind") == "CallExpr" and refname(unwrap_casts(kids(sz)[0])) == "max" and len(kids(sz)) == 3 and \
                        re.match(r"\s*std::max\s*\(", src_text(sz, SRC_SM)):
                    a, b = [zeval(x, sst) for x in kids(sz)[1:]]
                    member[nm] = "(Z.max %s %s)" % (a.s, b.s)
                else:
                    member[nm] = zeval(kids(ne[0])[0], sst).s
    if set(member) != {"_ip", "_it", "_xsize", "_ysize", "_hinfo"}:
        raise TranslateError("SourceMap constructor initialises %s" % sorted(member))
    own = {}
    for c in inits:
        if "anyInit" in c:
            nm = c["anyInit"]["name"]
            e = kids(c)[0]
            if nm == "_rotmapsize":
                own[nm] = zcast(zeval(e, st), ity(e), "u32", nm).s
            elif nm == "_clamp":
                own[nm] = beval(e, st).s
            elif nm in ("_cos_dt", "_sin_dt"):
                own[nm] = fcoq(feval(e, st).t, None)
    if set(own) != {"_rotmapsize", "_clamp", "_cos_dt", "_sin_dt"}:
        raise TranslateError("RotationMap constructor initialises %s" % sorted(own))
    P = "(a_xsize a_ysize a_it a_rotmapsize : Z)"
    out = ["(** constructors: the members as functions of the RotationMap constructor's arguments (through the SourceMap constructor",
           "    with %d parameters); a_*: the constructor's arguments, a_it the numeric value of the InterpolationType *)" % len(args),
           "Definition gen_rot_ctor_xsize %s : Z := %s." % (P, member["_xsize"]),
           "Definition gen_rot_ctor_ysize %s : Z := %s." % (P, member["_ysize"]),
           "Definition gen_rot_ctor_it %s : Z := %s." % (P, member["_it"]),
           "Definition gen_rot_ctor_ip %s : Z := %s." % (P, member["_ip"]),
           "Definition gen_rot_ctor_hinfo_size %s : Z := %s." % (P, member["_hinfo"]),
           "Definition gen_rot_ctor_rotmapsize %s : Z := %s." % (P, own["_rotmapsize"]),
           "Definition gen_rot_ctor_clamp (a_clamp : bool) : bool := %s." % own["_clamp"]]
    trig = ["Definition gen_rot_ctor_cos_dt (angle : K) : K := %s." % own["_cos_dt"],
            "Definition gen_rot_ctor_sin_dt (angle : K) : K := %s." % own["_sin_dt"]]
    # body: members from here on
    bst = St(dict(AP_MEMBERS, **{p: v for p, v in params.items()}), {})
    fill = None
    throws = None
    for s in kids(body):
        if s.get("kind") != "IfStmt":
            raise TranslateError("statement of kind %s in the constructor body" % s.get("kind"))
        ks = kids(s)
        thr = find(s, lambda m: m.get("kind") == "CXXThrowExpr", [])
        if thr:
            if len(ks) != 2 or throws is not None:
                raise TranslateError("constructor: throw statement not of the form `if (C) throw`")
            throws = beval(ks[0], bst).s
            continue
        if len(ks) != 3 or fill is not None:
            raise TranslateError("constructor: branch on _rotmapsize not of the form if/else")
        c = beval(ks[0], bst).s
        if [x for x in body_stmts(ks[1]) if x.get("kind") != "NullStmt"]:
            raise TranslateError("constructor: the `_rotmapsize == 0` branch is not empty on the CPU")
        fs = [x for x in body_stmts(ks[2]) if x.get("kind") != "NullStmt"]
        if len(fs) != 1 or fs[0].get("kind") != "ForStmt":
            raise TranslateError("constructor: table branch is not one loop nest")
        sub = bst.clone()
        loops, bd = nest_of(fs[0], sub)
        if len(loops) != 2 or len(bd) != 1 or bd[0][0] != 1 or bd[0][1].get("kind") != "CXXMemberCallExpr":
            raise TranslateError("constructor: table loop body is not one genHInfo call")
        call = bd[0][1]
        cks = kids(call)
        if not find(cks[0], lambda q: q.get("name") == "genHInfo", []) or len(cks) != 4:
            raise TranslateError("constructor: table loop body is not one genHInfo call")
        a, b = zeval(cks[1], sub), zeval(cks[2], sub)
        base = hinfo_base(cks[3], sub)
        fill = (c, loops, a.s, b.s, base)
    if fill is None or throws is None:
        raise TranslateError("constructor body without the table loop or the clamp refusal")
    c, loops, a, b, base = fill
    out += ["(** constructor body: the table is filled unless this holds; the genHInfo calls in program order as",
            "    (first element of the block handed over, (x0, y0)); the configurations refused with std::invalid_argument *)",
            "Definition gen_rot_ctor_nofill (rotmapsize : Z) : bool := %s." % c,
            "Definition gen_rot_ctor_calls (xsize ysize it ip : Z) (a_xsize a_ysize : Z) : list (Z * (Z * Z)) :=\n  %s." %
            comprehension(loops, "(%s, (%s, %s))" % (base, a, b)),
            "Definition gen_rot_ctor_throws (a_clamp : bool) (a_it a_rotmapsize : Z) : bool := %s." % throws]
    return out, trig


HEADER = """(* GENERATED on every run by translate/rotation2coq.py from RotationMap::genHInfo, RotationMap::apply (CPU branch), the
   RotationMap constructor (src/SM/RotationMap.cpp) and the SourceMap constructor (src/SM/SourceMap.cpp) of the
   repository's working tree.  Do not edit.  Vocabulary: Model/RotX.v.
   rd / rw / ro: rounding of one binary32 operation whose result reaches a float -> integer split / ends in a table
   weight / is part of the accumulation of apply; ipart, fpart: the two results of std::modf.
   Integer parameters are values of their C++ types (xsize, ysize, rotmapsize, x0, y0: unsigned int; it, ip: unsigned char). *)
From Coq Require Import List ZArith QArith Qcanon Bool.
From Inovesa Require Import Base.FieldKit Base.Float32 Gen.Gen_Coeffs Model.Kick Model.RotX.
Import ListNotations.
Local Open Scope Z_scope.
"""


def translate():
    SCOPE[0] = "F"
    defs, main, outp = tr_genhinfo()
    ap = tr_apply()
    SCOPE[0] = "F"
    ct, trig = tr_ctor()
    out = [HEADER]
    out += ct
    out.append("")
    out += defs
    out.append("")
    out += ["Section GenRotation.", "  Variable K : Fld.", "  Variables rd rw : K -> K.", "  Variable ipart : K -> Z.",
            "  Variable fpart : K -> K.", "  Local Open Scope F_scope.", "  Local Open Scope Z_scope.", ""]
    out.append(main)
    out += ["", "  Variables cosf sinf : K -> K."]
    out += trig
    out += ["End GenRotation.", ""]
    out += ["Section GenRotationApply.", "  Variable ro : Qc -> Qc.", "  Local Open Scope Qc_scope.", "  Local Open Scope Z_scope.", ""]
    out += ap
    out += ["End GenRotationApply."]
    return "\n".join(out) + "\n"


if __name__ == "__main__":
    dst = sys.argv[1] if len(sys.argv) > 1 else os.path.join(VERIF, "coq", "Gen", "Gen_Rotation.v")
    try:
        text = translate()
    except TranslateError as e:
        print("TRANSLATE-ERROR Gen_Rotation: %s" % e)
        sys.exit(2)
    ch = write_if_changed(dst, text)
    print("Gen_Rotation.v %s" % ("regenerated" if ch else "unchanged"))
