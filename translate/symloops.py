"""Symbolic execution of small C++ member functions made of counted `for` loops over arrays, with loop
summarisation, for the translators moments2coq.py (PhaseSpace) - shared helper, not a translator itself.

The result of executing a function is, for every member array it writes, a *closed form*: a total function of
the cell coordinates c0,c1,.. (`if <cell in the written region> then <value> else <previous content>`), where
values are field expressions with finite sums.  The summarisation rules are deliberately narrow; everything
else raises TranslateError (a translator must fail loudly):

 * `for (T v = LO; v < HI; v++)` (also `v != HI` when LO is the literal 0, `v <= E`, `HI > v`, `++v`, `v += 1`);
 * a write `A[i0][i1].. op= e` inside loops: every loop variable occurs in at most one index position and
   only as the plain variable (a *map* position: each iteration owns its cell); loops whose variable does not
   occur in the index are *reductions* and the write must then be an accumulation `cell = cell + t`;
 * inside a loop body a member that is written may be read only at the cell being written (or at a cell that
   differs from it in a literal index);
 * local scalars carried round a loop are either accumulated (`s = s + t`, `s += t`: closed form
   `s0 + sum`) or iterated (`s = F(s)` with F free of the loop variable: closed form `iter k F s0`);
 * `if (c) A else B` merges the two branches cell by cell (`ite`);
 * std::inner_product / std::accumulate over `.begin()/.end()` of a member (sub-)array are the sums they
   compute (`init + sum_i a_i*b_i`, left to right), so that an explicit accumulation loop gives the same form.

IR (tuples).  Field:  ('num',Fraction) ('neg',a) ('add'|'sub'|'mul'|'div',a,b) ('rd',(kind,k,name),[i..])
 ('fn',name,[i..]) ('sum',v,lo,hi,body) ('iter',count,v,F,entry) ('ite',cond,a,b) ('fz',i) ('ph',key)
 ('lvar',name).  Integer: ('inum',k) ('ivar',name) ('iadd'|'isub'|'imul',a,b) ('iite',cond,a,b).
 Conditions: ('pos',e) ('ieq',a,b) ('ilt',a,b) ('ile',a,b) ('not',c) ('and',c,d)."""
import os, sys
from fractions import Fraction
sys.path.insert(0, os.path.dirname(os.path.abspath(__file__)))
from cxx_ast import TranslateError, kids

WRAPPERS = ("ImplicitCastExpr", "ParenExpr", "CXXFunctionalCastExpr", "CStyleCastExpr", "CXXStaticCastExpr",
            "ExprWithCleanups", "MaterializeTemporaryExpr", "CXXBindTemporaryExpr", "ConstantExpr")


def qtype(n):
    t = n.get("type") or {}
    return t.get("desugaredQualType") or t.get("qualType") or ""


FLOATS = ("float", "double", "integral_t", "meshdata_t", "meshaxis_t", "projection_t", "timeaxis_t", "csrpower_t")


def _bare(t):
    return t.replace("const ", "").replace("volatile ", "").replace("&", "").strip()


def is_float_type(t):
    t = _bare(t)
    return t in ("float", "double", "long double") or any(t == f or t.endswith("::" + f) for f in FLOATS)


def is_int_type(t):
    t = _bare(t)
    if is_float_type(t) or not t or "<" in t or "*" in t:
        return False
    w = t.split()
    return w[0] in ("unsigned", "int", "long", "short", "char", "signed", "size_t", "bool") or \
        t.split("::")[-1] in ("size_t", "meshindex_t", "uint_fast8_t", "uint32_t", "uint64_t", "int64_t", "int32_t",
                              "size_type", "index", "hsize_t")


def strip1(n):
    """drop value-preserving wrappers (exact arithmetic: float<->double and integer widening are the identity;
    an integer -> floating conversion is kept by the caller through the node types)"""
    while True:
        k = n.get("kind")
        if k in WRAPPERS:
            ck = n.get("castKind")
            if ck in ("FloatingToIntegral", "FloatingToBoolean", "IntegralToBoolean"):
                raise TranslateError("value-changing cast %s" % ck)
            ks = kids(n)
            if len(ks) != 1:
                raise TranslateError("wrapper %s with %d children" % (k, len(ks)))
            n = ks[0]
        elif k == "CXXConstructExpr" and "iterator" in qtype(n) and \
                len([c for c in kids(n) if c.get("kind") != "CXXDefaultArgExpr"]) == 1:
            n = [c for c in kids(n) if c.get("kind") != "CXXDefaultArgExpr"][0]
        else:
            return n


def walk(n):
    yield n
    for c in kids(n):
        yield from walk(c)


def refname(n):
    return (n.get("referencedDecl") or {}).get("name")


# ------------------------------------------------------------------------------------------------ IR utilities

def subst(e, m):
    """replace ('ivar',name) / ('ph',key) / ('lvar',name) nodes according to m (keys are the nodes themselves)"""
    if isinstance(e, tuple):
        if e in m:
            return m[e]
        return tuple(subst(x, m) for x in e)
    if isinstance(e, list):
        return [subst(x, m) for x in e]
    return e


def nodes(e):
    if isinstance(e, tuple):
        yield e
        for x in e:
            yield from nodes(x)
    elif isinstance(e, list):
        for x in e:
            yield from nodes(x)


def mentions(e, node):
    return any(x == node for x in nodes(e))


def phs(e):
    return [x for x in nodes(e) if isinstance(x, tuple) and len(x) == 2 and x[0] == "ph"]


def lit_disjoint(t1, t2):
    """two index tuples certainly denote different cells (some position holds two different literals)"""
    if len(t1) != len(t2):
        return False
    for a, b in zip(t1, t2):
        if a[0] == "inum" and b[0] == "inum" and a[1] != b[1]:
            return True
    return False


def mk_ite(c, a, b):
    """conditional value; a negated test with swapped branches gives the same term"""
    while isinstance(c, tuple) and c and c[0] == "not":
        c, a, b = c[1], b, a
    return ("ite", c, a, b)


def elim_continue(stmts):
    """`if (c) { A; continue; } B...` inside a loop body is `if (c) { A } else { B... }`; a `continue` that ends the
    body is dropped.  (Structured form of an early continue; anything else with a continue is left for the caller to refuse.)"""
    out = []
    for i, s in enumerate(stmts):
        if s.get("kind") == "ContinueStmt" and i == len(stmts) - 1:
            return out
        if s.get("kind") == "IfStmt" and not s.get("hasElse") and not s.get("hasInit") and not s.get("hasVar"):
            ks = [c for c in s.get("inner", []) if c]
            if len(ks) == 2:
                body = ks[1]
                inner = kids(body) if body.get("kind") == "CompoundStmt" else [body]
                if inner and inner[-1].get("kind") == "ContinueStmt" and \
                        not any(m.get("kind") == "ContinueStmt" for x in inner[:-1] for m in walk(x)):
                    then = dict(kind="CompoundStmt", inner=inner[:-1])
                    rest = dict(kind="CompoundStmt", inner=elim_continue(stmts[i + 1:]))
                    new = dict(s)
                    new["inner"] = [ks[0], then, rest]
                    new["hasElse"] = True
                    out.append(new)
                    return out
        out.append(s)
    return out


class Upd:
    """one layer of pending writes to an array: pos[p] = ('fix', iexpr) | ('rng', lo, hi);
    value in terms of the coordinates ('ivar','c<p>') of the rng positions"""
    def __init__(self, pos, value):
        self.pos, self.value = pos, value

    def coords(self):
        return tuple(p[1] if p[0] == "fix" else ("ivar", "c%d" % i) for i, p in enumerate(self.pos))

    def copy(self):
        return Upd(list(self.pos), self.value)


class Ctx:
    """description of the class being executed (filled by the translator)"""
    def __init__(self):
        self.state_arrays = {}     # member -> rank (mutable arrays / scalars (rank 0) of the object state)
        self.const_arrays = {}     # member -> fn name (read-only arrays: ('fn', name, idx))
        self.int_members = {}      # member/static -> ('ivar', name)
        self.extents = {}          # member -> [iexpr per dimension]
        self.ignored_members = set()   # writes to these are dropped (stated in the generated file's header)
        self.methods = {}          # name -> (decl, body) for inlining single-return accessors
        self.callable = {}         # name -> number of integer arguments: member calls emitted as gen_<name>
        self.hooks = []            # extra expression recognisers: f(exe, node) -> ir or None


class Exec:
    def __init__(self, ctx, fname):
        self.ctx, self.fname = ctx, fname
        self.counter = 0
        self.env = {}            # decl id -> K expr | ('int', iexpr) | ('larr', name)
        self.names = {}          # decl id -> source name
        self.stacks = {}         # array key -> list of Upd | ('mark', loopid)
        self.larr = {}           # local array name -> (rank, extents)
        self.version = 0         # state version (st0, st1, ...)
        self.lets = []           # [(new state name, kind, payload)]
        self.loops = []          # active loop ids (innermost last)
        self.returned = False
        self.result = None

    def err(self, msg):
        raise TranslateError("%s: %s" % (self.fname, msg))

    def fresh(self, base):
        self.counter += 1
        return "%s_%d" % (base, self.counter)

    # ------------------------------------------------------------------ expressions
    def iexpr(self, n):
        n = strip1(n)
        k = n.get("kind")
        if k == "IntegerLiteral":
            return ("inum", int(n["value"]))
        if k == "DeclRefExpr":
            rid = (n.get("referencedDecl") or {}).get("id")
            nm = refname(n)
            if rid in self.env:
                v = self.env[rid]
                if isinstance(v, tuple) and v and v[0] == "int":
                    return v[1]
                self.err("variable %s used as an integer" % nm)
            if nm in self.ctx.int_members:
                return self.ctx.int_members[nm]
            self.err("unknown integer variable %s" % nm)
        if k == "MemberExpr":
            nm = n.get("name")
            if nm in self.ctx.int_members:
                return self.ctx.int_members[nm]
            self.err("unknown integer member %s" % nm)
        if k == "BinaryOperator" and n.get("opcode") in ("+", "-", "*"):
            a, b = kids(n)
            return ({"+": "iadd", "-": "isub", "*": "imul"}[n["opcode"]], self.iexpr(a), self.iexpr(b))
        if k == "UnaryOperator" and n.get("opcode") in ("-", "+") and "unsigned" not in qtype(n):
            a = self.iexpr(kids(n)[0])
            return ("isub", ("inum", 0), a) if n["opcode"] == "-" else a
        if k == "ConditionalOperator":
            c, a, b = kids(n)
            return ("iite", self.cond(c), self.iexpr(a), self.iexpr(b))
        self.err("integer expression of kind %s" % k)

    def cond(self, n):
        n = strip1(n)
        k = n.get("kind")
        if k == "BinaryOperator":
            op = n.get("opcode")
            a, b = kids(n)
            fl = is_float_type(qtype(a)) or is_float_type(qtype(b))
            if fl:
                if op == ">" and self.is_zero(b):
                    return ("pos", self.kexpr(a))
                if op == "<" and self.is_zero(a):
                    return ("pos", self.kexpr(b))
                self.err("floating comparison other than `e > 0`")
            if op in ("==", "!=", "<", "<=", ">", ">="):
                ia, ib = self.iexpr(a), self.iexpr(b)
                c = {"==": ("ieq", ia, ib), "!=": ("not", ("ieq", ia, ib)), "<": ("ilt", ia, ib), "<=": ("ile", ia, ib),
                     ">": ("ilt", ib, ia), ">=": ("ile", ib, ia)}[op]
                return c
            if op == "&&":
                return ("and", self.cond(a), self.cond(b))
        if k == "UnaryOperator" and n.get("opcode") == "!":
            return ("not", self.cond(kids(n)[0]))
        self.err("condition of kind %s" % k)

    def is_zero(self, n):
        n = strip1(n)
        return (n.get("kind") == "IntegerLiteral" and int(n["value"]) == 0) or \
               (n.get("kind") == "FloatingLiteral" and Fraction(n["value"]) == 0)

    def kexpr(self, n):
        """field-valued expression"""
        k = n.get("kind")
        if k in WRAPPERS:
            ks = kids(n)
            if len(ks) != 1:
                self.err("wrapper %s with %d children" % (k, len(ks)))
            ck = n.get("castKind")
            if ck in ("FloatingToIntegral", "FloatingToBoolean", "IntegralToBoolean"):
                self.err("value-changing cast %s" % ck)
            if ck == "IntegralToFloating":
                inner = strip1(ks[0])
                if inner.get("kind") == "IntegerLiteral":
                    return ("num", Fraction(int(inner["value"])))
                return ("fz", self.iexpr(inner))
            return self.kexpr(ks[0])
        k = n.get("kind")
        if k == "FloatingLiteral":
            return ("num", Fraction(n["value"]))
        if k == "IntegerLiteral":
            return ("num", Fraction(int(n["value"])))
        if k == "DeclRefExpr":
            rid = (n.get("referencedDecl") or {}).get("id")
            if rid in self.env:
                v = self.env[rid]
                if isinstance(v, tuple) and v and v[0] == "int":
                    return ("fz", v[1])
                if isinstance(v, tuple) and v and v[0] == "larr":
                    self.err("local array %s used as a scalar" % refname(n))
                return v
            self.err("unknown variable %s" % refname(n))
        if k == "MemberExpr":
            nm = n.get("name")
            if nm in self.ctx.state_arrays and self.ctx.state_arrays[nm] == 0:
                return self.read(("st", nm), ())
            self.err("member %s used as a scalar" % nm)
        if k == "UnaryOperator" and n.get("opcode") in ("-", "+"):
            a = self.kexpr(kids(n)[0])
            return ("neg", a) if n["opcode"] == "-" else a
        if k == "BinaryOperator" and n.get("opcode") in ("+", "-", "*", "/"):
            a, b = kids(n)
            return ({"+": "add", "-": "sub", "*": "mul", "/": "div"}[n["opcode"]], self.kexpr(a), self.kexpr(b))
        if k == "ConditionalOperator":
            c, a, b = kids(n)
            return mk_ite(self.cond(c), self.kexpr(a), self.kexpr(b))
        if k == "CXXOperatorCallExpr":
            arr, idx = self.subscript(n)
            return self.read_any(arr, idx)
        if k == "ArraySubscriptExpr":
            arr, idx = self.subscript(n)
            return self.read_any(arr, idx)
        if k in ("CallExpr", "CXXMemberCallExpr"):
            for h in self.ctx.hooks:
                r = h(self, n)
                if r is not None:
                    return r
            return self.call(n)
        self.err("expression of kind %s" % k)

    # ---- arrays
    def subscript(self, n):
        """operator[] chain -> (array key, [index iexprs]); array key = ('st',member) | ('const',fn) | ('larr',name)"""
        idx = []
        cur = strip1(n)
        while True:
            k = cur.get("kind")
            if k == "CXXOperatorCallExpr":
                ks = kids(cur)
                if refname(strip1(ks[0])) != "operator[]" or len(ks) != 3:
                    self.err("operator call other than [] on an array")
                idx.insert(0, self.iexpr(ks[2]))
                cur = strip1(ks[1])
                continue
            if k == "ArraySubscriptExpr":
                ks = kids(cur)
                idx.insert(0, self.iexpr(ks[1]))
                cur = strip1(ks[0])
                continue
            break
        return self.array_key(cur), idx

    def array_key(self, cur):
        k = cur.get("kind")
        if k == "MemberExpr":
            nm = cur.get("name")
            if nm in self.ctx.state_arrays:
                return ("st", nm)
            if nm in self.ctx.const_arrays:
                return ("const", nm)
            if nm in self.ctx.ignored_members:
                return ("ignored", nm)
            self.err("array member %s is not known" % nm)
        if k == "DeclRefExpr":
            rid = (cur.get("referencedDecl") or {}).get("id")
            v = self.env.get(rid)
            if isinstance(v, tuple) and v and v[0] == "larr":
                return ("larr", v[1])
            self.err("subscript of %s, which is not a known array" % refname(cur))
        self.err("subscript base of kind %s" % k)

    def rank(self, arr):
        if arr[0] == "st":
            return self.ctx.state_arrays[arr[1]]
        if arr[0] == "const":
            return len(self.ctx.extents[arr[1]])
        if arr[0] == "larr":
            return self.larr[arr[1]][0]
        self.err("rank of %s" % (arr,))

    def extents_of(self, arr):
        if arr[0] in ("st", "const"):
            if arr[1] not in self.ctx.extents:
                self.err("extents of %s unknown" % arr[1])
            return self.ctx.extents[arr[1]]
        return self.larr[arr[1]][1]

    def read_any(self, arr, idx):
        if len(idx) != self.rank(arr):
            self.err("array %s read with %d of %d indices" % (arr[1], len(idx), self.rank(arr)))
        if arr[0] == "const":
            return ("fn", self.ctx.const_arrays[arr[1]], tuple(idx))
        if arr[0] == "ignored":
            self.err("read of the unmodelled member %s" % arr[1])
        return self.read(arr, tuple(idx))

    def read(self, arr, T, below=None):
        """current content of cell T of a written-or-not array, resolved against the pending layers;
        below = index into the stack to start from (exclusive upper bound), default the top"""
        st = self.stacks.setdefault(arr, [])
        i = len(st) if below is None else below
        while i > 0:
            i -= 1
            L = st[i]
            if isinstance(L, tuple):          # ('mark', loopid)
                return ("ph", (arr, tuple(T), L[1]))
            c = L.coords()
            if all(p[0] == "fix" for p in L.pos) and tuple(c) == tuple(T):
                return L.value
            if lit_disjoint(c, T):
                continue
            self.err("read of %s at a cell that cannot be told apart from cells written earlier in the same statement"
                     % arr[1])
        return self.bottom(arr, T)

    def bottom(self, arr, T):
        if arr[0] == "larr":
            return ("num", Fraction(0))            # value-initialised local vector
        return ("rd", ("st", self.version, arr[1]), tuple(T))

    def write(self, arr, T, value):
        if arr[0] == "ignored":
            return
        if arr[0] == "const":
            self.err("write to the read-only member %s" % arr[1])
        if len(T) != self.rank(arr):
            self.err("array %s written with %d of %d indices" % (arr[1], len(T), self.rank(arr)))
        self.push(arr, Upd([("fix", t) for t in T], value))

    def push(self, arr, u):
        """a new layer on top: always sound, because every value has already consumed what it read; an identical region
        on top is replaced (the later write wins there)"""
        st = self.stacks.setdefault(arr, [])
        if st and isinstance(st[-1], Upd) and st[-1].pos == u.pos:
            st[-1] = u
        else:
            st.append(u)

    def call(self, n):
        ks = kids(n)
        callee = strip1(ks[0])
        nm = refname(callee) or callee.get("name")
        args = ks[1:]
        if nm == "inner_product" and len(args) == 4:
            r1 = self.range_of(args[0], args[1])
            r2 = self.range_start(args[2])
            v = self.fresh("i")
            iv = ("ivar", v)
            body = ("mul", self.range_elt(r1, iv), self.range_elt(r2, iv))
            return ("add", self.kexpr(args[3]), ("sum", v, ("inum", 0), r1[2], body))
        if nm == "accumulate" and len(args) == 3:
            r1 = self.range_of(args[0], args[1])
            v = self.fresh("i")
            return ("add", self.kexpr(args[2]), ("sum", v, ("inum", 0), r1[2], self.range_elt(r1, ("ivar", v))))
        if nm == "pow" and len(args) == 2:
            e = strip1(args[1])
            if e.get("kind") == "IntegerLiteral" and int(e["value"]) == 2:
                a = self.kexpr(args[0])
                return ("mul", a, a)
            self.err("std::pow with an exponent other than the literal 2")
        if n.get("kind") == "CXXMemberCallExpr" and callee.get("kind") == "MemberExpr":
            base = strip1(kids(callee)[0]) if kids(callee) else {}
            if base.get("kind") == "CXXThisExpr" and nm in self.ctx.methods:
                return self.inline(nm, args)
        self.err("call of %s not understood" % nm)

    def inline(self, nm, args):
        decl, body = self.ctx.methods[nm]
        params = [c for c in decl.get("inner", []) if c.get("kind") == "ParmVarDecl"]
        stm = [c for c in kids(body)]
        if len(stm) != 1 or stm[0].get("kind") != "ReturnStmt" or len(params) != len(args):
            self.err("accessor %s is not a single return statement" % nm)
        saved = dict(self.env)
        for p, a in zip(params, args):
            if is_int_type(qtype(p)):
                self.env[p["id"]] = ("int", self.iexpr(a))
            else:
                self.env[p["id"]] = self.kexpr(a)
        try:
            return self.kexpr(kids(stm[0])[0])
        finally:
            self.env = saved

    def range_parts(self, n):
        """`X.begin()` / `X.end()` -> (which, array key, [prefix indices])"""
        n = strip1(n)
        if n.get("kind") != "CXXMemberCallExpr":
            self.err("iterator argument is not X.begin()/X.end()")
        callee = kids(n)[0]
        which = callee.get("name")
        if which not in ("begin", "end", "cbegin", "cend"):
            self.err("iterator argument is %s()" % which)
        base = strip1(kids(callee)[0])
        if base.get("kind") in ("CXXOperatorCallExpr", "ArraySubscriptExpr"):
            arr, idx = self.subscript(base)
        else:
            arr, idx = self.array_key(base), []
        return which.lstrip("c"), arr, idx

    def range_of(self, a, b):
        w1, arr1, i1 = self.range_parts(a)
        w2, arr2, i2 = self.range_parts(b)
        if (w1, w2) != ("begin", "end") or arr1 != arr2 or i1 != i2:
            self.err("iterator pair is not X.begin(), X.end() of one array")
        return self.mkrange(arr1, i1)

    def range_start(self, a):
        w, arr, i = self.range_parts(a)
        if w != "begin":
            self.err("second sequence does not start at begin()")
        return self.mkrange(arr, i)

    def mkrange(self, arr, prefix):
        ext = self.extents_of(arr)
        if len(prefix) != len(ext) - 1:
            self.err("iterator range over %s is not one-dimensional" % arr[1])
        return (arr, prefix, ext[-1])

    def range_elt(self, r, iv):
        arr, prefix, _ = r
        return self.read_any(arr, list(prefix) + [iv])

    # ------------------------------------------------------------------ statements
    def written_in(self, n):
        """pre-scan: arrays written and outer locals assigned anywhere below n"""
        arrs, locs = set(), set()
        for s in walk(n):
            k = s.get("kind")
            tgt = None
            if k in ("BinaryOperator", "CompoundAssignOperator") and (k == "CompoundAssignOperator" or s.get("opcode") == "="):
                tgt = strip1(kids(s)[0])
            elif k == "UnaryOperator" and s.get("opcode") in ("++", "--"):
                tgt = strip1(kids(s)[0])
            elif k in ("CXXMemberCallExpr",) and strip1(kids(kids(s)[0])[0] if kids(kids(s)[0]) else {}).get("kind") == "CXXThisExpr" \
                    and kids(s)[0].get("name") in self.ctx.callable:
                self.err("call of %s inside a loop" % kids(s)[0].get("name"))
            if tgt is None:
                continue
            if tgt.get("kind") in ("CXXOperatorCallExpr", "ArraySubscriptExpr"):
                cur = tgt
                while cur.get("kind") in ("CXXOperatorCallExpr", "ArraySubscriptExpr"):
                    ks = kids(cur)
                    cur = strip1(ks[1] if cur.get("kind") == "CXXOperatorCallExpr" else ks[0])
                try:
                    arrs.add(self.array_key(cur))
                except TranslateError:
                    raise
            elif tgt.get("kind") == "MemberExpr":
                nm = tgt.get("name")
                if nm in self.ctx.state_arrays:
                    arrs.add(("st", nm))
                elif nm not in self.ctx.ignored_members:
                    self.err("assignment to member %s" % nm)
            elif tgt.get("kind") == "DeclRefExpr":
                locs.add((tgt.get("referencedDecl") or {}).get("id"))
        return arrs, locs

    def exec_block(self, stmts, top=False):
        stmts = elim_continue(stmts)
        for i, s in enumerate(stmts):
            if self.returned:
                self.err("statements after a return")
            self.exec_stmt(s, top)
            if top:
                self.flush()

    def exec_stmt(self, s, top=False):
        k = s.get("kind")
        if k == "CompoundStmt":
            return self.exec_block(kids(s), top)
        if k == "NullStmt":
            return
        if k == "DeclStmt":
            for vd in kids(s):
                if vd.get("kind") != "VarDecl":
                    self.err("declaration of kind %s" % vd.get("kind"))
                self.declare(vd)
            return
        if k in WRAPPERS:
            return self.exec_stmt(kids(s)[0], top)
        if k == "ForStmt":
            return self.exec_for(s)
        if k == "IfStmt":
            return self.exec_if(s, top)
        if k == "ReturnStmt":
            if not top:
                self.err("return below the top level of the function")
            self.returned = True
            ks = kids(s)
            if ks:
                r = strip_all(ks[0])
                if r.get("kind") == "DeclRefExpr":
                    v = self.env.get((r.get("referencedDecl") or {}).get("id"))
                    if isinstance(v, tuple) and v and v[0] == "larr":
                        self.result = ("larr", v[1])
                        return
                if r.get("kind") == "MemberExpr":
                    return          # `return _filling;` : a reference to a member, no effect on the state
                self.err("return of something else than a local array or a member")
            return
        if k in ("BinaryOperator", "CompoundAssignOperator") and (k == "CompoundAssignOperator" or s.get("opcode") == "="):
            return self.assign(s)
        if k == "UnaryOperator" and s.get("opcode") in ("++", "--"):
            self.err("increment outside a loop header")
        if k == "CXXMemberCallExpr":
            callee = kids(s)[0]
            base = strip1(kids(callee)[0]) if kids(callee) else {}
            nm = callee.get("name")
            if base.get("kind") == "CXXThisExpr" and nm in self.ctx.callable:
                if not top:
                    self.err("call of %s below the top level of the function" % nm)
                args = [self.iexpr(a) for a in kids(s)[1:]]
                if len(args) != self.ctx.callable[nm]:
                    self.err("call of %s with %d arguments" % (nm, len(args)))
                self.flush()
                self.version += 1
                self.lets.append((self.version, "call", (nm, args)))
                return
            self.err("call of %s as a statement" % nm)
        self.err("statement of kind %s" % k)

    def declare(self, vd):
        t = qtype(vd)
        ks = kids(vd)
        self.names[vd["id"]] = vd.get("name")
        if "vector<" in t or "multi_array" in t:
            c = strip_all(ks[0]) if ks else {}
            if "vector<" in t and c.get("kind") == "CXXConstructExpr":
                args = [a for a in kids(c) if a.get("kind") != "CXXDefaultArgExpr"]
                if len(args) == 1 and is_int_type(qtype(args[0])):
                    nm = vd["name"]
                    self.larr[nm] = (1, [self.iexpr(args[0])])
                    self.env[vd["id"]] = ("larr", nm)
                    return
            self.err("local array %s is not a vector constructed with its size" % vd.get("name"))
        if not ks:
            self.err("local %s without initialiser" % vd.get("name"))
        if is_float_type(t):
            self.env[vd["id"]] = self.kexpr(ks[-1])
        elif is_int_type(t):
            self.env[vd["id"]] = ("int", self.iexpr(ks[-1]))
        else:
            self.err("local %s of type %s" % (vd.get("name"), t))

    def assign(self, s):
        lhs, rhs = kids(s)
        op = s.get("opcode")
        tgt = strip1(lhs)
        binop = {"=": None, "+=": "add", "-=": "sub", "*=": "mul", "/=": "div"}.get(op, "?")
        if binop == "?":
            self.err("assignment operator %s" % op)
        if tgt.get("kind") in ("CXXOperatorCallExpr", "ArraySubscriptExpr") or \
                (tgt.get("kind") == "MemberExpr" and (tgt.get("name") in self.ctx.state_arrays or tgt.get("name") in self.ctx.ignored_members)):
            if tgt.get("kind") == "MemberExpr":
                arr, idx = self.array_key(tgt), []
            else:
                arr, idx = self.subscript(tgt)
            if arr[0] == "ignored":
                return
            e = self.kexpr(rhs)
            if binop:
                e = (binop, self.read_any(arr, idx), e)
            return self.write(arr, tuple(idx), e)
        if tgt.get("kind") == "DeclRefExpr":
            rid = (tgt.get("referencedDecl") or {}).get("id")
            if rid not in self.env:
                self.err("assignment to unknown variable %s" % refname(tgt))
            cur = self.env[rid]
            if isinstance(cur, tuple) and cur and cur[0] in ("int", "larr"):
                self.err("assignment to the integer/array local %s" % refname(tgt))
            e = self.kexpr(rhs)
            if binop:
                e = (binop, cur, e)
            self.env[rid] = e
            return
        self.err("assignment target of kind %s" % tgt.get("kind"))

    # ---- if
    def exec_if(self, s, top):
        ks = [c for c in s.get("inner", []) if c]
        c = self.cond(ks[0])
        base_env = dict(self.env)
        base_st = {a: list(st) for a, st in self.stacks.items()}

        def run(body):
            self.env = dict(base_env)
            self.stacks = {a: list(st) for a, st in base_st.items()}
            if body is not None:
                self.exec_stmt(body)
            return self.env, self.stacks
        e1, s1 = run(ks[1])
        e2, s2 = run(ks[2] if len(ks) > 2 else None)
        env = {}
        for rid in base_env:
            a, b = e1.get(rid), e2.get(rid)
            env[rid] = a if a == b else mk_ite(c, a, b)
        self.env = env
        stacks = {}
        for arr in set(s1) | set(s2) | set(base_st):
            b0 = base_st.get(arr, [])
            t1, t2 = s1.get(arr, []), s2.get(arr, [])
            k = 0
            while k < len(b0) and k < len(t1) and k < len(t2) and t1[k] is b0[k] and t2[k] is b0[k]:
                k += 1
            if any(isinstance(x, tuple) for x in b0[k:]):
                self.err("a branch rewrites cells of %s written before an enclosing loop" % arr[1])
            l1, l2 = t1[k:], t2[k:]
            merged = list(b0[:k])
            if l1 or l2:
                if len(l1) > 1 or len(l2) > 1:
                    self.err("several regions of %s written in one branch" % arr[1])
                u1 = l1[0] if l1 else None
                u2 = l2[0] if l2 else None
                if u1 is not None and u2 is not None:
                    if u1.pos != u2.pos:
                        self.err("the two branches write different regions of %s" % arr[1])
                    merged.append(Upd(u1.pos, u1.value if u1.value == u2.value else mk_ite(c, u1.value, u2.value)))
                else:
                    u = u1 or u2
                    if not all(p[0] == "fix" for p in u.pos):
                        self.err("only one branch writes a region of %s" % arr[1])
                    self.stacks = {arr: merged}
                    old = self.read(arr, u.coords())
                    merged.append(Upd(u.pos, mk_ite(c, u.value, old) if u1 is not None else mk_ite(c, old, u.value)))
            stacks[arr] = merged
        self.stacks = stacks

    def loop_header(self, s):
        ks = s.get("inner", [])
        init, _, cnd, inc, body = ks[0], ks[1], ks[2], ks[3], ks[4]
        if init is None or init.get("kind") != "DeclStmt":
            self.err("loop without a variable declaration")
        vds = [c for c in kids(init) if c.get("kind") == "VarDecl"]
        if len(vds) != 1 or not kids(vds[0]) or not is_int_type(qtype(vds[0])):
            self.err("loop header declares something else than one integer variable")
        vd = vds[0]
        lo = self.iexpr(kids(vd)[0])
        if cnd is None:
            self.err("loop without a condition")
        c = strip1(cnd)
        if c.get("kind") != "BinaryOperator":
            self.err("loop condition is not a comparison")
        a, b = kids(c)
        op = c.get("opcode")

        def isvar(x):
            x = strip1(x)
            return x.get("kind") == "DeclRefExpr" and (x.get("referencedDecl") or {}).get("id") == vd["id"]
        if op in (">", ">=", ) and isvar(b):
            a, b, op = b, a, {">": "<", ">=": "<="}[op]
        if not isvar(a):
            self.err("loop condition does not test the loop variable")
        hi = self.iexpr(b)
        if op == "<":
            pass
        elif op == "<=":
            hi = ("iadd", hi, ("inum", 1))
        elif op == "!=":
            if lo != ("inum", 0):
                self.err("loop condition `!=` with a start other than 0")
        else:
            self.err("loop condition operator %s" % op)
        i = strip1(inc) if inc else {}
        ok = False
        if i.get("kind") == "UnaryOperator" and i.get("opcode") == "++" and isvar(kids(i)[0]):
            ok = True
        if i.get("kind") == "CompoundAssignOperator" and i.get("opcode") == "+=" and isvar(kids(i)[0]):
            r = strip1(kids(i)[1])
            ok = r.get("kind") == "IntegerLiteral" and int(r["value"]) == 1
        if not ok:
            self.err("loop increment is not ++v / v++ / v += 1")
        # the body must not assign the loop variable
        for x in walk(body):
            if x.get("kind") in ("BinaryOperator", "CompoundAssignOperator", "UnaryOperator") and \
                    (x.get("kind") == "CompoundAssignOperator" or x.get("opcode") in ("=", "++", "--")) and isvar(kids(x)[0]):
                self.err("loop variable modified in the body")
        return vd, lo, hi, body

    def exec_for(self, s):
        vd, lo, hi, body = self.loop_header(s)
        arrs, locs = self.written_in(body)
        arrs = {a for a in arrs if a[0] != "ignored"}
        L = self.fresh("L")
        vname = self.fresh(vd["name"])
        v = ("ivar", vname)
        saved_env = dict(self.env)
        self.env[vd["id"]] = ("int", v)
        carried = [rid for rid in locs if rid in saved_env]
        for rid in carried:
            cur = saved_env[rid]
            if isinstance(cur, tuple) and cur and cur[0] in ("int", "larr"):
                self.err("integer/array local %s modified in a loop" % self.names.get(rid))
            self.env[rid] = ("ph", (("loc", rid), (), L))
        marks = {}
        for a in arrs:
            st = self.stacks.setdefault(a, [])
            marks[a] = len(st)
            st.append(("mark", L))
        self.loops.append(L)
        self.exec_stmt(body)
        self.loops.pop()
        # ---- carried scalars: closed forms
        per_iter, at_end = {}, {}
        pending = {}
        for rid in carried:
            ph = ("ph", (("loc", rid), (), L))
            fin = self.env.get(rid)
            if fin == ph:
                per_iter[ph] = saved_env[rid]
                at_end[rid] = saved_env[rid]
                continue
            pending[rid] = (ph, fin)
        # pure iterations first
        rest = {}
        for rid, (ph, fin) in pending.items():
            others = [p for p in phs(fin) if p != ph and p[1][2] == L]
            if not others and not mentions(fin, v):
                add = additive(fin, ph)
                if add is None:
                    x = self.fresh("s")
                    F = subst(fin, {ph: ("lvar", x)})
                    per_iter[ph] = ("iter", ("isub", v, lo), x, F, saved_env[rid])
                    at_end[rid] = ("iter", ("isub", hi, lo), x, F, saved_env[rid])
                    continue
            rest[rid] = (ph, fin)
        for rid, (ph, fin) in rest.items():
            add = additive(fin, ph)
            if add is None:
                self.err("local %s is carried round a loop in a way that is neither `s = s + t` nor `s = F(s)`" % self.names.get(rid))
            sign, t = add
            t = subst(t, {k2: v2 for k2, v2 in per_iter.items() if v2 is not None})
            if [p for p in phs(t) if p[1][2] == L and p[1][0][0] == "loc"]:
                self.err("the term accumulated into %s depends on another accumulated quantity" % self.names.get(rid))
            w = self.fresh(vd["name"])
            sm = ("sum", w, lo, hi, subst(t, {v: ("ivar", w)}))
            at_end[rid] = (sign, saved_env[rid], sm)
            per_iter[ph] = None     # use of a running sum elsewhere is not supported
        # ---- arrays: take the layers written in the body off the stacks, then close them one by one
        body_ups = {}
        for a in arrs:
            st = self.stacks[a]
            m = marks[a]
            if m >= len(st) or st[m] != ("mark", L):
                self.err("internal: loop mark of %s lost" % a[1])
            ups = st[m + 1:]
            del st[m:]
            if any(isinstance(u, tuple) for u in ups):
                self.err("internal: inner loop mark of %s left open" % a[1])
            body_ups[a] = ups
        loc_sub = {k2: v2 for k2, v2 in per_iter.items() if v2 is not None}

        def resolve(e, selfkey, what):
            """placeholders of this loop inside e: locals -> closed form of this iteration; cells of arrays written in
            the body -> content before the loop, allowed only when no iteration can have written that cell"""
            rep = {}
            for p in phs(e):
                (parr, pT, pL) = p[1]
                if pL != L or p == selfkey:
                    continue
                if parr[0] == "loc":
                    if per_iter.get(p) is None:
                        self.err("a running sum is used in %s" % what)
                    rep[p] = per_iter[p]
                    continue
                for u2 in body_ups.get(parr, []):
                    if not lit_disjoint(u2.coords(), pT):
                        self.err("%s is read at a cell other than the one being written in the same loop (%s)" % (parr[1], what))
                rep[p] = self.read(parr, pT)
            return subst(e, rep) if rep else e
        out = []
        for a in arrs:
            for u in body_ups[a]:
                selfph = ("ph", (a, tuple(u.coords()), L))
                val = resolve(u.value, selfph, "a value written to %s" % a[1])
                uses_self = mentions(val, selfph)
                hits = [i for i, p in enumerate(u.pos) if p[0] == "fix" and p[1] == v]
                others = [i for i, p in enumerate(u.pos) if i not in hits and mentions(list(p[1:]), v)]
                if others or len(hits) > 1:
                    self.err("loop variable %s occurs in an index of %s other than as one plain subscript" % (vd["name"], a[1]))
                below = self.read(a, u.coords()) if uses_self else None
                if len(hits) == 1:
                    p = hits[0]
                    cp = ("ivar", "c%d" % p)
                    if uses_self:
                        val = subst(val, {selfph: below})
                    val = subst(val, {v: cp})
                    pos = [(q[0],) + tuple(subst(x, {v: cp}) for x in q[1:]) for q in u.pos]
                    pos[p] = ("rng", lo, hi)
                    out.append((a, Upd(pos, val)))
                else:
                    if not uses_self:
                        self.err("%s is overwritten in every iteration of a loop whose variable is not in its index" % a[1])
                    add = additive(val, selfph)
                    if add is None:
                        self.err("%s is updated in a reduction loop by something else than `cell += t`" % a[1])
                    sign, t = add
                    w = self.fresh(vd["name"])
                    out.append((a, Upd(list(u.pos), (sign, below, ("sum", w, lo, hi, subst(t, {v: ("ivar", w)}))))))
        for a, u in out:
            self.push(a, u)
        # carried scalars whose accumulated term read arrays written in the loop
        for rid in list(at_end):
            at_end[rid] = resolve(at_end[rid], None, "the value of %s" % self.names.get(rid))
        # ---- environment after the loop
        env = dict(saved_env)
        for rid, e in at_end.items():
            env[rid] = e
        self.env = env
        # anything that still mentions the loop variable or this loop's placeholders is an error
        for rid, e in self.env.items():
            if isinstance(e, tuple) and (mentions(e, v) or any(p[1][2] == L for p in phs(e))):
                self.err("value of %s after the loop depends on the loop's internals" % self.names.get(rid))
        for a, st in self.stacks.items():
            for u in st:
                if isinstance(u, Upd) and (mentions(u.value, v) or mentions(u.pos, v) or any(p[1][2] == L for p in phs(u.value))):
                    self.err("a value written to %s depends on the internals of a closed loop" % a[1])

    # ------------------------------------------------------------------ flush / results
    def flush(self):
        """top level: turn the pending writes to state arrays into a new state version"""
        ups = {}
        for a, st in self.stacks.items():
            if a[0] != "st" or not st:
                continue
            if any(isinstance(u, tuple) for u in st):
                self.err("internal: open loop mark at top level")
            ups[a[1]] = list(st)
            self.stacks[a] = []
        if not ups:
            return
        for nm, st in ups.items():
            for u in st:
                if phs(u.value) or phs(u.pos):
                    self.err("internal: unresolved placeholder in a value written to %s" % nm)
        self.version += 1
        self.lets.append((self.version, "upd", ups))

    def local_array_result(self):
        if self.result is None or self.result[0] != "larr":
            return None
        st = self.stacks.get(("larr", self.result[1]), [])
        for u in st:
            if isinstance(u, tuple) or phs(u.value):
                self.err("internal: unresolved loop in the returned array")
        return list(st)


def additive(e, ph):
    """e == ph + t, t + ph, ph - t with t free of ph  ->  ('add'|'sub', t)"""
    if not isinstance(e, tuple):
        return None
    if e[0] == "add":
        if e[1] == ph and not mentions(e[2], ph):
            return ("add", e[2])
        if e[2] == ph and not mentions(e[1], ph):
            return ("add", e[1])
    if e[0] == "sub" and e[1] == ph and not mentions(e[2], ph):
        return ("sub", e[2])
    return None


def strip_all(n):
    while True:
        m = strip1(n)
        if m.get("kind") == "CXXConstructExpr":
            args = [a for a in kids(m) if a.get("kind") != "CXXDefaultArgExpr"]
            if len(args) == 1 and strip1(args[0]).get("kind") in ("DeclRefExpr", "MemberExpr") and \
                    _bare(qtype(args[0])) == _bare(qtype(m)):
                n = args[0]
                continue
        return m


# ------------------------------------------------------------------------------------------------ Coq printing

def posterm(m):
    if m == 1:
        return "1"
    if m == 2:
        return "(1+1)"
    if m == 3:
        return "(1+(1+1))"
    if m % 2 == 0:
        return "((1+1)*%s)" % posterm(m // 2)
    return "(1+(1+1)*%s)" % posterm(m // 2)


def numc(q):
    if q == 0:
        return "0"
    s = posterm(abs(q.numerator))
    if q.denominator != 1:
        s = "(%s/%s)" % (s, posterm(q.denominator))
    return s if q > 0 else "(- (%s))" % s


class Printer:
    """prints IR as Gallina over the combinators of Model/MomentsIR.v; `rd` prints as field access of a state variable"""
    def __init__(self, field_of, fn_of, ivar_of):
        self.field_of, self.fn_of, self.ivar_of0 = field_of, fn_of, ivar_of
        self.ren, self.depth = {}, 0

    def ivar_of(self, nm):
        return self.ren[nm] if nm in self.ren else self.ivar_of0(nm)

    def bind(self, nm, prefix):
        """bound variables are printed by nesting depth, so that the text does not depend on internal counters"""
        self.depth += 1
        self.ren[nm] = "%s%d" % (prefix, self.depth)
        return self.ren[nm]

    def unbind(self, nm):
        self.depth -= 1
        del self.ren[nm]

    def i(self, e):
        t = e[0]
        if t == "inum":
            return str(e[1]) if e[1] >= 0 else "(%d)" % e[1]
        if t == "ivar":
            return self.ivar_of(e[1])
        if t in ("iadd", "isub", "imul"):
            return "(%s %s %s)%%Z" % (self.i(e[1]), {"iadd": "+", "isub": "-", "imul": "*"}[t], self.i(e[2]))
        if t == "iite":
            return "(if %s then %s else %s)" % (self.c(e[1]), self.i(e[2]), self.i(e[3]))
        raise TranslateError("cannot print integer expression %s" % (e,))

    def c(self, e):
        t = e[0]
        if t == "pos":
            return "(e_pos E %s)" % self.k(e[1])
        if t == "ieq":
            return "(%s =? %s)%%Z" % (self.i(e[1]), self.i(e[2]))
        if t == "ilt":
            return "(%s <? %s)%%Z" % (self.i(e[1]), self.i(e[2]))
        if t == "ile":
            return "(%s <=? %s)%%Z" % (self.i(e[1]), self.i(e[2]))
        if t == "not":
            return "(negb %s)" % self.c(e[1])
        if t == "and":
            return "(%s && %s)%%bool" % (self.c(e[1]), self.c(e[2]))
        raise TranslateError("cannot print condition %s" % (e,))

    def k(self, e):
        t = e[0]
        if t == "num":
            return numc(e[1])
        if t == "lvar":
            return self.ivar_of(e[1])
        if t == "neg":
            return "(- (%s))" % self.k(e[1])
        if t in ("add", "sub", "mul", "div"):
            return "(%s %s %s)" % (self.k(e[1]), {"add": "+", "sub": "-", "mul": "*", "div": "/"}[t], self.k(e[2]))
        if t == "rd":
            return "(%s%s)" % (self.field_of(e[1]), "".join(" " + self.i(x) for x in e[2]))
        if t == "fn":
            return "(%s%s)" % (self.fn_of(e[1]), "".join(" " + self.i(x) for x in e[2]))
        if t == "sum":
            lo, hi = self.i(e[2]), self.i(e[3])
            b = self.bind(e[1], "k")
            r = "(gsum K %s %s (fun %s : Z => %s))" % (lo, hi, b, self.k(e[4]))
            self.unbind(e[1])
            return r
        if t == "iter":
            cnt, entry = self.i(e[1]), self.k(e[4])
            b = self.bind(e[2], "s")
            r = "(giter K %s (fun %s : K => %s) %s)" % (cnt, b, self.k(e[3]), entry)
            self.unbind(e[2])
            return r
        if t == "ite":
            return "(if %s then %s else %s)" % (self.c(e[1]), self.k(e[2]), self.k(e[3]))
        if t == "fz":
            return "(fz %s)" % self.i(e[1])
        raise TranslateError("cannot print expression %s" % (e,))

    def layers(self, ups, rank, old):
        """fun c0 .. => if <top region> then <top value> else ... else old c0 .."""
        cs = ["c%d" % i for i in range(rank)]
        body = "%s%s" % (old, "".join(" " + c for c in cs)) if rank else old
        for u in ups:
            g = []
            for p, q in enumerate(u.pos):
                if q[0] == "fix":
                    g.append("(c%d =? %s)%%Z" % (p, self.i(q[1])))
                else:
                    g.append("inr %s %s c%d" % (self.i(q[1]), self.i(q[2]), p))
            val = self.k(u.value)
            body = "if (%s)%%bool then %s else %s" % (" && ".join(g), val, body) if g else val
        if rank:
            return "(fun %s : Z => %s)" % (" ".join(cs), body)
        return "(%s)" % body
