#!/usr/bin/env python3
# GEN: Gen_FPStencil
"""Gen_FPStencil.v from the FokkerPlanckMap constructor (src/SM/FokkerPlanckMap.cpp).

Idiom recognised (anything else raises TranslateError, DESIGN 2.2):
  const interpol_t e1_2d|e1_6d|e1_d2 = <arithmetic in e1, in->getDelta(1), literals>;
  const meshaxis_t ycenter = in->getAxis(1)->zerobin();
  switch (dt) {
  case two_sided(3): zero entries of row 0; one loop `for (j=A; j<_ysize-B; j++)`; zero entries of row n-1
  case cubic(4):     zero entries of rows 0,1; `for (j=A; j<ycenter; j++)`; `for (j=ycenter; j<(meshindex_t)(_ysize-B); j++)`;
                     zero entries of rows n-2, n-1 }
  loop body: `_hinfo[j*_ip+k] = {j+c_k, b_k}` for k = 0.._ip-1, an optional `pos = in->p(j)`, and
  `if (_fptype != none && _fptype != diffusion_only|damping_only) { _hinfo[j*_ip+k].weight += expr; ... }`.

Emitted: the three per-step constants, the enum values and the two type tests, the loop bounds,
and per loop the row `j, pos |-> [(index, base + opt dmp (damping increments) + opt dif (diffusion
increments))]` over the generic field.  The order of the writes (initial zero rows, loops, final
zero rows) is checked here and mirrored by Model/FokkerPlanck.v."""
import sys, os
sys.path.insert(0, os.path.dirname(os.path.abspath(__file__)))
from cxx_ast import *


def unwrap(n):
    """strip value-preserving wrappers, also integral casts (indices are modelled in Z)"""
    while True:
        k = n.get("kind")
        if k in ("ImplicitCastExpr", "ParenExpr", "CXXFunctionalCastExpr", "CStyleCastExpr", "CXXStaticCastExpr",
                 "ExprWithCleanups", "MaterializeTemporaryExpr", "CXXBindTemporaryExpr", "ConstantExpr"):
            if n.get("castKind") in ("FloatingToIntegral", "FloatingToBoolean"):
                raise TranslateError("value-changing cast %s" % n.get("castKind"))
            ks = kids(n)
            if len(ks) != 1:
                raise TranslateError("wrapper with %d children" % len(ks))
            n = ks[0]
        else:
            return n


def to_ir2(n, env, member_ok):
    """cxx_ast.to_ir with the call hook honoured at every depth"""
    n = strip(n)
    k = n.get("kind")
    if k == "UnaryOperator":
        a = to_ir2(kids(n)[0], env, member_ok)
        if n["opcode"] == "-":
            return ("neg", a)
        if n["opcode"] == "+":
            return a
        raise TranslateError("unary %s" % n["opcode"])
    if k == "BinaryOperator":
        op = {"+": "add", "-": "sub", "*": "mul", "/": "div"}.get(n["opcode"])
        if not op:
            raise TranslateError("binary %s" % n["opcode"])
        a, b = kids(n)
        return (op, to_ir2(a, env, member_ok), to_ir2(b, env, member_ok))
    return to_ir(n, env, member_ok)


def calls_member(n, name):
    """n is a call `<obj>-><name>(...)`: returns the argument list or None"""
    n = unwrap(n)
    if n.get("kind") != "CXXMemberCallExpr":
        return None
    ks = kids(n)
    if not ks or ks[0].get("kind") != "MemberExpr" or ks[0].get("name") != name:
        return None
    return ks[1:]


def int_affine(n, names):
    """integer expression -> dict {name or 1: coefficient}; names: allowed variables/members"""
    n = unwrap(n)
    k = n.get("kind")
    if k == "IntegerLiteral":
        return {1: int(n["value"])}
    if k == "DeclRefExpr":
        nm = n["referencedDecl"]["name"]
        if nm in names:
            return {nm: 1}
        raise TranslateError("unexpected variable %s in an index" % nm)
    if k == "MemberExpr":
        nm = n.get("name")
        if nm in names:
            return {nm: 1}
        raise TranslateError("unexpected member %s in an index" % nm)
    if k == "BinaryOperator" and n["opcode"] in ("+", "-"):
        a, b = [int_affine(x, names) for x in kids(n)]
        s = 1 if n["opcode"] == "+" else -1
        r = dict(a)
        for key, v in b.items():
            r[key] = r.get(key, 0) + s * v
        return {key: v for key, v in r.items() if v != 0}
    if k == "BinaryOperator" and n["opcode"] == "*":
        a, b = [int_affine(x, names) for x in kids(n)]
        # products: (affine without _ip) * _ip only
        if b == {"_ip": 1}:
            return {("ip", key): v for key, v in a.items()}
        if a == {"_ip": 1}:
            return {("ip", key): v for key, v in b.items()}
        raise TranslateError("index product not of the form row*_ip")
    raise TranslateError("index expression kind %s" % k)


def hinfo_index(n):
    """`_hinfo[expr]` -> (row, entry) with row in {'j', int (absolute row), ('n', -c)}"""
    n = unwrap(n)
    if n.get("kind") != "ArraySubscriptExpr":
        raise TranslateError("not an array subscript")
    base, idx = kids(n)
    base = unwrap(base)
    if base.get("kind") != "MemberExpr" or base.get("name") != "_hinfo":
        raise TranslateError("array is not _hinfo")
    a = int_affine(idx, ("j", "_ip", "_ysize"))
    entry = a.pop(1, 0)
    if a == {}:
        return 0, entry                      # _hinfo[k]: row 0
    if a == {"_ip": 1}:
        return 1, entry                      # _hinfo[_ip+k]: row 1
    if a == {("ip", "j"): 1}:
        return "j", entry
    if set(a) <= {("ip", "_ysize"), ("ip", 1)} and a.get(("ip", "_ysize")) == 1:
        return ("n", a.get(("ip", 1), 0)), entry
    raise TranslateError("unrecognised _hinfo index %s" % a)


def init_pair(n):
    n = unwrap(n)
    if n.get("kind") != "InitListExpr":
        raise TranslateError("right-hand side is not {index, weight}")
    a, b = kids(n)
    return a, b


def hinfo_assign(n):
    """`_hinfo[..] = {idx, w}` -> (row, entry, idxnode, wnode) or None"""
    n = unwrap(n)
    if n.get("kind") != "CXXOperatorCallExpr":
        return None
    ks = kids(n)
    f = unwrap(ks[0])
    if f.get("kind") != "DeclRefExpr" or f["referencedDecl"]["name"] != "operator=":
        return None
    row, entry = hinfo_index(ks[1])
    a, b = init_pair(ks[2])
    return row, entry, a, b


def literal_int(n):
    n = unwrap(n)
    if n.get("kind") == "IntegerLiteral":
        return int(n["value"])
    if n.get("kind") == "UnaryOperator" and n["opcode"] == "-":
        return -literal_int(kids(n)[0])
    raise TranslateError("expected an integer literal, got %s" % n.get("kind"))


BOOLENV = {}     # local `const bool` flags of the constructor: name -> defining expression


def fp_cond(n, enum, val):
    """truth value of a condition over `_fptype` (==, !=, &&, ||, !, local const bool flags) when _fptype = val"""
    n = unwrap(n)
    k = n.get("kind")
    if k == "BinaryOperator" and n["opcode"] in ("&&", "||"):
        a, b = [fp_cond(c, enum, val) for c in kids(n)]
        return (a and b) if n["opcode"] == "&&" else (a or b)
    if k == "UnaryOperator" and n["opcode"] == "!":
        return not fp_cond(kids(n)[0], enum, val)
    if k == "BinaryOperator" and n["opcode"] in ("!=", "=="):
        l, r = [unwrap(x) for x in kids(n)]
        if r.get("kind") == "MemberExpr":
            l, r = r, l
        if l.get("kind") != "MemberExpr" or l.get("name") != "_fptype" or r.get("kind") != "DeclRefExpr":
            raise TranslateError("comparison is not `_fptype ==/!= FPType::X`")
        nm = r["referencedDecl"]["name"]
        if nm not in enum:
            raise TranslateError("unknown FPType constant %s" % nm)
        return (val == enum[nm]) if n["opcode"] == "==" else (val != enum[nm])
    if k == "DeclRefExpr" and n["referencedDecl"]["name"] in BOOLENV:
        return fp_cond(BOOLENV[n["referencedDecl"]["name"]], enum, val)
    raise TranslateError("unrecognised FPType condition (%s)" % k)


def fptype_test(n, enum):
    """classify a condition by its truth table over the four FPType values:
    true exactly for damping_only and full -> 'dmp'; exactly for diffusion_only and full -> 'dif'"""
    tt = {nm: fp_cond(n, enum, v) for nm, v in enum.items()}
    if tt == {"none": False, "damping_only": True, "diffusion_only": False, "full": True}:
        return "dmp"
    if tt == {"none": False, "damping_only": False, "diffusion_only": True, "full": True}:
        return "dif"
    raise TranslateError("FPType test with truth table %s is neither the damping nor the diffusion test" % tt)


def translate():
    docs = ast_of("src/SM/FokkerPlanckMap.cpp", "FokkerPlanckMap")
    enum = {}
    for d in docs:
        if d.get("kind") == "CXXRecordDecl":
            for c in kids(d):
                if c.get("kind") == "EnumDecl" and c.get("name") == "FPType":
                    for e in kids(c):
                        if e.get("kind") == "EnumConstantDecl":
                            val = None
                            for x in kids(e):
                                if "value" in x:
                                    val = int(x["value"])
                            if val is None:
                                raise TranslateError("FPType::%s has no explicit value" % e.get("name"))
                            enum[e["name"]] = val
    if sorted(enum) != ["damping_only", "diffusion_only", "full", "none"]:
        raise TranslateError("FPType enumerators changed: %s" % sorted(enum))
    ct = [d for d in docs if d.get("kind") == "CXXConstructorDecl"
          and any(c.get("kind") == "CompoundStmt" for c in d.get("inner", []))]
    if len(ct) != 1:
        raise TranslateError("expected one constructor with a body")
    inits = [c for c in ct[0]["inner"] if c.get("kind") == "CXXCtorInitializer"]
    body = [c for c in ct[0]["inner"] if c.get("kind") == "CompoundStmt"][0]

    def member_ok(n, env):
        a = calls_member(n, "getDelta")
        if a is not None:
            if literal_int(a[0]) != 1:
                raise TranslateError("getDelta of an axis other than 1")
            return ("var", "delta")
        return None

    env = {"e1": ("var", "e1")}
    consts = {}
    sw = None
    have_yc = False
    for s in kids(body):
        k = s.get("kind")
        if k == "DeclStmt":
            for v in kids(s):
                if v.get("kind") != "VarDecl":
                    raise TranslateError("unexpected declaration")
                nm = v["name"]
                if nm == "ycenter":
                    a = calls_member(kids(v)[0], "zerobin")
                    if a is None:
                        raise TranslateError("ycenter is not ...->zerobin()")
                    have_yc = True
                elif nm in ("e1_2d", "e1_6d", "e1_d2"):
                    consts[nm] = to_ir2(kids(v)[0], env, member_ok)
                    env[nm] = ("var", nm)
                elif (v.get("type") or {}).get("qualType", "").replace("const ", "").strip() == "bool" and kids(v):
                    BOOLENV[nm] = kids(v)[0]          # a flag such as `const bool damping = ...`; checked where it is used
                else:
                    raise TranslateError("unexpected local %s" % nm)
        elif k == "SwitchStmt":
            if sw is not None:
                raise TranslateError("two switch statements")
            sw = s
        elif k in ("NullStmt",):
            pass
        elif k == "IfStmt" or k == "CompoundStmt":
            raise TranslateError("unexpected statement %s after the switch" % k)
        else:
            raise TranslateError("unexpected statement %s in the constructor" % k)
    if sw is None or not have_yc or sorted(consts) != ["e1_2d", "e1_6d", "e1_d2"]:
        raise TranslateError("constructor prologue changed")
    c = unwrap(kids(sw)[0])
    if c.get("kind") != "DeclRefExpr" or c["referencedDecl"]["name"] != "dt":
        raise TranslateError("switch is not over dt")

    # split the switch body into cases
    cases = {}
    cur = None
    for s in kids(kids(sw)[-1]):
        k = s.get("kind")
        if k == "CaseStmt":
            val = None
            n = kids(s)[0]
            while n is not None and val is None:
                if "value" in n:
                    val = int(n["value"])
                ks = kids(n)
                n = ks[0] if ks else None
            if val is None or val in cases:
                raise TranslateError("bad case label")
            cur = val
            cases[cur] = [kids(s)[-1]]
        elif k == "BreakStmt":
            cur = None
        elif k == "DefaultStmt":
            raise TranslateError("default branch present")
        else:
            if cur is None:
                raise TranslateError("statement outside a case")
            cases[cur].append(s)
    if sorted(cases) != [3, 4]:
        raise TranslateError("derivation types changed: %s" % sorted(cases))

    def loop(fs, ip):
        init, cond, inc, bd = kids(fs)[0], kids(fs)[-3], kids(fs)[-2], kids(fs)[-1]
        v = kids(init)[0]
        if v.get("name") != "j":
            raise TranslateError("loop variable is not j")
        n0 = kids(v)[0]
        while n0.get("kind") in ("ParenExpr", "ExprWithCleanups") or (n0.get("kind") == "ImplicitCastExpr" and n0.get("castKind") in ("LValueToRValue", "NoOp", "IntegralCast")):
            n0 = kids(n0)[0]
        if n0.get("kind") == "IntegerLiteral":
            start = int(n0["value"])
        elif n0.get("castKind") == "FloatingToIntegral" and \
                unwrap(kids(n0)[0]).get("referencedDecl", {}).get("name") == "ycenter":
            start = "ycenter"            # float -> meshindex_t conversion: truncation toward zero
        else:
            raise TranslateError("loop start not understood")
        cond = unwrap(cond)
        if cond.get("kind") != "BinaryOperator" or cond["opcode"] != "<":
            raise TranslateError("loop condition is not `<`")
        l, r = kids(cond)
        lu = l
        while lu.get("kind") in ("ImplicitCastExpr", "ParenExpr"):
            lu = kids(lu)[0]
        if lu.get("kind") != "DeclRefExpr" or lu["referencedDecl"]["name"] != "j":
            raise TranslateError("loop condition is not on j")
        ru = r
        while ru.get("kind") in ("ImplicitCastExpr", "ParenExpr", "CXXStaticCastExpr", "CXXFunctionalCastExpr"):
            ru = kids(ru)[0]
        if ru.get("kind") == "DeclRefExpr" and ru["referencedDecl"]["name"] == "ycenter":
            end = "ycenter"
        else:
            a = int_affine(ru, ("_ysize",))
            if a.get("_ysize") != 1 or set(a) - {"_ysize", 1}:
                raise TranslateError("loop bound is not _ysize - c")
            end = -a.get(1, 0)
        inc = unwrap(inc)
        if inc.get("kind") != "UnaryOperator" or inc["opcode"] != "++":
            raise TranslateError("loop increment is not ++")
        benv = dict(env)
        rows = {}

        def posdecl(s):
            for v2 in kids(s):
                if v2.get("kind") != "VarDecl" or v2.get("name") != "pos":
                    raise TranslateError("unexpected declaration in a loop")
                a = calls_member(kids(v2)[0], "p")
                if a is None or unwrap(a[0]).get("referencedDecl", {}).get("name") != "j":
                    raise TranslateError("pos is not in->p(j)")
                benv["pos"] = ("var", "pos")

        for s in kids(bd):
            k = s.get("kind")
            if k == "DeclStmt":
                posdecl(s)
                continue
            if k == "IfStmt":
                ks = kids(s)
                if len(ks) != 2:
                    raise TranslateError("if with else")
                which = fptype_test(ks[0], enum)
                for t in kids(ks[1]):
                    if t.get("kind") == "DeclStmt":
                        posdecl(t)
                        continue
                    t = unwrap(t)
                    if t.get("kind") != "CompoundAssignOperator" or t["opcode"] != "+=":
                        raise TranslateError("statement in an FPType branch is not `+=`")
                    lhs, rhs = kids(t)
                    lhs = unwrap(lhs)
                    if lhs.get("kind") != "MemberExpr" or lhs.get("name") != "weight":
                        raise TranslateError("`+=` target is not .weight")
                    row, entry = hinfo_index(kids(lhs)[0])
                    if row != "j" or entry not in rows:
                        raise TranslateError("`+=` on an entry the loop did not initialise")
                    rows[entry][which].append(to_ir2(rhs, benv, member_ok))
                continue
            a = hinfo_assign(s)
            if a is None:
                raise TranslateError("unexpected statement %s in a loop" % k)
            row, entry, idxn, wn = a
            if row != "j" or entry in rows:
                raise TranslateError("loop writes row %s entry %s" % (row, entry))
            ia = int_affine(idxn, ("j",))
            if ia.get("j") != 1 or set(ia) - {"j", 1}:
                raise TranslateError("source index is not j + c")
            rows[entry] = dict(off=ia.get(1, 0), base=literal_int(wn), dmp=[], dif=[])
        if sorted(rows) != list(range(ip)):
            raise TranslateError("loop does not initialise entries 0..%d" % (ip - 1))
        return dict(start=start, end=end, rows=rows)

    def zero(s):
        a = hinfo_assign(s)
        if a is None:
            raise TranslateError("expected `_hinfo[..] = {0,0}`")
        row, entry, idxn, wn = a
        if literal_int(idxn) != 0 or literal_int(wn) != 0:
            raise TranslateError("border entry is not {0,0}")
        return row, entry

    parsed = {}
    for ip, sts in cases.items():
        seq = []
        for s in sts:
            if s.get("kind") == "ForStmt":
                seq.append(("loop", loop(s, ip)))
            else:
                seq.append(("zero", zero(s)))
        # shape: zeros*, loops+, zeros*
        i = 0
        pre, loops, post = [], [], []
        while i < len(seq) and seq[i][0] == "zero":
            pre.append(seq[i][1]); i += 1
        while i < len(seq) and seq[i][0] == "loop":
            loops.append(seq[i][1]); i += 1
        while i < len(seq) and seq[i][0] == "zero":
            post.append(seq[i][1]); i += 1
        if i != len(seq):
            raise TranslateError("case %d: statements not in the order zero rows, loops, zero rows" % ip)
        parsed[ip] = (pre, loops, post)

    def rows_of(zs, ip):
        rs = {}
        for row, entry in zs:
            rs.setdefault(row, set()).add(entry)
        for row, es in rs.items():
            if es != set(range(ip)):
                raise TranslateError("zero row %s does not cover entries 0..%d" % (row, ip - 1))
        return set(rs)

    pre3, loops3, post3 = parsed[3]
    if rows_of(pre3, 3) != {0} or rows_of(post3, 3) != {("n", -1)} or len(loops3) != 1:
        raise TranslateError("two_sided case: border rows or loops changed")
    l3 = loops3[0]
    if not isinstance(l3["start"], int) or not isinstance(l3["end"], int):
        raise TranslateError("two_sided loop bounds changed")
    pre4, loops4, post4 = parsed[4]
    if rows_of(pre4, 4) != {0, 1} or rows_of(post4, 4) != {("n", -2), ("n", -1)} or len(loops4) != 2:
        raise TranslateError("cubic case: border rows or loops changed")
    lo, hi = loops4
    if not isinstance(lo["start"], int) or lo["end"] != "ycenter" or hi["start"] != "ycenter" or not isinstance(hi["end"], int):
        raise TranslateError("cubic loop bounds changed")

    def idx_coq(off):
        if off == 0:
            return "j"
        if off < 0:
            return "u32 (j - %d)" % (-off)
        return "(j + %d)%%Z" % off

    def w_coq(r):
        s = "%d" % r["base"]
        for which in ("dmp", "dif"):
            if r[which]:
                e = r[which][0]
                for x in r[which][1:]:
                    e = ("add", e, x)
                s += " + opt %s %s" % (which, ir_coq(e) if e[0] != "var" else "(%s)" % e[1])
        return s

    def row_coq(name, lp, ip):
        ents = ["(%s, %s)" % (idx_coq(lp["rows"][k]["off"]), w_coq(lp["rows"][k])) for k in range(ip)]
        return "  Definition %s (dmp dif : bool) (j : Z) (pos : K) : list (Z * K) :=\n    [%s].\n" % (name, ";\n     ".join(ents))

    out = []
    out.append("(* GENERATED on every run by translate/stencil2coq.py from src/SM/FokkerPlanckMap.cpp")
    out.append("   (FokkerPlanckMap constructor). Do not edit. *)")
    out.append("From Coq Require Import List ZArith Bool.")
    out.append("From Inovesa Require Import Base.FieldKit.")
    out.append("Import ListNotations.")
    out.append("Definition u32 (z : Z) : Z := (z mod 2 ^ 32)%Z.")
    for nm in ("none", "damping_only", "diffusion_only", "full"):
        out.append("Definition fpt_%s : Z := %d%%Z." % (nm, enum[nm]))
    out.append("Definition has_damp (v : Z) : bool := (negb (v =? fpt_none) && negb (v =? fpt_diffusion_only))%Z.")
    out.append("Definition has_diff (v : Z) : bool := (negb (v =? fpt_none) && negb (v =? fpt_damping_only))%Z.")
    out.append("Definition fp3_first : Z := %d%%Z." % l3["start"])
    out.append("Definition fp3_last_off : Z := %d%%Z." % l3["end"])
    out.append("Definition fp4_first : Z := %d%%Z." % lo["start"])
    out.append("Definition fp4_last_off : Z := %d%%Z." % hi["end"])
    out.append("Section Gen.")
    out.append("  Variable K : Fld.")
    out.append("  Local Open Scope F_scope.")
    out.append("  Variables (e1 delta : K).")
    out.append("  Definition opt (b : bool) (x : K) : K := if b then x else 0.")
    for nm in ("e1_2d", "e1_6d", "e1_d2"):
        out.append("  Definition %s : K := %s." % (nm, ir_coq(consts[nm])))
    text = "\n".join(out) + "\n"
    text += row_coq("row3", l3, 3) + row_coq("row4lo", lo, 4) + row_coq("row4hi", hi, 4)
    text += "End Gen.\n"
    text += "Arguments opt {_}. Arguments e1_2d {_}. Arguments e1_6d {_}. Arguments e1_d2 {_}.\n"
    text += "Arguments row3 {_}. Arguments row4lo {_}. Arguments row4hi {_}.\n"
    return text


if __name__ == "__main__":
    dst = sys.argv[1] if len(sys.argv) > 1 else os.path.join(VERIF, "coq", "Gen", "Gen_FPStencil.v")
    try:
        text = translate()
    except TranslateError as e:
        print("TRANSLATE-ERROR Gen_FPStencil: %s" % e)
        sys.exit(2)
    ch = write_if_changed(dst, text)
    print("Gen_FPStencil.v %s" % ("regenerated" if ch else "unchanged"))
